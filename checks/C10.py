"""C10 — interpreter sessions keep definitions and survive failed calls unchanged.

Deciding monitor: a reference session model (bindings made before a failure
point persist, nothing after it exists, a module is cached only after it
evaluated completely, the load stack is empty between calls, interpreters are
isolated) against the outcome of every interpret call of exhaustively
enumerated command histories on one and on two interleaved interpreters."""
import itertools
import os

from cklmon import core
from cklmon.core import observe

RULE = ("alphabet of 23 commands (define, assign, read, define+call a function reading a session variable, failing "
        "expression, multi-statement call failing midway, syntax error, require of a good stateful module, of a missing, "
        "a broken-at-runtime, a broken-syntax and a circular module, loop aborted by an error after updating an "
        "accumulator, require of a module whose file the host writes only later, that host action, a failing call 90 frames deep, script files run from inside a function (one by a relative path) - non-secure "
        "sessions for those -, calls of 700 statements ending in a syntax error / a runtime error); all histories of length <= 3 (quick) / <= 4 (thorough) on one interpreter, all histories <= 2 / "
        "<= 3 over two interleaved interpreters (46 symbols), all histories <= 2 with one caller-supplied environment passed "
        "to every call, random histories to length 30, random histories fed line by line (some commands broken over two "
        "lines) to the interactive host ckl.repl in a child process; each followed by a fixed "
        "probe sequence; a case is one history; non-trivial = it contains a failing command followed by another command; "
        "distinct by history")
ASSUMPTIONS = [
    "messages are not compared; outcomes are (value | error value | syntax error)",
    "the loop variable left bound by an aborted loop is a binding made before the failure and is never read",
]
SHARD_TIMEOUT = {"quick": 400, "thorough": 3000}

MODULES = {
    "helper": "append(LOADLOG, 'helper');\ndef twice(n) n * 2;\n",
    "good": "require helper;\nappend(LOADLOG, 'good');\ndef counter = 0;\ndef inc() do counter += 1; counter end;\ndef get() counter;\ndef dbl(n) helper->twice(n);\n",
    "broken_rt": "require helper;\nappend(LOADLOG, 'broken_rt');\ndef z = 1;\nerror 'boom';\ndef never = 2;\n",
    "broken_syn": "append(LOADLOG, 'broken_syn');\ndef z = ;\n",
    "cyc_a": "append(LOADLOG, 'cyc_a');\nrequire cyc_b;\ndef a = 1;\n",
    "cyc_b": "append(LOADLOG, 'cyc_b');\nrequire cyc_a;\ndef b = 2;\n",
}

COMMANDS = [
    ("def", "def x = 1"),
    ("assign", "x = 2"),
    ("read", "x"),
    ("deffn", "def f(a) a + x; f(1)"),
    # (function definitions after the failure point: the statements of a call run in order, none of them ahead of time)
    ("fail", "1 / 0; def latefn2() 1; def f(a) 'replaced by the failed remainder'"),
    ("midway", "def a1 = 1; x = 5; def b1 = nosuch; def c1 = 3; def latefn(a) a; def f(a) 'replaced by the failed remainder'"),
    ("syntax", "def = "),
    ("req-good", "require good; good->inc()"),
    ("req-missing", "require missing_mod"),
    ("req-broken-rt", "require broken_rt"),
    ("req-broken-syn", "require broken_syn"),
    ("req-cyclic", "require cyc_a"),
    ("loop-abort", "def acc = 0; for i in [1, 2, 3] do acc += i; if i == 2 then error 'E' end"),
    # a module that does not exist until the host writes its file between two calls: a failed require must not be
    # remembered once its cause is gone
    ("req-late", "require late_mod; late_mod->v"),
    ("host-writes-late", "#host:write-late"),
    # many frames unwound by one error: nothing counted per call may be left behind
    ("deep-fail", "def rec(n) if n == 0 then error 'deep' else rec(n - 1); rec(90)"),
    # script files run from inside a function (non-secure sessions only): their definitions are session definitions
    ("run-from-fn", "def loader(f) run(f); loader('{MODDIR}/defs_file.ckl'); from_file"),
    ("run-failing-from-fn", "def loader2(f) run(f); loader2('{RELMODDIR}/failing_file.ckl')"),
    # one call with many hundred top-level statements: rejected as a whole when its last statement does not parse,
    # kept up to the failure point when its last statement fails at run time
    ("long-script-syntax", "; ".join("def bigs%d = %d" % (i, i) for i in range(700)) + "; x = 111; def = "),
    ("long-script-runtime", "; ".join("def bigr%d = %d" % (i, i) for i in range(700)) + "; nosuch_at_the_end; def bigr_after = 1"),
    # a class definition that succeeds / one of the same name that fails in a member initialiser (the name keeps what it had);
    # a loop whose body defines a session variable (also after another loop left its loop variable behind)
    ("class-def", "def class Shape do def sides = 4; def describe(self) 'shape ' + string(self->sides) end; Shape->sides"),
    ("class-def-fails", "def class Shape do def sides = 3; def bad = nosuch_name; def other(self) 1 end"),
    ("loop-def", "for i in [1, 2, 3] do def seen_in_loop = i * 10 end; seen_in_loop"),
    # a loop whose variable has the name of a session variable: the session variable is there again afterwards
    ("loop-over-x", "for x in [7, 8] do x end; x"),
]
RUN_FILES = {"defs_file.ckl": "def from_file = 41;\ndef from_file_fn() from_file + 1;\n",
             "failing_file.ckl": "def early = 7;\nerror 'fromfile';\ndef late = 8;\n"}
NEEDS_OPEN_SESSION = {"run-from-fn", "run-failing-from-fn"}
N_CORE = 18
LATE_SRC = "append(LOADLOG, 'late_mod');\ndef v = 77;\n"
PROBES = ["x", "a1", "b1", "c1", "acc", "latefn(1)", "latefn2()", "f(1)", "good->get()", "good->dbl(4)", "z", "never", "a", "b", "late_mod->v", "from_file", "from_file_fn()",
          "early", "late", "rec(0)", "bigs0", "bigs699", "bigr0", "bigr699", "bigr_after", "Shape->sides", "new(Shape)->describe()", "seen_in_loop",
          "string(LOADLOG)"]
ERR = ("error", "'ERROR'")


class Model:
    """reference session"""
    def __init__(self, variant=0, nested=True):
        # nested=False: the CLI hosts define the module search path in the session scope, which module code does
        # not see, so a user module cannot require a sibling user module there (the REPL modules do not try,
        # except the circular pair, whose second member is then simply not found)
        self.nested = nested
        self.step = 10 if variant == 1 else 1
        self.factor = 3 if variant == 1 else 2
        self.b = {}          # bindings: name -> value (ints) ; 'f' -> True
        self.good = None     # None | counter
        self.helper = False
        self.loadlog = []
        self.late_file = False
        self.late_loaded = False

    def load_helper(self):
        if not self.helper and self.nested:
            self.helper = True
            self.loadlog.append("helper")

    def run(self, name):
        b = self.b
        if name == "def":
            b["x"] = 1
            return ("value", "1")
        if name == "assign":
            if "x" not in b:
                return ERR
            b["x"] = 2
            return ("value", "2")
        if name == "read":
            return ("value", str(b["x"])) if "x" in b else ERR
        if name == "deffn":
            b["f"] = True
            return ("value", str(1 + b["x"])) if "x" in b else ERR
        if name == "fail":
            return ERR
        if name == "midway":
            b["a1"] = 1
            if "x" not in b:
                return ERR
            b["x"] = 5
            return ERR
        if name == "syntax":
            return ("syntax",)
        if name == "req-good":
            if self.good is None:
                self.load_helper()
                self.loadlog.append("good")
                self.good = 0
            b["good"] = True
            self.good += self.step
            return ("value", str(self.good))
        if name == "req-missing":
            return ERR
        if name == "req-broken-rt":
            self.load_helper()
            self.loadlog.append("broken_rt")
            return ("error", "'boom'")
        if name == "req-broken-syn":
            # source is read and parsed before any of it runs
            return ("syntax",)
        if name == "req-cyclic":
            self.loadlog.append("cyc_a")
            if self.nested:
                self.loadlog.append("cyc_b")
            return ERR
        if name == "loop-abort":
            b["acc"] = 3
            return ("error", "'E'")
        if name == "host-writes-late":
            self.late_file = True
            return ("value", "host")
        if name == "deep-fail":
            b["rec"] = True
            return ("error", "'deep'")
        if name == "run-from-fn":
            b["loader"] = True
            b["from_file"] = 41
            b["from_file_fn"] = True
            return ("value", "41")
        if name == "run-failing-from-fn":
            b["loader2"] = True
            b["early"] = 7
            return ("error", "'fromfile'")
        if name == "class-def":
            b["Shape"] = True
            return ("value", "4")
        if name == "class-def-fails":
            return ERR
        if name == "loop-def":
            b["seen_in_loop"] = 30
            return ("value", "30")
        if name == "loop-over-x":
            return ("value", str(b["x"])) if "x" in b else ERR
        if name == "long-script-syntax":
            return ("syntax",)
        if name == "long-script-runtime":
            b["bigr0"] = 0
            b["bigr699"] = 699
            return ERR
        if name == "req-late":
            if not self.late_loaded:
                if not self.late_file:
                    return ERR
                self.late_loaded = True
                self.loadlog.append("late_mod")
            b["late_mod"] = True
            return ("value", "77")
        raise ValueError(name)

    def probe(self, p):
        b = self.b
        if p in ("x", "a1", "acc"):
            return ("value", str(b[p])) if p in b else ERR
        if p in ("b1", "c1", "z", "never", "a", "b", "latefn(1)", "latefn2()"):
            return ERR
        if p == "f(1)":
            if "f" not in b:
                return ERR
            return ("value", str(1 + b["x"])) if "x" in b else ERR
        if p == "good->get()":
            return ("value", str(self.good)) if "good" in b else ERR
        if p == "good->dbl(4)":
            return ("value", str(4 * self.factor)) if "good" in b else ERR
        if p == "late_mod->v":
            return ("value", "77") if "late_mod" in b else ERR
        if p in ("from_file", "early"):
            return ("value", str(b[p])) if p in b else ERR
        if p == "from_file_fn()":
            return ("value", "42") if "from_file_fn" in b else ERR
        if p in ("late", "bigs0", "bigs699", "bigr_after"):
            return ERR
        if p == "Shape->sides":
            return ("value", "4") if "Shape" in b else ERR
        if p == "new(Shape)->describe()":
            return ("value", "'shape 4'") if "Shape" in b else ERR
        if p == "seen_in_loop":
            return ("value", "30") if "seen_in_loop" in b else ERR
        if p in ("bigr0", "bigr699"):
            return ("value", str(b[p])) if p in b else ERR
        if p == "rec(0)":
            return ("error", "'deep'") if "rec" in b else ERR
        if p == "string(LOADLOG)":
            return ("value", "'[" + ", ".join("\\'%s\\'" % m for m in self.loadlog) + "]'")
        raise ValueError(p)


class Session:
    def __init__(self, moddir, caller_env=False, secure=True):
        import ckl.values as V
        import ckl.functions
        # caller_env: the host passes one environment of its own to every interpret call
        self.caller_env = ckl.functions.Environment() if caller_env else None
        self.it, self.out = core.new_interpreter(secure=secure, legacy=False)
        self.moddir = moddir
        # (relative to the directory the shard started in - where a well-behaved interpreter leaves the process)
        os.chdir(START_CWD[0])
        self.relmoddir = os.path.relpath(moddir, START_CWD[0])
        late = os.path.join(moddir, "late_mod.ckl")
        if os.path.exists(late):
            os.remove(late)
        mp = V.ValueList()
        mp.addItem(V.ValueString(moddir))
        self.it.base_environment.put("checkerlang_module_path", mp)
        self.it.base_environment.put("LOADLOG", V.ValueList())

    def call(self, src):
        if src == "#host:write-late":
            with open(os.path.join(self.moddir, "late_mod.ckl"), "w") as f:
                f.write(LATE_SRC)
            return ("value", "host")
        src = src.replace("{MODDIR}", self.moddir).replace("{RELMODDIR}", self.relmoddir)
        if self.caller_env is not None:
            o = observe(lambda: self.it.interpret(src, "session", self.caller_env), 600000)
        else:
            o = observe(lambda: self.it.interpret(src, "session"), 600000)
        if o.kind == "value":
            return ("value", core.safe_str(o.value, 20000))
        if o.kind == "rte":
            return ("error", core.safe_str(getattr(o.exc, "value", None), 100))
        if o.kind == "syntax":
            return ("syntax",)
        return (o.kind, type(o.exc).__name__ if o.exc is not None else "")


def write_modules(moddir, variant=0):
    """variant 1: same module names, different code (interpreter 1 of a pair has its own module path:
    interpreters must not see each other's modules even when the names coincide)"""
    os.makedirs(moddir, exist_ok=True)
    for fname, text in RUN_FILES.items():
        with open(os.path.join(moddir, fname), "w") as f:
            f.write(text)
    for name, src in MODULES.items():
        if variant == 1:
            src = src.replace("counter += 1", "counter += 10").replace("n * 2", "n * 3")
        with open(os.path.join(moddir, name + ".ckl"), "w") as f:
            f.write(src)


def residue_kind(name):
    return {"req-missing": "failed-require", "req-broken-rt": "failed-require", "req-broken-syn": "failed-require",
            "req-cyclic": "circular-require", "req-late": "failed-require", "deep-fail": "failed-expression",
            "run-failing-from-fn": "partial-call", "long-script-syntax": "syntax-error", "class-def-fails": "partial-call",
            "long-script-runtime": "partial-call", "midway": "partial-call", "loop-abort": "partial-call", "fail": "failed-expression",
            "syntax": "syntax-error"}.get(name, "none")


def run_history(ctx, moddir, hist, two=False, caller_env=False):
    """hist: list of (interpreter index, command index)"""
    open_session = any(COMMANDS[c][0] in NEEDS_OPEN_SESSION for s_, c in hist)
    sessions = [Session(moddir if i == 0 else moddir + "_b", caller_env, secure=not open_session) for i in range(2 if two else 1)]
    models = [Model(variant=i) for i in range(len(sessions))]
    prev_fail = "none"
    ctx.count("histories")
    nontrivial = any(residue_kind(COMMANDS[c][0]) != "none" for s, c in hist[:-1])
    ctx.case(tuple(hist), nontrivial=nontrivial)
    for step, (si, ci) in enumerate(hist):
        name, src = COMMANDS[ci]
        got = sessions[si].call(src)
        want = models[si].run(name)
        ctx.count("calls")
        if got != want:
            ctx.violation("C10:%s%s:after-%s" % ("caller-env:" if caller_env else "", name, prev_fail),
                          "history %s, step %d (interpreter %d): `%s` -> %r, session model says %r" % (
                              [(s, COMMANDS[c][0]) for s, c in hist], step, si, src, got, want), {"history": hist})
            return
        if got[0] != "value":
            prev_fail = residue_kind(name)
    for si, (s, m) in enumerate(zip(sessions, models)):
        for p in PROBES:
            got = s.call(p)
            want = m.probe(p)
            ctx.count("probes")
            if got != want:
                ctx.violation("C10:%sprobe:%s:after-%s" % ("caller-env:" if caller_env else "", p.split("(")[0].split("-")[0], prev_fail),
                              "history %s: probe `%s` on interpreter %d -> %r, session model says %r" % (
                                  [(s_, COMMANDS[c][0]) for s_, c in hist], p, si, got, want), {"history": hist})
                return


def continuation_split(r, src):
    """a place to break the command over two REPL lines: the first part alone must end in 'Unexpected end of input'"""
    import ckl.parser
    from ckl.errors import CklSyntaxError
    words = src.split(" ")
    cands = []
    for k in range(1, len(words)):
        prefix = " ".join(words[:k]) + " "
        try:
            ckl.parser.parse_script(prefix, "{stdin}")
        except CklSyntaxError as e:
            if e.msg.startswith("Unexpected end of input"):
                cands.append((prefix, " ".join(words[k:])))
        except Exception:
            pass
    return r.choice(cands) if cands else None


def classify_repl(lines):
    import re
    if not lines:
        return ("value", "NULL")
    first = lines[0]
    if re.fullmatch(r"-?\d+", first) and len(lines) == 1:
        return ("value", first)
    m = re.match(r"^([A-Za-z]+): ", first)
    if m and "(Line" in first:
        return ("error", "'%s'" % m.group(1))
    if "(Line" in first or "Unexpected" in first or "Expected" in first:
        return ("syntax",)
    return ("other", first[:80])


def run_repl_history(ctx, moddir, hist, r):
    """the same histories through the interactive host (ckl.repl) in a child process: one command per line, some
    broken over two lines at a point where the first part is an incomplete program"""
    import subprocess
    import sys
    model = Model(nested=False)
    lines = []
    expected = []
    probes = [p for p in PROBES if "LOADLOG" not in p]
    k = 0
    for ci in hist:
        name, src = COMMANDS[ci]
        before = len(model.loadlog)
        want = model.run(name)
        loads = ["LOAD " + m for m in model.loadlog[before:]]
        sp = continuation_split(r, src) if r.random() < 0.35 else None
        if sp:
            lines += [sp[0], sp[1]]
            ctx.count("repl_continuations")
        else:
            lines.append(src)
        lines.append("println('@@%d')" % k)
        expected.append((name, src, loads, want))
        k += 1
    for p in probes:
        lines.append(p)
        lines.append("println('@@%d')" % k)
        expected.append(("probe", p, [], model.probe(p)))
        k += 1
    lines.append("exit")
    env = dict(os.environ)
    env["PYTHONPATH"] = os.path.join(core.REPO, "src")
    p = subprocess.run([sys.executable, "-B", "-m", "ckl.repl", "--secure", "-m", moddir], input="\n".join(lines) + "\n",
                       capture_output=True, text=True, timeout=300, env=env)
    ctx.count("repl_sessions")
    ctx.case(("repl", tuple(hist), tuple(lines)), nontrivial=any(residue_kind(COMMANDS[c][0]) != "none" for c in hist[:-1]))
    names = [COMMANDS[c][0] for c in hist]
    if p.returncode != 0 or "Traceback" in p.stderr:
        ctx.violation("C10:repl:host-died", "history %s: the REPL process ended with status %s: %s" % (names, p.returncode, p.stderr[-300:]),
                      {"lines": lines})
        return
    # cut the output at the markers
    segs = []
    cur = []
    for raw in p.stdout.split("\n"):
        ln = raw
        while ln.startswith("> ") or ln.startswith("+ "):
            ln = ln[2:]
        if ln.startswith("@@"):
            segs.append(cur)
            cur = []
        elif ln.strip() != "":
            cur.append(ln)
    if len(segs) != len(expected):
        ctx.violation("C10:repl:lost-lines", "history %s: %d marker lines came back for %d commands" % (names, len(segs), len(expected)),
                      {"lines": lines, "stdout": p.stdout[-2000:]})
        return
    prev_fail = "none"
    for seg, (name, src, loads, want) in zip(segs, expected):
        ctx.count("repl_calls")
        got_loads = [x for x in seg if x.startswith("LOAD ")]
        rest = [x for x in seg if not x.startswith("LOAD ")]
        got = classify_repl(rest)
        want_c = want if want[0] != "value" else ("value", want[1])
        if got_loads != loads or got != want_c:
            ctx.violation("C10:repl:%s:after-%s" % (name if name != "probe" else "probe:" + src.split("(")[0].split("-")[0], prev_fail),
                          "REPL history %s: `%s` printed %r; the session model says loads %r then %r" % (names, src, seg[:6], loads, want_c),
                          {"lines": lines})
            return
        if name != "probe" and want[0] != "value":
            prev_fail = residue_kind(name)


def scopes_of(it):
    out, e = [], it.environment
    while e is not None and e not in out:
        out.append(e)
        e = getattr(e, "parent", None)
    if it.base_environment not in out:
        out.append(it.base_environment)
    return out


def mutable_containers(it):
    """id -> (name path, type name) of every list / set / map / object reachable from the interpreter's own scopes"""
    import ckl.values as V
    kinds = (V.ValueList, V.ValueSet, V.ValueMap, V.ValueObject)
    seen = {}

    def walk(v, path, depth):
        if not isinstance(v, kinds) or id(v) in seen or depth > 4:
            return
        seen[id(v)] = (path, type(v).__name__)
        payload = getattr(v, "value", None)
        items = list(payload.values()) + list(payload.keys()) if isinstance(payload, dict) else list(payload or [])
        for x in items[:200]:
            walk(x, path + "/..", depth + 1)
    for e in scopes_of(it):
        for k, v in list(e.map.items()):
            walk(v, k, 0)
    return seen


def run_isolation(ctx):
    """two interpreters of one process are two sessions: nothing that one of them can edit in place is reachable from the
    other one's scopes, and what one does to the values it was born with (whatever the interpreter itself binds: paths,
    argument lists, registries) does not show in the other"""
    import ckl.functions
    first_use = "require Math; require List; require IO; def own_ = [1]; 1"
    for sa in (True, False):
        for la in (True, False):
            for sb in (True, False):
                for lb in (True, False):
                    a, _oa = core.new_interpreter(secure=sa, legacy=la)
                    b, _ob = core.new_interpreter(secure=sb, legacy=lb)
                    for when in ("fresh", "used"):
                        if when == "used":
                            for it in (a, b):
                                observe(lambda: it.interpret(first_use, "iso"), 3000000)
                        ca, cb = mutable_containers(a), mutable_containers(b)
                        ctx.count("isolation_pairs")
                        ctx.count("isolation_containers_walked", len(ca) + len(cb))
                        ctx.case(("isolation", sa, la, sb, lb, when), nontrivial=True)
                        for i in set(ca) & set(cb):
                            ctx.violation("C10:interpreters-share-a-value:%s" % ca[i][0].split("/")[0],
                                          "two interpreters (secure=%s legacy=%s / secure=%s legacy=%s, %s) both reach the same %s through %s and %s" % (
                                              sa, la, sb, lb, when, ca[i][1], ca[i][0], cb[i][0]), {})
                    # behaviourally: every container name of A's scopes edited in place through the language; B renders as before
                    names = sorted(set(k for e in scopes_of(a) for k, v in e.map.items() if id(v) in mutable_containers(a) and k.isidentifier()))
                    for nm in names:
                        before = observe(lambda: b.interpret("do string(%s) catch all 'undefined' end" % nm, "iso"), 3000000)
                        for ed in ("append(%s, 'LEAK')", "put(%s, 'LEAK', 1)", "%s->LEAK = 1", "%s['LEAK'] = 1"):
                            observe(lambda: a.interpret("do %s catch all NULL end" % (ed % nm), "iso"), 3000000)
                        after = observe(lambda: b.interpret("do string(%s) catch all 'undefined' end" % nm, "iso"), 3000000)
                        ctx.count("isolation_edits")
                        if before.kind == "value" and (after.kind != "value" or str(after.value) != str(before.value)):
                            ctx.violation("C10:edit-in-one-interpreter-shows-in-another:%s" % nm,
                                          "%s edited in place in one interpreter; the other one rendered it as %s before and %s afterwards" % (
                                              nm, core.safe_str(before.value, 100), core.safe_str(getattr(after, "value", after.kind), 100)), {})


def plan(tier, seed):
    specs = []
    n1 = 3 if tier == "quick" else 4
    n2 = 2 if tier == "quick" else 3
    parts = 16 if tier == "quick" else 64
    for i in range(parts):
        specs.append({"kind": "one", "maxlen": n1, "part": i, "of": parts})
        specs.append({"kind": "two", "maxlen": n2, "part": i, "of": parts})
    for i in range(4 if tier == "quick" else 16):
        specs.append({"kind": "random", "n": 40 if tier == "quick" else 400})
    for i in range(2 if tier == "quick" else 16):
        specs.append({"kind": "repl", "n": 12 if tier == "quick" else 60})
    specs.append({"kind": "escaping"})
    return specs


START_CWD = [None]


def run_shard(spec, ctx):
    START_CWD[0] = os.getcwd()
    if spec["kind"] == "escaping":
        from cklmon import sessions
        sessions.run_residue(ctx, "C10")
        run_isolation(ctx)
        return sessions.run_escaping(ctx, "C10")
    moddir = os.path.join(os.getcwd(), "mods")
    write_modules(moddir)
    write_modules(moddir + "_b", variant=1)
    n = len(COMMANDS)
    if spec["kind"] == "one":
        idx = 0
        done = 0
        for L in range(1, spec["maxlen"] + 1):
            # (the two 700-statement commands take part in histories of length <= 2 and in the random ones)
            for h in itertools.product(range(n if L <= 2 else N_CORE), repeat=L):
                idx += 1
                if idx % spec["of"] != spec["part"]:
                    continue
                run_history(ctx, moddir, [(0, c) for c in h])
                if L <= 2:
                    run_history(ctx, moddir, [(0, c) for c in h], caller_env=True)
                    ctx.count("caller_env_histories")
                done += 1
        ctx.extras["one_done"] = done
        ctx.extras["one_total"] = sum((n if L <= 2 else N_CORE) ** L for L in range(1, spec["maxlen"] + 1))
        ctx.sample({"history": ["require broken_rt", "require broken_rt", "require good; good->inc()"], "probes": PROBES})
    elif spec["kind"] == "two":
        idx = 0
        done = 0
        for L in range(1, spec["maxlen"] + 1):
            syms = [(s, c) for s in (0, 1) for c in range(n if L <= 1 else N_CORE)]
            for h in itertools.product(syms, repeat=L):
                idx += 1
                if idx % spec["of"] != spec["part"]:
                    continue
                run_history(ctx, moddir, list(h), two=True)
                done += 1
        ctx.extras["two_done"] = done
        ctx.extras["two_total"] = sum((2 * (n if L <= 1 else N_CORE)) ** L for L in range(1, spec["maxlen"] + 1))
    elif spec["kind"] == "repl":
        r = ctx.rng
        rdir = os.path.join(os.getcwd(), "mods_repl")
        os.makedirs(rdir, exist_ok=True)
        import re
        for name, src in MODULES.items():
            with open(os.path.join(rdir, name + ".ckl"), "w") as f:
                src = src.replace("require helper;\n", "").replace("helper->twice(n)", "n * 2")
                f.write(re.sub(r"append\(LOADLOG, '(\w+)'\)", r"println('LOAD \1')", src))
        for i in range(spec["n"]):
            L = r.randint(1, 4) if i % 3 == 0 else r.randint(5, 25)
            run_repl_history(ctx, rdir, [r.randrange(13) for _ in range(L)], r)     # (host actions are not REPL lines)
    else:
        r = ctx.rng
        for _ in range(spec["n"]):
            two = r.random() < 0.5
            L = r.randint(5, 30)
            h = [(r.randrange(2) if two else 0, r.randrange(n)) for _ in range(L)]
            run_history(ctx, moddir, h, two=two, caller_env=r.random() < 0.3)
            ctx.count("random_histories")


def finalize(merged, tier):
    c = merged["counters"]
    reasons = []
    docs = merged["shard_docs"]
    one_done = sum(ex.get("one_done", 0) for spec, ex in docs)
    one_total = max([ex.get("one_total", 0) for spec, ex in docs] or [0])
    two_done = sum(ex.get("two_done", 0) for spec, ex in docs)
    two_total = max([ex.get("two_total", 0) for spec, ex in docs] or [0])
    extra = {"exhaustive": one_done == one_total and two_done == two_total and one_total > 0,
             "exhaustive_space": "one interpreter: all %d histories of length <= %d over %d commands; two interleaved: all %d "
                                 "histories of length <= %d over %d symbols (the two 700-statement commands only in histories of length <= 2 / <= 1)" % (
                                     one_total, 3 if tier == "quick" else 4, len(COMMANDS), two_total, 2 if tier == "quick" else 3, 2 * len(COMMANDS))}
    if not extra["exhaustive"]:
        reasons.append("history enumeration incomplete (%d/%d, %d/%d)" % (one_done, one_total, two_done, two_total))
    if c.get("probes", 0) == 0 or c.get("random_histories", 0) == 0:
        reasons.append("no probes / random histories")
    if c.get("isolation_pairs", 0) == 0 or c.get("isolation_containers_walked", 0) == 0:
        reasons.append("no pairs of interpreters walked for shared values")
    if c.get("repl_calls", 0) == 0 or c.get("repl_continuations", 0) == 0:
        reasons.append("no REPL sessions / continuation lines observed")
    return extra, reasons
