"""C02 — operators evaluate per the language definition; integer arithmetic is exact.

Three independent oracles on the outcome of Interpreter.interpret:
 (1) grouping agreement (model-free): the flat text (parentheses only where the
     stated precedence table needs them) and the fully parenthesised text of
     the same tree, and a chain vs. the conjunction of its adjacent pairs, must
     have the same outcome;
 (2) value agreement with the reference expression semantics (cklref.refexpr),
     including short-circuit order observed through tick() side effects;
 (3) laws of exact integer arithmetic and `is not P` == not `is P`."""
import itertools

from cklmon import core
from cklmon.core import observe
from cklgen import values as gv, exprs as ge, pool as P
from cklref import refvalue as rv, refexpr as rx

RULE = ("exhaustive: every ordered pair of the 16 binary operators (+ - * / % == != <> < <= > >= is and or, plus "
        "in/not in next to comparison/and/or) in `a op1 b op2 c` over typed and ill-typed operand triples, every "
        "unary/binary combination, every predicate form x pool value; random: typed expression trees to depth 5 "
        "with 6% ill-typed operands and tick() probes in and/or clauses; the same trees with literals turned into "
        "variables, evaluated as one function body over successive argument tuples (some ill-typed) and over variables "
        "whose values were reached by in-place edits after a first evaluation; integer laws on pairs up to 10^30; a "
        "case is one expression tree (or operand tuple); non-trivial = at least 2 operators (1 for laws); "
        "distinct by tree/tuple")
ASSUMPTIONS = [
    "% on negative operands is checked only by the law (sign convention not fixed by the statement)",
    "which way values of different kinds compare is not asserted",
    "membership is combined unparenthesised only with comparison/not/and/or: the statement's precedence list does "
    "not place it and the parser binds it tighter than arithmetic",
    "set and date arithmetic belong to C12/C17/C19, not to this differential",
]
SHARD_TIMEOUT = {"quick": 300, "thorough": 3000}
PRELUDE = "def tick(k, v) do T !> append(k); v end; "

BINOPS = ["+", "-", "*", "/", "%", "==", "!=", "<>", "<", "<=", ">", ">=", "is", "and", "or"]
REL = {"==", "!=", "<>", "<", "<=", ">", ">=", "is", "is not"}


def plan(tier, seed):
    specs = [{"kind": "pairs", "part": i, "of": 4} for i in range(4)]
    n = 6 if tier == "quick" else 24
    specs += [{"kind": "random", "n": 4000 if tier == "quick" else 15000} for _ in range(n)]
    specs += [{"kind": "laws", "n": 3000 if tier == "quick" else 40000} for _ in range(2 if tier == "quick" else 6)]
    specs += [{"kind": "predicates"}]
    specs += [{"kind": "rebind", "n": 1500 if tier == "quick" else 8000} for _ in range(3 if tier == "quick" else 12)]
    specs += [{"kind": "compound", "n": 1500 if tier == "quick" else 12000} for _ in range(1 if tier == "quick" else 4)]
    specs += [{"kind": "longchains", "n": 150 if tier == "quick" else 1500} for _ in range(2 if tier == "quick" else 4)]
    return specs


def lit(av):
    return gv.to_source(av)


class Runner:
    def __init__(self, ctx):
        import ckl.functions
        self.ctx = ctx
        self.it, self.out = core.new_interpreter(secure=True, legacy=True)
        self.Env = ckl.functions.Environment
        self.V = __import__("ckl.values").values

    def ev(self, text, ticks=False):
        env = self.Env()
        T = None
        if ticks:
            T = self.V.ValueList()
            env.put("T", T)
            text = PRELUDE + text
        o = observe(lambda: self.it.interpret(text, "c02", env), 600000)
        log = [x.value for x in T.value] if T is not None else None
        return o, log

    def outcome(self, o):
        """comparable summary: ('value', kind, text) | ('rte', text of error value) | (kind,)"""
        if o.kind == "value":
            try:
                a = gv.abstract(o.value)
            except gv.NotData:
                return ("value", o.value.type(), core.safe_str(o.value))
            return ("value", a)
        if o.kind == "rte":
            return ("rte", core.safe_str(getattr(o.exc, "value", None)))
        return (o.kind, type(o.exc).__name__ if o.exc is not None else "")


def same_outcome(x, y):
    if x[0] != y[0]:
        return False
    if x[0] == "value" and len(x) == 2 and len(y) == 2:
        return x[1][0] == y[1][0] and (rv.ref_eq(x[1], y[1]))
    return x == y


def opkey(t):
    ops = sorted(set(ge.operators(t)))
    return "+".join(ops[:4])


def check_tree(R, t, key_prefix, ticks=False):
    ctx = R.ctx
    flat = rx.render(t, lit, full=False)
    full = rx.render(t, lit, full=True)
    conj = rx.render_chain_as_conjunction(t, lit)
    nops = len(ge.operators(t))
    ctx.case(("tree", flat), nontrivial=nops >= 2)
    o_flat, log_flat = R.ev(flat, ticks)
    o_full, log_full = R.ev(full, ticks)
    ctx.count("grouping_comparisons")
    a, b = R.outcome(o_flat), R.outcome(o_full)
    for o, txt in ((o_flat, flat), (o_full, full)):
        if o.kind in ("host", "hang", "syntax"):
            ctx.violation("C02:%s:escape-%s" % (key_prefix, a[0] if o is o_flat else b[0]),
                          "%s -> %s %s" % (txt, o.kind, core.safe_str(o.exc, 100)), {"src": txt})
            return
    if not same_outcome(a, b) or log_flat != log_full:
        ctx.violation("C02:grouping:%s:%s" % (key_prefix, opkey(t)),
                      "flat %s -> %r but parenthesised %s -> %r" % (flat, a, full, b), {"flat": flat, "full": full})
    if conj != full and not ticks:
        o_conj, _ = R.ev(conj)
        ctx.count("chain_conjunction_comparisons")
        c = R.outcome(o_conj)
        if not same_outcome(a, c):
            ctx.violation("C02:chain-conjunction:%s" % opkey(t),
                          "%s -> %r but %s -> %r" % (flat, a, conj, c), {"flat": flat, "conj": conj})
    # value oracle
    log = []
    try:
        want = ("value", rx.eval_expr(t, {}, log))
    except rx.RefError as e:
        want = ("rte", core.safe_str(gv_text(e.value)))
    except rx.Unspecified:
        ctx.count("value_oracle_unspecified")
        return
    except (OverflowError, ZeroDivisionError, RecursionError, MemoryError):
        ctx.count("value_oracle_unspecified")
        return
    ctx.count("value_comparisons")
    if want[0] == "value":
        ok = a[0] == "value" and len(a) == 2 and a[1][0] == want[1][0] and rv.ref_eq(a[1], want[1])
        if ok and want[1][0] == "dec" and a[1][1] != want[1][1] and not (a[1][1] == 0 == want[1][1]):
            ok = False
    else:
        ok = a[0] == "rte" and a[1] == "'ERROR'"
    if not ok:
        clause = "value"
        if want[0] == "value" and a[0] == "value" and len(a) == 2 and a[1][0] != want[1][0]:
            clause = "int-ness" if {a[1][0], want[1][0]} <= {"int", "dec"} else "kind"
        elif want[0] == "value" and a[0] == "value" and len(a) == 2 and want[1][0] == "int":
            clause = "exactness"
        elif want[0] != a[0]:
            clause = "error-vs-value"
        ctx.violation("C02:%s:%s:%s" % (clause, key_prefix, opkey(t)),
                      "%s evaluated to %r, definition says %r" % (flat, a, want), {"src": flat})
    if ticks and want and log != log_flat and o_flat.kind in ("value", "rte"):
        ctx.violation("C02:short-circuit:%s" % opkey(t),
                      "%s evaluated clauses %r, definition says %r" % (flat, log_flat, log), {"src": flat})
    ctx.sample_maybe({"flat": flat, "parenthesised": full, "outcome": repr(a)[:120]}, 0.004)


def gv_text(av):
    return "'" + av[1] + "'" if av[0] == "str" else str(av)


def tree_of_pair(op1, op2, a, b, c):
    """grouping of `a op1 b op2 c` by the stated table (independent precedence logic)"""
    def prec(op):
        if op == "or":
            return 1
        if op == "and":
            return 2
        if op in REL:
            return 4
        if op in ("+", "-"):
            return 5
        if op in ("*", "/", "%"):
            return 6
        if op in ("in", "not in"):
            return 8
        raise ValueError(op)

    def mk(op, x, y):
        if op == "or":
            return ("or", [x, y])
        if op == "and":
            return ("and", [x, y])
        if op in REL:
            return ("chain", [x, y], [op])
        if op == "in":
            return ("in", x, y)
        if op == "not in":
            return ("notin", x, y)
        return ("bin", op, x, y)
    p1, p2 = prec(op1), prec(op2)
    if op1 in REL and op2 in REL:
        return ("chain", [a, b, c], [op1, op2])
    if op1 == op2 and op1 in ("and", "or"):
        return (op1, [a, b, c])
    if p1 >= p2:
        return mk(op2, mk(op1, a, b), c)
    return mk(op1, a, mk(op2, b, c))


OPERAND_SETS = [
    [("int", 7), ("int", 2), ("int", 3)],
    [("int", -7), ("int", 2), ("int", -3)],
    [("int", 10**20), ("int", 3), ("int", 7)],
    [("dec", 7.5), ("int", 2), ("dec", 0.5)],
    [("int", 6), ("int", 0), ("int", 2)],
    [("bool", True), ("bool", False), ("bool", True)],
    [("bool", False), ("bool", False), ("bool", True)],
    [("str", "a"), ("str", "b"), ("str", "a")],
    [("str", "a"), ("int", 2), ("int", 3)],
    [("list", (("int", 1),)), ("list", (("int", 2),)), ("list", (("int", 1),))],
    [("list", (("int", 1), ("int", 2))), ("int", 2), ("int", 2)],
    [("null",), ("int", 2), ("int", 3)],
    [("int", 1), ("bool", True), ("str", "x")],
    [("int", 2), ("int", 2), ("bool", True)],
    [("bool", True), ("int", 1), ("int", 1)],
    [("int", 1), ("int", 2), ("int", 2)],
    [("int", 3), ("int", 2), ("int", 1)],
]
MEMBER_SETS = [
    [("int", 1), ("list", (("int", 1), ("bool", True))), ("bool", True)],
    [("str", "a"), ("str", "abc"), ("bool", False)],
    [("bool", True), ("int", 2), ("list", (("int", 2), ("bool", False)))],
    [("int", 5), ("list", ()), ("list", ())],
]


def run_pairs(spec, ctx):
    R = Runner(ctx)
    ops = BINOPS + ["is not"]
    n = 0
    for i, (op1, op2) in enumerate(itertools.product(ops, ops)):
        if i % spec["of"] != spec["part"]:
            continue
        for operands in OPERAND_SETS:
            a, b, c = [("lit", x) for x in operands]
            t = tree_of_pair(op1, op2, a, b, c)
            flat = rx.render(t, lit)
            expect_flat = "%s %s %s %s %s" % (lit(operands[0]), op1, lit(operands[1]), op2, lit(operands[2]))
            if flat.replace("(", "").replace(")", "") != expect_flat.replace("(", "").replace(")", ""):
                ctx.note("renderer mismatch: %s vs %s" % (flat, expect_flat))
                ctx.count("renderer_mismatch")
            check_tree(R, t, "pair")
            n += 1
    # membership next to comparison / and / or
    for i, (op1, op2) in enumerate(itertools.product(["in", "not in"], ["==", "!=", "and", "or", "is"])):
        if i % spec["of"] != spec["part"]:
            continue
        for operands in MEMBER_SETS:
            a, b, c = [("lit", x) for x in operands]
            check_tree(R, tree_of_pair(op1, op2, a, b, c), "pair-member")
            if operands[2][0] == "list" or operands[1][0] != "list":
                check_tree(R, tree_of_pair(op2, op1, ("lit", operands[2] if operands[2][0] == "bool" else ("bool", True)),
                                           ("lit", operands[0]), ("lit", operands[1])), "pair-member")
    # unary / binary combinations
    if spec["part"] == 0:
        for u in ("neg", "pos", "not"):
            for op in BINOPS:
                for operands in OPERAND_SETS[:8]:
                    a, b = ("lit", operands[0]), ("lit", operands[1])
                    inner = tree_of_pair(op, op, a, b, b)
                    two = inner[1][:2] if inner[0] in ("and", "or") else None
                    t2 = (inner[0], [a, b]) if inner[0] in ("and", "or") else (("chain", [a, b], [op]) if op in REL else ("bin", op, a, b))
                    check_tree(R, (u, t2), "unary-of-binary")
                    # unary applied to the left operand only
                    if op in REL:
                        check_tree(R, ("chain", [(u, a), b], [op]), "unary-left")
                    elif op in ("and", "or"):
                        check_tree(R, (op, [(u, a), b]), "unary-left")
                    else:
                        check_tree(R, ("bin", op, (u, a), b), "unary-left")
                        check_tree(R, ("bin", op, a, (u, b)), "unary-right")
    ctx.count("operator_pairs", n)
    ctx.extras["pairs_done"] = n


def run_random(spec, ctx):
    R = Runner(ctx)
    r = ctx.rng
    for i in range(spec["n"]):
        ticks = (i % 3 == 0)
        g = ge.ExprGen(r, max_depth=r.choice([2, 3, 4, 5]), ticks=ticks)
        t = g.any(0)
        if ge.size(t) > 40:
            continue
        check_tree(R, t, "random", ticks=ticks and g.tick_id > 0)


def abstract_leaves(t, r, names, p=0.6, limit=5):
    """replace literal leaves by variables (left to right); names collects (name, original value)"""
    k = t[0]
    if k == "lit":
        if len(names) < limit and r.random() < p:
            n = "v%d" % len(names)
            names.append((n, t[1]))
            return ("var", n)
        return t
    if k in ("var", "src"):
        return t
    if k == "tick":
        return ("tick", t[1], abstract_leaves(t[2], r, names, p, limit))
    if k == "bin":
        a = abstract_leaves(t[2], r, names, p, limit)
        if t[1] == "*" and t[3][0] == "lit" and not is_numeric_tree(t[2]):
            return ("bin", t[1], a, t[3])     # the repeat count of a string/list stays a small literal
        return ("bin", t[1], a, abstract_leaves(t[3], r, names, p, limit))
    if k in ("neg", "pos", "not"):
        return (k, abstract_leaves(t[1], r, names, p, limit))
    if k == "chain":
        return ("chain", [abstract_leaves(e, r, names, p, limit) for e in t[1]], t[2])
    if k in ("and", "or"):
        return (k, [abstract_leaves(e, r, names, p, limit) for e in t[1]])
    if k in ("in", "notin"):
        a = abstract_leaves(t[1], r, names, p, limit)
        return (k, a, abstract_leaves(t[2], r, names, p, limit))
    raise ValueError(k)


def is_numeric_tree(t):
    k = t[0]
    if k == "lit":
        return t[1][0] in ("int", "dec", "null", "bool")
    if k == "src":
        return t[2][0] in ("int", "dec")
    if k == "bin":
        return is_numeric_tree(t[2]) and is_numeric_tree(t[3])
    if k in ("neg", "pos"):
        return is_numeric_tree(t[1])
    return k in ("chain", "and", "or", "not", "in", "notin", "tick")


def other_value(g, r, av):
    """another value for a variable: mostly the same kind, sometimes ill-typed or NULL"""
    k = av[0]
    x = r.random()
    if x < 0.08:
        # (never a string or list where a number stood: 'a' * 2^63 is an allocation question, not a semantics one)
        return r.choice([rv.NULL, ("bool", True), ("int", 0)] if k in ("int", "dec") else [rv.NULL, ("bool", True), ("str", "a"), ("int", 0)])
    if k == "int":
        return r.choice([g.lit_int()[1], ("int", 0), ("int", av[1] + 1), ("dec", float(r.choice(ge.DECS)))])
    if k == "dec":
        return r.choice([g.lit_dec()[1], ("dec", 0.0), ("int", r.randint(-3, 3))])
    if k == "str":
        return g.lit_str()[1]
    if k == "bool":
        return ("bool", r.random() < 0.5)
    if k == "list":
        return g.lit_list()[1]
    return r.choice([rv.NULL, ("int", r.randint(0, 3))])


def ref_outcome(ctx, t, env):
    try:
        return ("value", rx.eval_expr(t, env, None))
    except rx.RefError:
        return ("rte",)
    except (rx.Unspecified, OverflowError, ZeroDivisionError, RecursionError, MemoryError):
        ctx.count("value_oracle_unspecified")
        return None


def agrees(got, want):
    """got: abstract [flag, payload] list from the program; want: ref_outcome"""
    if got[0] != "list" or len(got[1]) != 2:
        return False
    flag, payload = got[1]
    if want[0] == "rte":
        return flag == ("int", 1) and payload == ("str", "ERROR")
    if flag != ("int", 0):
        return False
    w = want[1]
    if payload[0] != w[0] or not rv.ref_eq(payload, w):
        return False
    if w[0] == "dec" and payload[1] != w[1] and not (payload[1] == 0 == w[1]):
        return False
    return True


def membership_tree(r):
    """`e in c` shapes where c will be a variable with a history and e is an element, a former element or a stranger"""
    from cklgen import history
    kind = r.choice(["list", "list", "set", "map", "str"])
    atoms = [("int", r.randint(0, 4)) for _ in range(4)] + [("str", x) for x in ("a", "b", "")] + [("bool", True), rv.NULL, ("dec", 2.0), ("int", 2)]
    if r.random() < 0.3:
        # equal values spelled differently, inside lists: [1] == [1.0]
        atoms += [("list", (("int", 1),)), ("list", (("dec", 1.0),)), ("list", (("dec", 0.0),)), ("list", (("dec", -0.0),)), ("list", (("list", (("int", 2),)),)), ("list", (("list", (("dec", 2.0),)),))]
    r.shuffle(atoms)
    n = r.randint(0, 4)
    if kind == "list":
        c = ("list", tuple(atoms[:n]))
    elif kind == "set":
        c = ("set", tuple(rv.dedupe(atoms[:n])))
    elif kind == "map":
        c = ("map", tuple(rv.dedupe_map([(a, ("int", i)) for i, a in enumerate(atoms[:n])])))
    else:
        c = ("str", r.choice(["", "a", "ab", "abc", "a,b", "xyz"]))
    x = r.random()
    if kind == "str":
        e = ("str", r.choice(["a", "b", "ab", "", "Z", ",", "bc"]))
    elif x < 0.5 and n:
        e = atoms[r.randrange(n)]
    elif x < 0.75:
        e = r.choice([("int", v) for v in history.FRESH_INTS] + [("str", v) for v in history.FRESH_STRS])
    else:
        e = r.choice(atoms)
    t = (r.choice(["in", "notin"]), ("lit", e), ("lit", c))
    y = r.random()
    if y < 0.2:
        t = ("not", t)
    elif y < 0.4:
        t = (r.choice(["and", "or"]), [t, ("lit", ("bool", r.random() < 0.5))])
    elif y < 0.5:
        t = ("chain", [t, ("lit", ("bool", r.random() < 0.5))], [r.choice(["==", "!="])])
    return t


def chain_tree(r):
    """comparison chains of 3-5 operands over small numbers, a later operand able to fail (division)"""
    n = r.randint(3, 5)
    ops = [r.choice(["<", "<=", "==", "!=", ">", ">="]) for _ in range(n - 1)]
    operands = []
    for i in range(n):
        if i >= 2 and r.random() < 0.5:
            operands.append(("bin", r.choice(["/", "%"]), ("lit", ("int", r.randint(1, 12))), ("lit", ("int", r.randint(1, 3)))))
        elif r.random() < 0.2:
            operands.append(("bin", r.choice(["+", "-"]), ("lit", ("int", r.randint(0, 5))), ("lit", ("int", r.randint(0, 3)))))
        else:
            operands.append(("lit", ("int", r.randint(0, 5))))
    return ("chain", operands, ops)


def run_rebind(spec, ctx):
    """the same expression evaluated again and again with other values in its variables: as the body of a function
    called with successive argument tuples (some ill-typed, so that an evaluation is abandoned half way), and over
    variables whose values were reached by in-place edits after the expression had already been evaluated once"""
    from cklgen import history
    R = Runner(ctx)
    r = ctx.rng
    done = 0
    while done < spec["n"]:
        g = ge.ExprGen(r, max_depth=r.choice([2, 3, 4]), ticks=False)
        shape = r.random()
        small = False
        if shape < 0.2:
            t = membership_tree(r)
            ctx.count("rebind_membership_trees")
        elif shape < 0.4:
            t = chain_tree(r)
            small = True
            ctx.count("rebind_chain_trees")
        else:
            t = g.any(0)
        if ge.size(t) > 30:
            continue
        names = []
        tv = abstract_leaves(t, r, names, p=0.9 if shape < 0.4 else 0.6)
        if not names:
            continue
        done += 1
        text = rx.render(tv, lit, full=r.random() < 0.3)
        nops = len(ge.operators(t))
        ctx.case(("rebind", text, tuple(names)), nontrivial=nops >= 1)
        if done % 5 == 4:
            # (c) the variables are supplied by the host: values built with the value classes' own constructors
            # (a fresh boolean, int, ... object per variable - not the interpreter's shared TRUE / FALSE / NULL objects)
            V = R.V
            env = R.Env()

            def host_value(av):
                k_ = av[0]
                if k_ == "bool":
                    return V.ValueBoolean(bool(av[1]))
                if k_ == "null":
                    return V.NULL           # (the null value is a single shared object by design: `other is NULL`)
                if k_ == "int":
                    return V.ValueInt(int(av[1]))
                if k_ == "dec":
                    return V.ValueDecimal(float(av[1]))
                if k_ == "str":
                    return V.ValueString(str(av[1]))
                return gv.to_ckl(av)
            for n_, av in names:
                env.put(n_, host_value(av))
            prog = "do [0, %s] catch 'ERROR' do [1, 'ERROR'] end end" % text
            want = ref_outcome(ctx, tv, {n_: av for n_, av in names})
            o = observe(lambda: R.it.interpret(prog, "c02", env), 600000)
            ctx.count("host_value_programs")
            if want is None:
                continue
            if o.kind != "value":
                ctx.violation("C02:host-values:escape-%s" % o.kind, "%s with host-supplied %s -> %s %s" % (text, names, o.kind, core.safe_str(o.exc, 200)), {"src": prog})
                continue
            try:
                got = gv.abstract(o.value)
            except gv.NotData:
                got = ("other",)
            ctx.count("host_value_evaluations")
            if not agrees(got, want):
                ctx.violation("C02:host-values:%s" % opkey(t), "%s with host-supplied %s gave %r, definition says %r" % (
                    text, [(n_, lit(av)) for n_, av in names], got, want), {"src": prog})
            continue
        if done % 2 == 0:
            # (a) one function body, successive calls
            tuples = [[av for n, av in names]]
            for _ in range(r.randint(2, 5)):
                tuples.append([(("int", r.choice([0, 0, 1, 2, 3, 4, 5])) if small and r.random() < 0.9 else other_value(g, r, av)) for n, av in names])
            if r.random() < 0.5:
                tuples.append(tuples[0])
            r.shuffle(tuples)
            calls = ["R !> append(do [0, f(%s)] catch 'ERROR' do [1, 'ERROR'] end end)" % ", ".join(lit(av) for av in tp) for tp in tuples]
            prog = "def f(%s) %s; def R = []; %s; R" % (", ".join(n for n, av in names), text, "; ".join(calls))
            o, _ = R.ev(prog)
            ctx.count("rebind_programs")
            if o.kind != "value":
                ctx.violation("C02:rebind:escape-%s" % o.kind, "%s -> %s %s" % (prog, o.kind, core.safe_str(o.exc, 200)), {"src": prog})
                continue
            try:
                got = gv.abstract(o.value)
            except gv.NotData:
                ctx.violation("C02:rebind:not-data", "%s -> %s" % (prog, core.safe_str(o.value, 200)), {"src": prog})
                continue
            for j, tp in enumerate(tuples):
                want = ref_outcome(ctx, tv, {n: v for (n, _), v in zip(names, tp)})
                if want is None:
                    break   # what an unspecified evaluation leaves behind is not modelled
                ctx.count("rebind_evaluations")
                if j >= len(got[1]) or not agrees(got[1][j], want):
                    ctx.violation("C02:rebind:call-%s:%s" % ("first" if j == 0 else "later", opkey(t)),
                                  "%s: call %d with %s gave %r, definition says %r" % (
                                      prog, j, [lit(v) for v in tp], got[1][j] if j < len(got[1]) else None, want), {"src": prog})
                    break
        else:
            # (b) variables reached by in-place edits after the expression was evaluated on the earlier values
            stmts = []
            tags = []
            if shape < 0.2 and len(names) == 2 and names[1][1][0] != "str" and history.editable(names[1][1]):
                # membership: build the container's history first and ask about a value the edits touched
                st, tg = history.build(r, names[1][1], names[1][0], extra_primers=(text,))
                if history.TOUCHED and r.random() < 0.7:
                    names[0] = (names[0][0], r.choice(history.TOUCHED))
                    ctx.count("membership_of_touched_value")
                stmts += ["def %s = %s" % (names[0][0], lit(names[0][1]))] + st
                tags += tg
                names_iter = []
            else:
                names_iter = names
            for n, av in names_iter:
                if history.editable(av):
                    st, tg = history.build(r, av, n, extra_primers=(text,))
                    stmts += st
                    tags += tg
                else:
                    stmts.append("def %s = %s" % (n, lit(av)))
            # primers must see every variable defined: defs first, then primers and edits
            defs = [x for x in stmts if x.startswith("def ")]
            rest = [x for x in stmts if not x.startswith("def ")]
            prog = "; ".join(defs + rest) + "; do [0, %s] catch 'ERROR' do [1, 'ERROR'] end end" % text
            want = ref_outcome(ctx, tv, {n: av for n, av in names})
            o, _ = R.ev(prog)
            ctx.count("history_programs")
            for tg in set(tags):
                ctx.count("history_edit:" + tg)
            if want is None:
                continue
            if o.kind != "value":
                ctx.violation("C02:history:escape-%s" % o.kind, "%s -> %s %s" % (prog, o.kind, core.safe_str(o.exc, 200)), {"src": prog})
                continue
            try:
                got = gv.abstract(o.value)
            except gv.NotData:
                got = ("other",)
            ctx.count("history_evaluations")
            if not agrees(got, want):
                ctx.violation("C02:history:%s:%s" % ("+".join(sorted(set(tags)))[:60], opkey(t)),
                              "%s gave %r, definition says %r" % (prog, got, want), {"src": prog})
        ctx.sample_maybe({"rebind_program": prog[:400]}, 0.004)


COMPOUND_FORMS = [
    # (name, statements with {A} {op} {B}, expression giving the updated place, expression giving an untouched neighbour)
    ("var", "def v = {A}; v {op}= {B}", "v", None),
    ("var-value", "def v = {A}; def w = (v {op}= {B})", "w", None),
    ("elem", "def l = [0, {A}, 2]; l[1] {op}= {B}", "l[1]", "[l[0], l[2], length(l)]"),
    ("elem-negative", "def l = [0, {A}]; l[-1] {op}= {B}", "l[1]", "[l[0], length(l)]"),
    ("map-entry", "def m = <<<'k' => {A}, 'j' => 0>>>; m['k'] {op}= {B}", "m['k']", "[m['j'], length(m)]"),
    ("member", "def o = <*x = {A}, y = 0*>; o->x {op}= {B}", "o->x", "o->y"),
    ("outer-binding", "def v = {A}; def f() do v {op}= {B}; 0 end; f()", "v", None),
    ("parameter", "def v = 0; def f(v) do v {op}= {B}; v end; def w = f({A})", "w", "v"),
    ("in-loop", "def v = {A}; for i in [1] do v {op}= {B} end", "v", None),
    ("alias-rebinds", "def u = {A}; def v = u; v {op}= {B}", "v", "u == {A}"),
    ("nested-elem", "def l = [[{A}]]; def in_ = l[0]; l[0][0] {op}= {B}", "in_[0]", "length(l[0])"),
]


def run_compound(spec, ctx):
    """`place op= e` is `place = place op (e)` for a variable, a list element, a map entry and an object member: same
    value, same int-ness, same error, whatever e's own operators are; the neighbours of the place stay as they were"""
    R = Runner(ctx)
    r = ctx.rng
    done = 0
    while done < spec["n"]:
        g = ge.ExprGen(r, max_depth=r.choice([1, 2, 3]), ticks=False)
        op = r.choice(["+", "-", "*", "/", "%"])
        a = r.choice([g.lit_int, g.lit_int, g.lit_dec, g.lit_str, g.lit_list, lambda: ("lit", rv.NULL), lambda: ("lit", ("bool", True))])()
        if a[0] != "lit":
            continue
        numeric_a = a[1][0] in ("int", "dec", "null", "bool")
        if op == "*" and not numeric_a:
            b = ("lit", ("int", r.randint(0, 3)))
        else:
            b = g.any(0)
            if op == "*" and not is_numeric_tree(b):
                continue
        if ge.size(b) > 20:
            continue
        done += 1
        t = ("bin", op, a, b)
        want = ref_outcome(ctx, t, {})
        name, stmts, place, neighbour = r.choice(COMPOUND_FORMS)
        A = lit(a[1])
        B = rx.render(b, lit, full=r.random() < 0.3)
        body = stmts.replace("{A}", A).replace("{op}", op).replace("{B}", B)
        nb = neighbour.replace("{A}", A) if neighbour else "0"
        prog = "do %s; [0, %s, %s] catch 'ERROR' do [1, 'ERROR'] end end" % (body, place, nb)
        ctx.case(("compound", name, op, A, B))
        ctx.count("compound_programs")
        ctx.count("compound_form:" + name)
        if want is None:
            continue
        o, _ = R.ev(prog)
        if o.kind != "value":
            ctx.violation("C02:compound:escape-%s" % o.kind, "%s -> %s %s" % (prog, o.kind, core.safe_str(o.exc, 200)), {"src": prog})
            continue
        try:
            got = gv.abstract(o.value)
        except gv.NotData:
            got = ("other",)
        ctx.count("compound_evaluations")
        ok = got[0] == "list" and ((want[0] == "rte" and len(got[1]) == 2 and agrees(got, want))
                                   or (want[0] == "value" and len(got[1]) == 3 and agrees(("list", got[1][:2]), want)))
        if not ok:
            ctx.violation("C02:compound:%s:%s" % (name, op), "%s gave %r; %s %s (%s) is %r" % (prog, got, A, op, B, want), {"src": prog})
            continue
        if want[0] == "value":
            # the neighbours: compare with the same program without the compound assignment
            plain = body[:body.rindex(";")] if ";" in body else body
            ctx.count("compound_neighbour_checks")
            o2, _ = R.ev("do %s; %s catch 'ERROR' 'ERR' end" % (plain, nb)) if name not in ("parameter", "var-value", "outer-binding", "in-loop") else (None, None)
            if o2 is not None and o2.kind == "value":
                try:
                    if gv.abstract(o2.value) != got[1][2]:
                        ctx.violation("C02:compound:neighbour:%s" % name, "%s gave %r, but %s was %r before" % (prog, got, nb, gv.abstract(o2.value)), {"src": prog})
                except gv.NotData:
                    pass
        ctx.sample_maybe({"compound_program": prog[:300]}, 0.004)


def run_long_chains(spec, ctx):
    """one operator repeated up to 240 times: still left-associative, whatever the operand kinds (decimal rounding,
    string and list concatenation are not associative across kinds)"""
    R = Runner(ctx)
    r = ctx.rng
    for _ in range(spec["n"]):
        n = r.choice([65, 66, 70, 80, 96, 100, 120, 64, 63, 33, 127, 128, 129, 160, 200, 240])
        shape = r.choice(["dec+", "dec*", "str+", "list+", "mixed+", "int-dec+", "sub", "div", "mixed-ops"])
        if shape == "dec+":
            ops, leaves = ["+"] * (n - 1), [("dec", r.choice([0.1, 0.2, 0.3, 1e16, -1e16, 0.7, 1.1])) for _ in range(n)]
        elif shape == "dec*":
            ops, leaves = ["*"] * (n - 1), [("dec", r.choice([1.1, 0.9, 1.01, 0.99, 3.0, 1.0 / 3.0])) for _ in range(n)]
        elif shape == "str+":
            ops, leaves = ["+"] * (n - 1), [("str", "s")] + [("int", r.randint(0, 9)) for _ in range(n - 1)]
        elif shape == "list+":
            ops, leaves = ["+"] * (n - 1), [("list", ())] + [("int", r.randint(0, 9)) for _ in range(n - 1)]
        elif shape == "mixed+":
            ops, leaves = ["+"] * (n - 1), [("int", r.randint(0, 9)) for _ in range(n)]
            leaves[r.randrange(1, n)] = ("str", "|")
        elif shape == "int-dec+":
            ops, leaves = ["+"] * (n - 1), [("int", 2**53)] + [("int", 1) for _ in range(n - 2)] + [("dec", 0.0)]
        elif shape == "sub":
            ops, leaves = ["-"] * (n - 1), [("int", r.randint(0, 99)) for _ in range(n)]
        elif shape == "div":
            ops, leaves = ["/"] * (n - 1), [("int", 10**60)] + [("int", r.choice([1, 2, 3, -1])) for _ in range(n - 1)]
        else:
            ops, leaves = [r.choice(["+", "-", "+"]) for _ in range(n - 1)], [("dec", r.choice([0.1, 0.2, 1e16])) if r.random() < 0.5 else ("int", r.randint(0, 9)) for _ in range(n)]
        t = ("lit", leaves[0])
        for op, lf in zip(ops, leaves[1:]):
            t = ("bin", op, t, ("lit", lf))
        text = " ".join([lit(leaves[0])] + [x for op, lf in zip(ops, leaves[1:]) for x in (op, lit(lf))])
        ctx.case(("long-chain", text), nontrivial=True)
        ctx.count("long_chains")
        want = ref_outcome(ctx, t, {})
        if want is None:
            continue
        o, _ = R.ev("do [0, %s] catch 'ERROR' do [1, 'ERROR'] end end" % text)
        if o.kind != "value":
            ctx.violation("C02:long-chain:escape-%s" % o.kind, "%d operands: %s -> %s %s" % (n, text[:200], o.kind, core.safe_str(o.exc, 100)), {"src": text})
            continue
        try:
            got = gv.abstract(o.value)
        except gv.NotData:
            got = ("other",)
        ctx.count("long_chain_evaluations")
        if not agrees(got, want):
            ctx.violation("C02:long-chain:%s" % shape, "%d operands: %s ... evaluated to %s, left-to-right definition says %r" % (
                n, text[:160], core.safe_str(o.value, 120), want if want[0] != "value" else gv.to_source(want[1])[:120]), {"src": text})


def run_laws(spec, ctx):
    R = Runner(ctx)
    r = ctx.rng
    # ("at any magnitude": also beyond the range of a double, 2^1024, where nothing may go through a float)
    mags = [1, 3, 10, 2**31, 2**53, 2**63, 10**20, 10**30, 10**100, 2**1024, 10**400, 10**1000]
    for i in range(spec["n"]):
        a = r.choice([1, -1]) * r.randint(0, r.choice(mags))
        b = r.choice([1, -1]) * r.randint(1, r.choice(mags))
        if i % 50 == 0:
            a, b = r.choice([(2**63 - 1, 1), (2**53 + 1, 1), (10**30, 10**15), (-(2**63), -1), (7, -2), (-7, 2), (-7, -2), (10**400, 10**399), (5, 10**400),
                             (-(10**400), 3), (2**1024, 2**1023), (2**1024 - 1, -(2**1024)), (10**400 + 7, -(10**200))])
        ctx.case(("law", a, b))
        src = "[%d + %d, %d - %d, %d * %d, %d / %d, %d %% %d]" % (a, b, a, b, a, b, a, b, a, b)
        o, _ = R.ev(src.replace("+ -", "+ (-").replace("- -", "- (-") if False else
                    "[(%d) + (%d), (%d) - (%d), (%d) * (%d), (%d) / (%d), (%d) %% (%d)]" % (a, b, a, b, a, b, a, b, a, b))
        ctx.count("law_evaluations")
        if o.kind != "value":
            ctx.violation("C02:law-error:%s" % o.kind, "%s -> %s" % (src, core.safe_str(o.exc, 100)), {"src": src})
            continue
        vals = o.value.value
        kinds = [v.type() for v in vals]
        if kinds != ["int"] * 5:
            ctx.violation("C02:int-ness:law", "%s gave kinds %r" % (src, kinds), {"src": src})
            continue
        s, d, m, q, rem = [v.value for v in vals]
        if type(q) is not int or type(rem) is not int:
            ctx.violation("C02:int-payload:law", "%s gave payload types %r %r" % (src, type(q).__name__, type(rem).__name__), {"src": src})
            continue
        if s != a + b or d != a - b or m != a * b:
            ctx.violation("C02:exactness:add-sub-mul", "%s -> %s" % (src, core.safe_str(o.value)), {"src": src})
        if q != rx.trunc_div(a, b):
            ctx.violation("C02:exactness:div", "(%d) / (%d) = %d, exact truncating quotient is %d" % (a, b, q, rx.trunc_div(a, b)), {"src": src})
        if not (abs(rem) < abs(b) and (a - rem) % b == 0):
            ctx.violation("C02:mod-law", "(%d) %% (%d) = %d violates |r|<|b| and b | a-r" % (a, b, rem), {"src": src})
        # mixed: result is int exactly when both are ints
        if i % 10 == 0:
            o2, _ = R.ev("[type(%d + 1.0), type(1.0 * %d), type(%d / 2.0), type(%d - 0.5), type(%d %% 2.5)]" % (abs(a) % 10**15, abs(b) % 10**15, abs(a) % 10**15, abs(a) % 10**15, abs(a) % 10**15))
            ctx.count("law_evaluations")
            if o2.kind != "value" or [v.value for v in o2.value.value] != ["decimal"] * 5:
                ctx.violation("C02:int-ness:mixed", "int op decimal kinds: %s" % core.safe_str(o2.value if o2.kind == "value" else o2.exc), {})
    ctx.sample({"law_case": "[(7) + (-2), (7) - (-2), (7) * (-2), (7) / (-2), (7) % (-2)]"})


PRED_FORMS = [
    ("in-list", "is in [1, 'abc', NULL]", "is not in [1, 'abc', NULL]"),
    ("in-plain", "in [1, 'abc', NULL]", "not in [1, 'abc', NULL]"),
    ("in-set", "is in <<1, 'abc'>>", "is not in <<1, 'abc'>>"),
    ("in-string", "in 'xabcx'", "not in 'xabcx'"),
    ("empty", "is empty", "is not empty"), ("zero", "is zero", "is not zero"),
    ("negative", "is negative", "is not negative"),
    ("numerical", "is numerical", "is not numerical"),
    ("numerical-len", "is numerical min_len 2 max_len 9", "is not numerical min_len 2 max_len 9"),
    ("alphanumerical", "is alphanumerical", "is not alphanumerical"),
    ("alphanumerical-exact", "is alphanumerical exact_len 3", "is not alphanumerical exact_len 3"),
    ("date-with-hour", "is date with hour", "is not date with hour"),
    ("date", "is date", "is not date"), ("time", "is time", "is not time"),
    ("starts", "starts with 'a'", "starts not with 'a'"), ("ends", "ends with 'c'", "ends not with 'c'"),
    ("contains", "contains 'b'", "contains not 'b'"), ("matches", "matches //a.*//", "matches not //a.*//"),
] + [(t, "is " + t, "is not " + t) for t in
     ["string", "int", "decimal", "boolean", "pattern", "None", "func", "input", "output", "list", "set", "map", "object", "node"]]


def run_predicates(spec, ctx):
    R = Runner(ctx)
    extra = [("node", "parse('1')"), ("str-num", "'123'"), ("str-time", "'1230'"), ("str-datehour", "'2020022912'")]
    n = 0
    for pname, pos_form, neg_form in PRED_FORMS:
        for vname, vsrc in P.POOL + extra:
            ctx.case(("pred", pname, vname))
            o1, _ = R.ev("def x = %s; x %s" % (vsrc, pos_form))
            o2, _ = R.ev("def x = %s; x %s" % (vsrc, neg_form))
            ctx.count("predicate_pairs")
            n += 1
            a, b = R.outcome(o1), R.outcome(o2)
            if a[0] in ("host", "hang", "syntax") or b[0] in ("host", "hang", "syntax"):
                ctx.violation("C02:predicate-escape:" + pname, "x=%s: %r / %r" % (vsrc, a, b), {"value": vsrc})
                continue
            if a[0] == "rte" and b[0] == "rte":
                ctx.count("predicate_both_raise")
                continue
            ok = (a[0] == "value" and b[0] == "value" and len(a) == 2 and len(b) == 2 and a[1][0] == "bool" and b[1][0] == "bool"
                  and a[1][1] != b[1][1])
            if not ok:
                ctx.violation("C02:negation:" + pname,
                              "x = %s: `x %s` -> %r but `x %s` -> %r" % (vsrc, pos_form, a, neg_form, b), {"value": vsrc})
    ctx.extras["predicate_pairs"] = n
    ctx.sample({"predicate": "def x = [1, 2, 3]; x is not list", "forms": len(PRED_FORMS)})


def run_shard(spec, ctx):
    {"pairs": run_pairs, "random": run_random, "laws": run_laws, "predicates": run_predicates, "rebind": run_rebind,
     "longchains": run_long_chains, "compound": run_compound}[spec["kind"]](spec, ctx)


def finalize(merged, tier):
    c = merged["counters"]
    reasons = []
    for k in ("grouping_comparisons", "value_comparisons", "chain_conjunction_comparisons", "law_evaluations", "predicate_pairs", "operator_pairs",
              "rebind_evaluations", "history_evaluations", "long_chain_evaluations", "host_value_evaluations"):
        if c.get(k, 0) == 0:
            reasons.append("monitor counter %s is zero" % k)
    if c.get("renderer_mismatch", 0):
        reasons.append("reference renderer disagrees with the flat operator text in %d cases (harness defect)" % c["renderer_mismatch"])
    extra = {"exhaustive": True,
             "exhaustive_space": "16x16 ordered operator pairs x %d operand triples; %d predicate forms x %d pool values" % (
                 len(OPERAND_SETS), len(PRED_FORMS), len(P.POOL) + 4)}
    return extra, reasons
