"""C02 — operators evaluate per the language definition; integer arithmetic is exact.

Three independent oracles on the outcome of Interpreter.interpret:
 (1) grouping agreement (model-free): the flat text (parentheses only where the
     stated precedence table needs them) and the fully parenthesised text of
     the same tree, and a chain vs. the conjunction of its adjacent pairs, must
     have the same outcome;
 (2) value agreement with the reference expression semantics (cklref.refexpr),
     including short-circuit order observed through tick() side effects;
 (3) laws of exact integer arithmetic and `is not P` == not `is P`."""
import itertools

from cklmon import core
from cklmon.core import observe
from cklgen import values as gv, exprs as ge, pool as P
from cklref import refvalue as rv, refexpr as rx

RULE = ("exhaustive: every ordered pair of the 16 binary operators (+ - * / % == != <> < <= > >= is and or, plus "
        "in/not in next to comparison/and/or) in `a op1 b op2 c` over typed and ill-typed operand triples, every "
        "unary/binary combination, every predicate form x pool value; random: typed expression trees to depth 5 "
        "with 6% ill-typed operands and tick() probes in and/or clauses; integer laws on pairs up to 10^30; a "
        "case is one expression tree (or operand tuple); non-trivial = at least 2 operators (1 for laws); "
        "distinct by tree/tuple")
ASSUMPTIONS = [
    "% on negative operands is checked only by the law (sign convention not fixed by the statement)",
    "mixed-kind ordering (text fallback) is not asserted",
    "membership is combined unparenthesised only with comparison/not/and/or: the statement's precedence list does "
    "not place it and the parser binds it tighter than arithmetic",
    "set and date arithmetic belong to C12/C17/C19, not to this differential",
]
SHARD_TIMEOUT = {"quick": 300, "thorough": 3000}
PRELUDE = "def tick(k, v) do T !> append(k); v end; "

BINOPS = ["+", "-", "*", "/", "%", "==", "!=", "<>", "<", "<=", ">", ">=", "is", "and", "or"]
REL = {"==", "!=", "<>", "<", "<=", ">", ">=", "is", "is not"}


def plan(tier, seed):
    specs = [{"kind": "pairs", "part": i, "of": 4} for i in range(4)]
    n = 6 if tier == "quick" else 24
    specs += [{"kind": "random", "n": 4000 if tier == "quick" else 15000} for _ in range(n)]
    specs += [{"kind": "laws", "n": 3000 if tier == "quick" else 40000} for _ in range(2 if tier == "quick" else 6)]
    specs += [{"kind": "predicates"}]
    return specs


def lit(av):
    return gv.to_source(av)


class Runner:
    def __init__(self, ctx):
        import ckl.functions
        self.ctx = ctx
        self.it, self.out = core.new_interpreter(secure=True, legacy=True)
        self.Env = ckl.functions.Environment
        self.V = __import__("ckl.values").values

    def ev(self, text, ticks=False):
        env = self.Env()
        T = None
        if ticks:
            T = self.V.ValueList()
            env.put("T", T)
            text = PRELUDE + text
        o = observe(lambda: self.it.interpret(text, "c02", env), 600000)
        log = [x.value for x in T.value] if T is not None else None
        return o, log

    def outcome(self, o):
        """comparable summary: ('value', kind, text) | ('rte', text of error value) | (kind,)"""
        if o.kind == "value":
            try:
                a = gv.abstract(o.value)
            except gv.NotData:
                return ("value", o.value.type(), core.safe_str(o.value))
            return ("value", a)
        if o.kind == "rte":
            return ("rte", core.safe_str(getattr(o.exc, "value", None)))
        return (o.kind, type(o.exc).__name__ if o.exc is not None else "")


def same_outcome(x, y):
    if x[0] != y[0]:
        return False
    if x[0] == "value" and len(x) == 2 and len(y) == 2:
        return x[1][0] == y[1][0] and (rv.ref_eq(x[1], y[1]))
    return x == y


def opkey(t):
    ops = sorted(set(ge.operators(t)))
    return "+".join(ops[:4])


def check_tree(R, t, key_prefix, ticks=False):
    ctx = R.ctx
    flat = rx.render(t, lit, full=False)
    full = rx.render(t, lit, full=True)
    conj = rx.render_chain_as_conjunction(t, lit)
    nops = len(ge.operators(t))
    ctx.case(("tree", flat), nontrivial=nops >= 2)
    o_flat, log_flat = R.ev(flat, ticks)
    o_full, log_full = R.ev(full, ticks)
    ctx.count("grouping_comparisons")
    a, b = R.outcome(o_flat), R.outcome(o_full)
    for o, txt in ((o_flat, flat), (o_full, full)):
        if o.kind in ("host", "hang", "syntax"):
            ctx.violation("C02:%s:escape-%s" % (key_prefix, a[0] if o is o_flat else b[0]),
                          "%s -> %s %s" % (txt, o.kind, core.safe_str(o.exc, 100)), {"src": txt})
            return
    if not same_outcome(a, b) or log_flat != log_full:
        ctx.violation("C02:grouping:%s:%s" % (key_prefix, opkey(t)),
                      "flat %s -> %r but parenthesised %s -> %r" % (flat, a, full, b), {"flat": flat, "full": full})
    if conj != full and not ticks:
        o_conj, _ = R.ev(conj)
        ctx.count("chain_conjunction_comparisons")
        c = R.outcome(o_conj)
        if not same_outcome(a, c):
            ctx.violation("C02:chain-conjunction:%s" % opkey(t),
                          "%s -> %r but %s -> %r" % (flat, a, conj, c), {"flat": flat, "conj": conj})
    # value oracle
    log = []
    try:
        want = ("value", rx.eval_expr(t, {}, log))
    except rx.RefError as e:
        want = ("rte", core.safe_str(gv_text(e.value)))
    except rx.Unspecified:
        ctx.count("value_oracle_unspecified")
        return
    except (OverflowError, ZeroDivisionError, RecursionError, MemoryError):
        ctx.count("value_oracle_unspecified")
        return
    ctx.count("value_comparisons")
    if want[0] == "value":
        ok = a[0] == "value" and len(a) == 2 and a[1][0] == want[1][0] and rv.ref_eq(a[1], want[1])
        if ok and want[1][0] == "dec" and a[1][1] != want[1][1] and not (a[1][1] == 0 == want[1][1]):
            ok = False
    else:
        ok = a[0] == "rte" and a[1] == "'ERROR'"
    if not ok:
        clause = "value"
        if want[0] == "value" and a[0] == "value" and len(a) == 2 and a[1][0] != want[1][0]:
            clause = "int-ness" if {a[1][0], want[1][0]} <= {"int", "dec"} else "kind"
        elif want[0] == "value" and a[0] == "value" and len(a) == 2 and want[1][0] == "int":
            clause = "exactness"
        elif want[0] != a[0]:
            clause = "error-vs-value"
        ctx.violation("C02:%s:%s:%s" % (clause, key_prefix, opkey(t)),
                      "%s evaluated to %r, definition says %r" % (flat, a, want), {"src": flat})
    if ticks and want and log != log_flat and o_flat.kind in ("value", "rte"):
        ctx.violation("C02:short-circuit:%s" % opkey(t),
                      "%s evaluated clauses %r, definition says %r" % (flat, log_flat, log), {"src": flat})
    ctx.sample_maybe({"flat": flat, "parenthesised": full, "outcome": repr(a)[:120]}, 0.004)


def gv_text(av):
    return "'" + av[1] + "'" if av[0] == "str" else str(av)


def tree_of_pair(op1, op2, a, b, c):
    """grouping of `a op1 b op2 c` by the stated table (independent precedence logic)"""
    def prec(op):
        if op == "or":
            return 1
        if op == "and":
            return 2
        if op in REL:
            return 4
        if op in ("+", "-"):
            return 5
        if op in ("*", "/", "%"):
            return 6
        if op in ("in", "not in"):
            return 8
        raise ValueError(op)

    def mk(op, x, y):
        if op == "or":
            return ("or", [x, y])
        if op == "and":
            return ("and", [x, y])
        if op in REL:
            return ("chain", [x, y], [op])
        if op == "in":
            return ("in", x, y)
        if op == "not in":
            return ("notin", x, y)
        return ("bin", op, x, y)
    p1, p2 = prec(op1), prec(op2)
    if op1 in REL and op2 in REL:
        return ("chain", [a, b, c], [op1, op2])
    if op1 == op2 and op1 in ("and", "or"):
        return (op1, [a, b, c])
    if p1 >= p2:
        return mk(op2, mk(op1, a, b), c)
    return mk(op1, a, mk(op2, b, c))


OPERAND_SETS = [
    [("int", 7), ("int", 2), ("int", 3)],
    [("int", -7), ("int", 2), ("int", -3)],
    [("int", 10**20), ("int", 3), ("int", 7)],
    [("dec", 7.5), ("int", 2), ("dec", 0.5)],
    [("int", 6), ("int", 0), ("int", 2)],
    [("bool", True), ("bool", False), ("bool", True)],
    [("bool", False), ("bool", False), ("bool", True)],
    [("str", "a"), ("str", "b"), ("str", "a")],
    [("str", "a"), ("int", 2), ("int", 3)],
    [("list", (("int", 1),)), ("list", (("int", 2),)), ("list", (("int", 1),))],
    [("list", (("int", 1), ("int", 2))), ("int", 2), ("int", 2)],
    [("null",), ("int", 2), ("int", 3)],
    [("int", 1), ("bool", True), ("str", "x")],
    [("int", 2), ("int", 2), ("bool", True)],
    [("bool", True), ("int", 1), ("int", 1)],
    [("int", 1), ("int", 2), ("int", 2)],
    [("int", 3), ("int", 2), ("int", 1)],
]
MEMBER_SETS = [
    [("int", 1), ("list", (("int", 1), ("bool", True))), ("bool", True)],
    [("str", "a"), ("str", "abc"), ("bool", False)],
    [("bool", True), ("int", 2), ("list", (("int", 2), ("bool", False)))],
    [("int", 5), ("list", ()), ("list", ())],
]


def run_pairs(spec, ctx):
    R = Runner(ctx)
    ops = BINOPS + ["is not"]
    n = 0
    for i, (op1, op2) in enumerate(itertools.product(ops, ops)):
        if i % spec["of"] != spec["part"]:
            continue
        for operands in OPERAND_SETS:
            a, b, c = [("lit", x) for x in operands]
            t = tree_of_pair(op1, op2, a, b, c)
            flat = rx.render(t, lit)
            expect_flat = "%s %s %s %s %s" % (lit(operands[0]), op1, lit(operands[1]), op2, lit(operands[2]))
            if flat.replace("(", "").replace(")", "") != expect_flat.replace("(", "").replace(")", ""):
                ctx.note("renderer mismatch: %s vs %s" % (flat, expect_flat))
                ctx.count("renderer_mismatch")
            check_tree(R, t, "pair")
            n += 1
    # membership next to comparison / and / or
    for i, (op1, op2) in enumerate(itertools.product(["in", "not in"], ["==", "!=", "and", "or", "is"])):
        if i % spec["of"] != spec["part"]:
            continue
        for operands in MEMBER_SETS:
            a, b, c = [("lit", x) for x in operands]
            check_tree(R, tree_of_pair(op1, op2, a, b, c), "pair-member")
            if operands[2][0] == "list" or operands[1][0] != "list":
                check_tree(R, tree_of_pair(op2, op1, ("lit", operands[2] if operands[2][0] == "bool" else ("bool", True)),
                                           ("lit", operands[0]), ("lit", operands[1])), "pair-member")
    # unary / binary combinations
    if spec["part"] == 0:
        for u in ("neg", "pos", "not"):
            for op in BINOPS:
                for operands in OPERAND_SETS[:8]:
                    a, b = ("lit", operands[0]), ("lit", operands[1])
                    inner = tree_of_pair(op, op, a, b, b)
                    two = inner[1][:2] if inner[0] in ("and", "or") else None
                    t2 = (inner[0], [a, b]) if inner[0] in ("and", "or") else (("chain", [a, b], [op]) if op in REL else ("bin", op, a, b))
                    check_tree(R, (u, t2), "unary-of-binary")
                    # unary applied to the left operand only
                    if op in REL:
                        check_tree(R, ("chain", [(u, a), b], [op]), "unary-left")
                    elif op in ("and", "or"):
                        check_tree(R, (op, [(u, a), b]), "unary-left")
                    else:
                        check_tree(R, ("bin", op, (u, a), b), "unary-left")
                        check_tree(R, ("bin", op, a, (u, b)), "unary-right")
    ctx.count("operator_pairs", n)
    ctx.extras["pairs_done"] = n


def run_random(spec, ctx):
    R = Runner(ctx)
    r = ctx.rng
    for i in range(spec["n"]):
        ticks = (i % 3 == 0)
        g = ge.ExprGen(r, max_depth=r.choice([2, 3, 4, 5]), ticks=ticks)
        t = g.any(0)
        if ge.size(t) > 40:
            continue
        check_tree(R, t, "random", ticks=ticks and g.tick_id > 0)


def run_laws(spec, ctx):
    R = Runner(ctx)
    r = ctx.rng
    mags = [1, 3, 10, 2**31, 2**53, 2**63, 10**20, 10**30]
    for i in range(spec["n"]):
        a = r.choice([1, -1]) * r.randint(0, r.choice(mags))
        b = r.choice([1, -1]) * r.randint(1, r.choice(mags))
        if i % 50 == 0:
            a, b = r.choice([(2**63 - 1, 1), (2**53 + 1, 1), (10**30, 10**15), (-(2**63), -1), (7, -2), (-7, 2), (-7, -2)])
        ctx.case(("law", a, b))
        src = "[%d + %d, %d - %d, %d * %d, %d / %d, %d %% %d]" % (a, b, a, b, a, b, a, b, a, b)
        o, _ = R.ev(src.replace("+ -", "+ (-").replace("- -", "- (-") if False else
                    "[(%d) + (%d), (%d) - (%d), (%d) * (%d), (%d) / (%d), (%d) %% (%d)]" % (a, b, a, b, a, b, a, b, a, b))
        ctx.count("law_evaluations")
        if o.kind != "value":
            ctx.violation("C02:law-error:%s" % o.kind, "%s -> %s" % (src, core.safe_str(o.exc, 100)), {"src": src})
            continue
        vals = o.value.value
        kinds = [v.type() for v in vals]
        if kinds != ["int"] * 5:
            ctx.violation("C02:int-ness:law", "%s gave kinds %r" % (src, kinds), {"src": src})
            continue
        s, d, m, q, rem = [v.value for v in vals]
        if type(q) is not int or type(rem) is not int:
            ctx.violation("C02:int-payload:law", "%s gave payload types %r %r" % (src, type(q).__name__, type(rem).__name__), {"src": src})
            continue
        if s != a + b or d != a - b or m != a * b:
            ctx.violation("C02:exactness:add-sub-mul", "%s -> %s" % (src, core.safe_str(o.value)), {"src": src})
        if q != rx.trunc_div(a, b):
            ctx.violation("C02:exactness:div", "(%d) / (%d) = %d, exact truncating quotient is %d" % (a, b, q, rx.trunc_div(a, b)), {"src": src})
        if not (abs(rem) < abs(b) and (a - rem) % b == 0):
            ctx.violation("C02:mod-law", "(%d) %% (%d) = %d violates |r|<|b| and b | a-r" % (a, b, rem), {"src": src})
        # mixed: result is int exactly when both are ints
        if i % 10 == 0:
            o2, _ = R.ev("[type(%d + 1.0), type(1.0 * %d), type(%d / 2.0), type(%d - 0.5), type(%d %% 2.5)]" % (abs(a) % 10**15, abs(b) % 10**15, abs(a) % 10**15, abs(a) % 10**15, abs(a) % 10**15))
            ctx.count("law_evaluations")
            if o2.kind != "value" or [v.value for v in o2.value.value] != ["decimal"] * 5:
                ctx.violation("C02:int-ness:mixed", "int op decimal kinds: %s" % core.safe_str(o2.value if o2.kind == "value" else o2.exc), {})
    ctx.sample({"law_case": "[(7) + (-2), (7) - (-2), (7) * (-2), (7) / (-2), (7) % (-2)]"})


PRED_FORMS = [
    ("in-list", "is in [1, 'abc', NULL]", "is not in [1, 'abc', NULL]"),
    ("in-plain", "in [1, 'abc', NULL]", "not in [1, 'abc', NULL]"),
    ("in-set", "is in <<1, 'abc'>>", "is not in <<1, 'abc'>>"),
    ("in-string", "in 'xabcx'", "not in 'xabcx'"),
    ("empty", "is empty", "is not empty"), ("zero", "is zero", "is not zero"),
    ("negative", "is negative", "is not negative"),
    ("numerical", "is numerical", "is not numerical"),
    ("numerical-len", "is numerical min_len 2 max_len 9", "is not numerical min_len 2 max_len 9"),
    ("alphanumerical", "is alphanumerical", "is not alphanumerical"),
    ("alphanumerical-exact", "is alphanumerical exact_len 3", "is not alphanumerical exact_len 3"),
    ("date-with-hour", "is date with hour", "is not date with hour"),
    ("date", "is date", "is not date"), ("time", "is time", "is not time"),
    ("starts", "starts with 'a'", "starts not with 'a'"), ("ends", "ends with 'c'", "ends not with 'c'"),
    ("contains", "contains 'b'", "contains not 'b'"), ("matches", "matches //a.*//", "matches not //a.*//"),
] + [(t, "is " + t, "is not " + t) for t in
     ["string", "int", "decimal", "boolean", "pattern", "None", "func", "input", "output", "list", "set", "map", "object", "node"]]


def run_predicates(spec, ctx):
    R = Runner(ctx)
    extra = [("node", "parse('1')"), ("str-num", "'123'"), ("str-time", "'1230'"), ("str-datehour", "'2020022912'")]
    n = 0
    for pname, pos_form, neg_form in PRED_FORMS:
        for vname, vsrc in P.POOL + extra:
            ctx.case(("pred", pname, vname))
            o1, _ = R.ev("def x = %s; x %s" % (vsrc, pos_form))
            o2, _ = R.ev("def x = %s; x %s" % (vsrc, neg_form))
            ctx.count("predicate_pairs")
            n += 1
            a, b = R.outcome(o1), R.outcome(o2)
            if a[0] in ("host", "hang", "syntax") or b[0] in ("host", "hang", "syntax"):
                ctx.violation("C02:predicate-escape:" + pname, "x=%s: %r / %r" % (vsrc, a, b), {"value": vsrc})
                continue
            if a[0] == "rte" and b[0] == "rte":
                ctx.count("predicate_both_raise")
                continue
            ok = (a[0] == "value" and b[0] == "value" and len(a) == 2 and len(b) == 2 and a[1][0] == "bool" and b[1][0] == "bool"
                  and a[1][1] != b[1][1])
            if not ok:
                ctx.violation("C02:negation:" + pname,
                              "x = %s: `x %s` -> %r but `x %s` -> %r" % (vsrc, pos_form, a, neg_form, b), {"value": vsrc})
    ctx.extras["predicate_pairs"] = n
    ctx.sample({"predicate": "def x = [1, 2, 3]; x is not list", "forms": len(PRED_FORMS)})


def run_shard(spec, ctx):
    {"pairs": run_pairs, "random": run_random, "laws": run_laws, "predicates": run_predicates}[spec["kind"]](spec, ctx)


def finalize(merged, tier):
    c = merged["counters"]
    reasons = []
    for k in ("grouping_comparisons", "value_comparisons", "chain_conjunction_comparisons", "law_evaluations", "predicate_pairs", "operator_pairs"):
        if c.get(k, 0) == 0:
            reasons.append("monitor counter %s is zero" % k)
    if c.get("renderer_mismatch", 0):
        reasons.append("reference renderer disagrees with the flat operator text in %d cases (harness defect)" % c["renderer_mismatch"])
    extra = {"exhaustive": True,
             "exhaustive_space": "16x16 ordered operator pairs x %d operand triples; %d predicate forms x %d pool values" % (
                 len(OPERAND_SETS), len(PRED_FORMS), len(P.POOL) + 4)}
    return extra, reasons
