"""C13 — only language-level errors escape evaluation.

Deciding monitor: M1 only (boundary observer + step clock): every execution of
an operator / indexing / slicing / iteration / spread / destructuring form or a
library call on pool values must end as a value or as a CklRuntimeError whose
error value is a language value, within the step budget.  No expected values,
so no model can be wrong."""
import os
import re

from cklmon import core, matrix
from cklmon.core import observe
from cklgen import pool as P

RULE = ("forms x pool: every operator, membership, indexing/slicing/assignment, member access and call, "
        "for/comprehension/spread/destructuring form, predicate form and interpolation x all tuples of a "
        "28-value pool (NULL, booleans, ints, decimals, strings, list/set/map/object, date, pattern, functions, "
        "streams); callees x pool: every function of the legacy base environment (and, thorough, of the "
        "non-legacy environment and all 14 modules through Module->f) x all argument tuples of arity <= 2 "
        "(+ sampled/all triples) + one-at-a-time named arguments; a case is one (callee|form, pool tuple); "
        "non-trivial = at least one argument; distinct by tuple")
ASSUMPTIONS = [
    "magnitudes >= 2^31 are kept out of the pool (finite but huge loops are not a containment question)",
    "step budget 300000 logical steps per case; a case exceeding it is re-run under 150M steps and only then called a hang",
    "non-secure interpreter, cwd and HOME are scratch directories, stdin/stdout are string streams",
]
BUDGET = 300000
CONFIRM_BUDGET = 150000000
CONFIRM_BUDGET_ORDINARY = 30000000
SHARD_TIMEOUT = {"quick": 400, "thorough": 3000}


def plan(tier, seed):
    n = 14 if tier == "quick" else 48
    specs = [{"kind": "forms", "part": i, "of": 4 if tier == "quick" else 16} for i in range(4 if tier == "quick" else 16)]
    specs += [{"kind": "calls", "legacy": True, "part": i, "of": n} for i in range(n)]
    if tier == "thorough":
        specs += [{"kind": "calls", "legacy": False, "part": i, "of": 16} for i in range(16)]
    else:
        specs += [{"kind": "calls", "legacy": False, "part": i, "of": 2, "arity": 1} for i in range(2)]
    specs.append({"kind": "cli"})
    return specs


SUPER_POLYNOMIAL = {"permutations"}
BIG_POOL = {"list-big", "set-big", "map-big", "str-big"}


HOSTISH = re.compile(r"^[A-Z][A-Za-z]*(Error|Exception|Warning)\b")


class ResultMonitor:
    """wraps ckl.nodes.invoke (the single call path): what a call returns is a value of the language"""
    def __init__(self):
        self.bad = []
        self.calls = 0
        self.installed = False

    def install(self):
        if self.installed:
            return
        import ckl.nodes
        import ckl.values
        orig = ckl.nodes.invoke
        V = ckl.values.Value
        mon = self

        def invoke(fn, names_, args, environment, pos):
            r = orig(fn, names_, args, environment, pos)
            mon.calls += 1
            if not isinstance(r, V) and len(mon.bad) < 50:
                mon.bad.append((str(getattr(fn, "name", "?")), type(r).__name__))
            return r
        ckl.nodes.invoke = invoke
        self.installed = ckl.nodes.invoke is invoke


RESULTS = ResultMonitor()


class Runner:
    def __init__(self, ctx, legacy):
        self.ctx = ctx
        self.legacy = legacy
        self.confirmed_hangs = set()
        self.ncatch = 0
        self.catch_every = 4 if ctx.tier == "quick" else 1
        self.fresh()

    def fresh(self):
        import ckl.functions
        RESULTS.install()
        self.it, self.out = core.new_interpreter(secure=False, legacy=self.legacy, stdin_text="in1\nin2\n")
        self.Env = ckl.functions.Environment
        self.n = 0

    def run(self, callee, prog, names, kind):
        ctx = self.ctx
        env = self.Env()
        o = observe(lambda: self.it.interpret(prog, "c13", env), BUDGET)
        self.n += 1
        # every call made on the way must have handed back a value of the language (not a host None, str, ...)
        if RESULTS.bad:
            for fname, tname in sorted(set(RESULTS.bad))[:3]:
                ctx.violation("C13:%s:call-returns-no-value:%s" % (callee, fname), "%s: the call of %s returned a host %s instead of a value" % (prog, fname, tname), {"src": prog})
            del RESULTS.bad[:]
        inline = getattr(names, "inline", None)
        if inline and o.kind in ("value", "rte") and (self.n % 11 == 0 or (o.kind == "rte" and HOSTISH.match(str(getattr(o.exc, "msg", ""))))):
            # the same call as a whole program of one expression: what a block converts into the language's error must
            # not leave interpret raw when there is no block
            o1 = observe(lambda: self.it.interpret(inline, "c13", self.Env()), BUDGET)
            ctx.count("single_expression_programs")
            del RESULTS.bad[:]
            if o1.kind == "host":
                ctx.violation("C13:%s:%s:%s" % (callee, type(o1.exc).__name__, o1.site[0]),
                              "%s (the whole program) -> %s: %s" % (inline, type(o1.exc).__name__, core.safe_str(o1.exc, 100)), {"src": inline})
            elif o1.kind == "hang":
                self.fresh()
        if self.n % 2000 == 0:
            self.out.output = ""
        ctx.case((callee, names), nontrivial=len(names) > 0)
        ctx.count("outcome_" + o.kind)
        if o.kind == "value":
            ctx.maxstat("max_steps_terminating", o.steps)
            # "yields a value": a well-formed one (host payloads of the promised types all the way down)
            bad = core.value_malformed(o.value)
            ctx.count("value_wellformedness_checks")
            if bad:
                ctx.violation("C13:%s:malformed-value" % callee, "%s yields %s" % (prog, bad), {"src": prog})
            return o
        if o.kind == "rte":
            ctx.maxstat("max_steps_terminating", o.steps)
            v = getattr(o.exc, "value", None)
            if not core.rte_wellformed(o.exc):
                site = core.innermost_ckl_frame(o.exc)
                ctx.violation("C13:%s:bad-error-value:%s" % (callee, site[0]),
                              "%s raises CklRuntimeError whose value is %s %r" % (prog, type(v).__name__, v), {"src": prog})
            # "... which catch can intercept": the same case inside do .. catch all must yield the handler's value
            self.ncatch += 1
            if kind == "form" or self.catch_every <= 1 or self.ncatch % self.catch_every == 0:
                wrapped = "do %s catch all 'caught-by-catch-all' end" % prog
                env2 = self.Env()
                o2 = observe(lambda: self.it.interpret(wrapped, "c13", env2), BUDGET)
                ctx.count("catchability_checks")
                # (a value other than the marker is fine too: unseeded random functions may simply succeed this time)
                if o2.kind != "value":
                    site = core.innermost_ckl_frame(o2.exc) if o2.exc is not None else ("?", "?")
                    ctx.violation("C13:%s:not-catchable:%s" % (callee, site[0]),
                                  "%s -> %s %s (the runtime error of the bare form is not intercepted by catch all)" % (
                                      wrapped, o2.kind, core.safe_str(o2.exc if o2.exc is not None else o2.value, 100)), {"src": wrapped})
                    if o2.kind == "hang":
                        self.fresh()
            return o
        if o.kind == "syntax":
            import ckl.parser
            try:
                ckl.parser.parse_script(prog, "c13")
                parses = True
            except Exception:  # noqa
                parses = False
            if not parses:
                # the harness wrote the program; a syntax error in its own text is a harness bug, not a finding
                ctx.count("harness_syntax_errors")
                ctx.note("syntax error in generated program: %s" % prog)
                return o
            # the program text is fine: a syntax error raised *while evaluating* (text handed to a built-in) is not the
            # language's runtime error and cannot be intercepted by catch
            site = core.innermost_ckl_frame(o.exc)
            ctx.violation("C13:%s:syntax-error-at-run-time:%s" % (callee, site[0]),
                          "%s -> %s" % (prog, core.safe_str(o.exc, 100)), {"src": prog})
            return o
        if o.kind == "host":
            ctx.violation("C13:%s:%s:%s" % (callee, type(o.exc).__name__, o.site[0]),
                          "%s -> %s: %s" % (prog, type(o.exc).__name__, core.safe_str(o.exc, 100)), {"src": prog})
            if isinstance(o.exc, RecursionError):
                self.fresh()
            return o
        # candidate hang: confirm with a much larger budget before calling it one
        # (factorial-size but finite computations, e.g. permutations of an 8-character string)
        self.fresh()
        if callee.split("->")[-1] in SUPER_POLYNOMIAL and any(n in BIG_POOL for n in names):
            # the result itself has more than 10^100 elements: not a question of termination
            ctx.count("super_polynomial_results_skipped")
            return o
        if callee in self.confirmed_hangs:
            ctx.violation("C13:%s:hang" % callee, "%s exceeded %d steps (callee already confirmed hanging)" % (prog, BUDGET), {"src": prog})
            return o
        env = self.Env()
        # (only results of factorial size take tens of millions of steps; everything else gets a smaller second chance,
        # so that a change which makes many forms hang is still reported within the shard's time)
        big = callee.split("->")[-1] in SUPER_POLYNOMIAL
        confirm = CONFIRM_BUDGET if big else CONFIRM_BUDGET_ORDINARY
        o2 = observe(lambda: self.it.interpret(prog, "c13", env), confirm)
        ctx.count("hang_confirmations")
        if o2.kind != "hang":
            ctx.count("slow_but_terminating")
            ctx.maxstat("max_steps_slow_case" if big else "max_steps_slow_ordinary_case", o2.steps)
            self.fresh()
            return o2
        ctx.violation("C13:%s:hang" % callee, "%s exceeded %d steps" % (prog, confirm), {"src": prog})
        self.confirmed_hangs.add(callee)
        self.fresh()
        return o


def run_shard(spec, ctx):
    kind = spec["kind"]
    if kind == "forms":
        R = Runner(ctx, True)
        triple_cap = 1500 if ctx.tier == "quick" else None
        i = -1
        seen3 = {}
        for callee, k, prog, names in matrix.form_cases():
            if len(names) == 3 and triple_cap is not None:
                # deterministic thinning of 3-operand forms in the quick tier
                h = core.stable_hash(callee, names, ctx.seed) % 21952
                if h >= triple_cap:
                    continue
            i += 1
            if i % spec["of"] != spec["part"]:
                continue
            R.run(callee, prog, names, k)
        ctx.sample({"form": "a[b to c]", "pool": P.POOL_NAMES})
    elif kind == "calls":
        callees = matrix.discover_callees(spec["legacy"])
        ctx.extras["callees_total"] = len(callees)
        mine = [c for i, c in enumerate(callees) if i % spec["of"] == spec["part"]]
        ctx.count("callees", len(mine))
        R = Runner(ctx, spec["legacy"])
        max_ar = spec.get("arity", 3)
        sample = 150 if ctx.tier == "quick" else None
        for callee, k, prog, names in matrix.call_cases(mine, max_ar, ctx.rng, sample):
            tag = callee if spec["legacy"] else callee
            R.run(tag, prog, names, k)
        if mine:
            ctx.sample({"callee": mine[0][0], "argnames": mine[0][2], "example": "def a = [1, 2, 3]; def b = -1; %s(a, b)" % mine[0][1]})
    elif kind == "cli":
        run_cli(ctx)


def run_cli(ctx):
    """end to end: the command-line host must survive what the API contains"""
    import subprocess
    import sys
    progs = ["1 % 0", "[1][NULL]", "length(1)", "error 'x'", "error [1, 2]", "stdout == stdout", "chr(-1)",
             "def f() f(); f()", "1 +", "println('ok'); 7"]
    for i, p in enumerate(progs):
        path = os.path.join(os.getcwd(), "cli%d.ckl" % i)
        with open(path, "w") as f:
            f.write(p)
        try:
            r = subprocess.run([sys.executable, "-B", "-m", "ckl.run", path], capture_output=True, text=True, timeout=60,
                               env=dict(os.environ))
        except subprocess.TimeoutExpired:
            ctx.violation("C13:cli:hang", "ckl.run on %r timed out" % p, {"src": p})
            continue
        ctx.count("cli_runs")
        ctx.case(("cli", p))
        if "Traceback (most recent call last)" in r.stderr or r.returncode not in (0,):
            last = r.stderr.strip().splitlines()[-1] if r.stderr.strip() else ""
            exc = last.split(":")[0].strip() or "exit%d" % r.returncode
            ctx.violation("C13:cli:%s" % exc, "ckl.run on %r: exit %d, stderr ends %r" % (p, r.returncode, last[:120]), {"src": p})


def finalize(merged, tier):
    c = merged["counters"]
    mx = merged["maxima"]
    reasons = []
    if c.get("outcome_value", 0) == 0 or c.get("outcome_rte", 0) == 0:
        reasons.append("no value or no runtime-error outcome observed")
    if c.get("harness_syntax_errors", 0) > 0:
        reasons.append("%d generated programs did not parse (harness defect)" % c["harness_syntax_errors"])
    if c.get("cli_runs", 0) == 0:
        reasons.append("no CLI run")
    if c.get("catchability_checks", 0) == 0:
        reasons.append("no catchability check")
    extra = {"step_budget": BUDGET, "max_steps_terminating": mx.get("max_steps_terminating")}
    extra["confirm_budget"] = CONFIRM_BUDGET
    extra["max_steps_slow_case"] = mx.get("max_steps_slow_case")
    extra["max_steps_slow_ordinary_case"] = mx.get("max_steps_slow_ordinary_case")
    if mx.get("max_steps_slow_case", 0) * 2 > CONFIRM_BUDGET or mx.get("max_steps_slow_ordinary_case", 0) * 2 > CONFIRM_BUDGET_ORDINARY:
        reasons.append("a terminating case used more than half of the confirmation budget; margin too small")
    return extra, reasons


def replay(rec):
    src = rec.get("replay", {}).get("src")
    if not src:
        return {"violated": None}
    ctx = core.Ctx("C13", "quick", 0, 0, {})
    R = Runner(ctx, True)
    o = R.run("replay", src, ("replay",), "call")
    return {"violated": bool(ctx.violations), "outcome": o.brief()}
