"""C18 — string functions satisfy the algebra of strings.

Deciding monitor: host-string oracles (Python str) and mutual-consistency laws
over the outcome of interpreted calls, on adversarial strings."""
import re

from cklmon import core
from cklmon.core import observe
from cklgen import values as gv

RULE = ("strings of length 0..12 over an adversarial alphabet (separators , | . * + ( ) [ ] \\ ^ $ ? { }, both "
        "quotes, backslash, TAB, LF, CR, space, non-ASCII) and all pairs from a fixed small set; laws: split/join "
        "inverse (both directions, escaped separator), replace = host replace, reverse involution, idempotence of "
        "upper/lower/trim, contains <=> find>=0 <=> in <=> host containment, starts_with/ends_with vs find/substr, "
        "length additivity, chr/ord, words/unwords, lines/unlines, s() and sprintf() templates; every fourth law round on "
        "variables whose strings were first used (as text, separator, pattern) and then edited in place; a case is one "
        "(law, strings) tuple; non-trivial = some string non-empty; distinct by tuple")
ASSUMPTIONS = [
    "regex-valued separators are only used escaped",
    "case mapping: idempotence on all strings, host agreement only (Python str.upper/lower/strip is the definition)",
    "negative `start`, empty search parts for replace, and empty placeholders {} are not asserted",
    "words/lines are exercised on interior single separators only",
]
ALPHA = list("ab,|.*+()[]\\^$?{}'\"# \t\n/:-_0") + ["é", "日", "ß", "ab", ", ", "||", "\r\n",
                                                          "\ufeff", "\ufeff ", "\xa0", "\u2003", "\x0b", "\x0c", "\x1f", "\u200b", "İ", "ǅ", "ﬁ"]
SEPS = [",", "|", ".", "*", "+", "(", ")", "[", "]", "\\", "^", "$", "?", "{", "}", " ", ";", "::", "||", ", ", ".*", "a", "\t", "'", "\"", "/", "-"]
SHARD_TIMEOUT = {"quick": 300, "thorough": 3000}


def plan(tier, seed):
    n = 8 if tier == "quick" else 32
    return ([{"kind": "laws", "n": 900 if tier == "quick" else 6000} for _ in range(n)]
            + [{"kind": "templates", "n": 700 if tier == "quick" else 5000} for _ in range(n // 2)]
            + [{"kind": "fixed"}, {"kind": "qualified", "sample": 60 if tier == "quick" else None}])


def S(s, r=None):
    return gv.str_literal(s, r)


def gen_str(r, maxlen=12):
    k = r.random()
    if k < 0.1:
        return ""
    n = r.randint(1, maxlen) if k < 0.9 else r.randint(1, 3)
    return "".join(r.choice(ALPHA) for _ in range(n))[:maxlen + 2]


class Runner:
    def __init__(self, ctx):
        import ckl.functions
        self.ctx = ctx
        self.it, self.out = core.new_interpreter(secure=True, legacy=True)
        self.Env = ckl.functions.Environment
        self.prefix = ""

    def ev(self, text, env=None):
        env = env or self.Env()
        return observe(lambda: self.it.interpret(text, "c18", env), 800000)

    def expect(self, text, want, key, case):
        ctx = self.ctx
        if self.prefix:
            text = self.prefix + text
            case = ("after-edits",) + tuple(case)
            key = key + ":after-edits"
            ctx.count("evaluations_on_edited_strings")
        o = self.ev(text)
        ctx.count("evaluations")
        ctx.case(case, nontrivial=True)
        if o.kind != "value":
            ctx.violation("C18:%s:raises" % key, "%s -> %s %s" % (text, o.kind, core.safe_str(o.exc, 120)), {"src": text})
            return None
        got = to_py(o.value)
        if got != want or type(got) is not type(want):
            ctx.violation("C18:" + key, "%s evaluated to %s, host oracle says %r" % (text, core.safe_str(o.value, 100), want), {"src": text})
        return got


def to_py(v):
    t = v.type()
    if t in ("string", "int"):
        return v.value
    if t == "boolean":
        return bool(v.value)
    if t == "list":
        return [to_py(x) for x in v.value]
    if t == "null":
        return None
    if t == "decimal":
        return v.value
    return ("?", t, str(v))


def law_cases(R, r, s, t, sep, hist=False):
    Ss, St, Sp = S(s, r), S(t, r), S(sep, r)
    R.prefix = ""
    if hist:
        # the three operands are variables whose strings were used (as text, as separator, as pattern) and then
        # edited in place into s, t and sep
        from cklgen import history
        stmts = []
        for name, val in (("hs", s), ("ht", t), ("hp", sep)):
            st, tg = history.build(r, ("str", val), name, extra_primers=(
                "split('a,b;c', %s)" % name, "split2('a,b;c', %s, ';')" % name, "replace('a,b', %s, 'x')" % name,
                "join(['a', 'b'], %s)" % name, "find('a,b', %s)" % name))
            stmts += st
            for x in tg:
                R.ctx.count("edit:" + x)
        R.prefix = "; ".join(stmts) + "; "
        Ss, St, Sp = "hs", "ht", "hp"
    plain_sep = bool(sep) and all(ch.isalnum() or ch in " ;:,'\"/-_" for ch in sep)
    if plain_sep:
        if s:
            R.expect("split(%s, %s)" % (Ss, Sp), s.split(sep), "split-plain:host", ("splitp", s, sep))
        R.expect("join(split(%s, %s), %s) == %s" % (Ss, Sp, Sp, Ss), True, "split-join-plain:inverse", ("sjp", s, sep))
    # 1. split / join
    if sep:
        R.expect("join(split(%s, escape_pattern(%s)), %s) == %s" % (Ss, Sp, Sp, Ss), True, "split-join:inverse", ("sj", s, sep))
        if s:
            R.expect("split(%s, escape_pattern(%s))" % (Ss, Sp), s.split(sep), "split:host", ("split", s, sep))
        parts = [p for p in re.split(re.escape(sep), s + sep + t)]
        if all(sep not in p for p in parts) and any(parts) and sep.join(parts):
            lst = "[" + ", ".join(S(p, r) for p in parts) + "]"
            R.expect("split(join(%s, %s), escape_pattern(%s)) == %s" % (lst, Sp, Sp, lst), True, "join-split:inverse", ("js", tuple(parts), sep))
            R.expect("join(%s, %s)" % (lst, Sp), sep.join(parts), "join:host", ("join", tuple(parts), sep))
    # 2. replace
    if t:
        R.expect("replace(%s, %s, %s)" % (Ss, St, Sp), s.replace(t, sep), "replace:host", ("repl", s, t, sep))
        R.expect("replace(%s + %s + %s, %s, 'XY')" % (Ss, St, Ss, St), (s + t + s).replace(t, "XY"), "replace:host-planted", ("repl2", s, t))
        R.expect("replace(%s + %s + %s + %s, %s, '')" % (St, Ss, St, St, St), (t + s + t + t).replace(t, ""), "replace:host-delete", ("repl3", s, t))
        R.expect("replace(%s + %s, %s, %s + %s)" % (Ss, St, St, St, St), (s + t).replace(t, t + t), "replace:host-grow", ("repl4", s, t))
    # 3. reverse
    R.expect("reverse(%s)" % Ss, s[::-1], "reverse:host", ("rev", s))
    R.expect("reverse(reverse(%s)) == %s" % (Ss, Ss), True, "reverse:involution", ("rev2", s))
    # 4. idempotence
    for fn, host in (("upper", str.upper), ("lower", str.lower), ("trim", str.strip)):
        R.expect("%s(%s(%s)) == %s(%s)" % (fn, fn, Ss, fn, Ss), True, "%s:idempotent" % fn, (fn, s))
        R.expect("%s(%s)" % (fn, Ss), host(s), "%s:host" % fn, (fn + "h", s))
    # 5. containment family
    has = t in s
    R.expect("contains(%s, %s)" % (Ss, St), has, "contains:host", ("cont", s, t))
    R.expect("%s in %s" % (St, Ss), has, "in:host", ("in", s, t))
    R.expect("find(%s, %s)" % (Ss, St), s.find(t), "find:host", ("find", s, t))
    R.expect("(find(%s, %s) >= 0) == contains(%s, %s)" % (Ss, St, Ss, St), True, "contains-find:consistent", ("cf", s, t))
    R.expect("contains(%s + %s + %s, %s)" % (Ss, St, Sp, St), True, "contains:planted", ("contp", s, t, sep))
    R.expect("%s contains %s" % (Ss, St), has, "contains-operator:host", ("conto", s, t))
    R.expect("starts_with(%s, %s)" % (Ss, St), s.startswith(t), "starts_with:host", ("sw", s, t))
    R.expect("ends_with(%s, %s)" % (Ss, St), s.endswith(t), "ends_with:host", ("ew", s, t))
    R.expect("starts_with(%s + %s, %s) and ends_with(%s + %s, %s)" % (St, Ss, St, Ss, St, St), True, "starts-ends:planted", ("swp", s, t))
    R.expect("starts_with(%s, %s) == (substr(%s, 0, length(%s)) == %s)" % (Ss, St, Ss, St, St), True, "starts_with-substr:consistent", ("sws", s, t))
    # 6. length, chr/ord
    R.expect("length(%s + %s) == length(%s) + length(%s)" % (Ss, St, Ss, St), True, "length:additive", ("len", s, t))
    R.expect("length(%s)" % Ss, len(s), "length:host", ("lenh", s))
    if s:
        c = s[0]
        R.expect("chr(ord(%s)) == %s" % (S(c, r), S(c, r)), True, "chr-ord:inverse", ("chrord", c))
        R.expect("ord(%s)" % S(c, r), ord(c), "ord:host", ("ord", c))
    R.prefix = ""


def fmt_value(v):
    """text s() inserts for a value"""
    if isinstance(v, str):
        return v
    if isinstance(v, bool):
        return "TRUE" if v else "FALSE"
    if isinstance(v, float):
        return repr(v)
    return str(v)


def apply_spec(text, spec):
    """spec: dict(left, zero, width, digits, hex)"""
    if spec.get("hex"):
        text = "%x" % int(text)
    elif spec.get("digits") is not None:
        text = str(round(float(text), spec["digits"]))
    w = spec.get("width", 0)
    while len(text) < w:
        if spec.get("zero"):
            text = "0" + text
        elif spec.get("left"):
            text = text + " "
        else:
            text = " " + text
    return text


def spec_text(spec):
    out = "#"
    if spec.get("left"):
        out += "-"
    if spec.get("zero"):
        out += "0"
    if spec.get("width"):
        out += str(spec["width"])
    if spec.get("digits") is not None:
        out += "." + str(spec["digits"])
    if spec.get("hex"):
        out += "x"
    return out if out != "#" else ""


def gen_spec(r, v):
    spec = {}
    k = r.random()
    if k < 0.3:
        return spec
    if isinstance(v, int) and not isinstance(v, bool) and v >= 0 and r.random() < 0.25:
        spec["hex"] = True
    elif isinstance(v, float) and r.random() < 0.5:
        spec["digits"] = r.choice([0, 1, 2, 3])
    if r.random() < 0.7:
        spec["width"] = r.randint(1, 9)
        m = r.random()
        if m < 0.3:
            spec["left"] = True
        elif m < 0.55 and not isinstance(v, str):
            spec["zero"] = True
    return spec


def template_cases(R, r):
    ctx = R.ctx
    # values: adversarial strings (quotes, braces, placeholders), ints, decimals without rounding ties
    vals = []
    names = ["va", "vb", "vc", "vd"]
    for n in names:
        k = r.random()
        if k < 0.45:
            v = r.choice(["abc", "it's", "a}b", "{vb}", "{", "}", "a{0}b", "'", "\"", "x y", "", "é", "a\\b", "#5", "a#b"]) if r.random() < 0.7 else gen_str(r, 6)
        elif k < 0.75:
            v = r.choice([0, 1, 12, 255, 4096, -7, 10**12])
        else:
            v = r.choice([1.2345678, 0.5, 3.14159, 2.0, 100.125, -1.5])
        vals.append(v)
    segs = []
    expected = []
    lits = ["", " ", "x = ", "; ", "}", " } ", "a#b", "100%", "'", "\"", "\\", "\n", "é ", "# no", "] [", ":"]
    for i in range(r.randint(1, 4)):
        lit = r.choice(lits)
        segs.append(lit)
        expected.append(lit)
        j = r.randrange(len(names))
        spec = gen_spec(r, vals[j])
        segs.append("{" + names[j] + spec_text(spec) + "}")
        expected.append(apply_spec(fmt_value(vals[j]), spec))
    tail = r.choice(lits)
    segs.append(tail)
    expected.append(tail)
    template = "".join(segs)
    want = "".join(expected)
    defs = "; ".join("def %s = %s" % (n, S(v, r) if isinstance(v, str) else (gv.dec_literal(v) if isinstance(v, float) else str(v)))
                     for n, v in zip(names, vals))
    R.expect("%s; s(%s)" % (defs, S(template, r)), want, "s:template", ("s", template, tuple(map(str, vals))))
    # sprintf with positional placeholders
    segs = []
    expected = []
    for i in range(r.randint(1, 4)):
        lit = r.choice(lits)
        j = r.randrange(len(vals))
        spec = gen_spec(r, vals[j])
        segs.append(lit + "{" + str(j) + spec_text(spec) + "}")
        expected.append(lit + apply_spec(fmt_value(vals[j]), spec))
    template = "".join(segs) + tail
    want = "".join(expected) + tail
    args = ", ".join(S(v, r) if isinstance(v, str) else (gv.dec_literal(v) if isinstance(v, float) else "(%d)" % v) for v in vals)
    R.expect("sprintf(%s, %s)" % (S(template, r), args), want, "sprintf:template", ("sprintf", template, tuple(map(str, vals))))
    # many positional arguments (two-digit placeholder numbers)
    if r.random() < 0.3:
        nargs = r.randint(11, 14)
        vals2 = [r.choice([7, 12, "abc", "x y", 2.5, 0, "{1}", 255]) for _ in range(nargs)]
        order = [r.randrange(nargs) for _ in range(r.randint(3, 8))] + [10, nargs - 1, 1, 0]
        r.shuffle(order)
        parts, wantp = [], []
        for j2 in order:
            sp = gen_spec(r, vals2[j2])
            parts.append("{" + str(j2) + spec_text(sp) + "};")
            wantp.append(apply_spec(fmt_value(vals2[j2]), sp) + ";")
        args2 = ", ".join(S(v, r) if isinstance(v, str) else (gv.dec_literal(v) if isinstance(v, float) else "(%d)" % v) for v in vals2)
        R.expect("sprintf(%s, %s)" % (S("".join(parts), r), args2), "".join(wantp), "sprintf:many-arguments", ("sprintf-many", "".join(parts), tuple(map(str, vals2))))
    # placeholders whose expression interpolates itself (a function that formats with s / sprintf): the outer
    # placeholder's own format applies to what the inner call returned
    j, k2 = r.randrange(len(names)), r.randrange(len(names))
    inner_spec = gen_spec(r, vals[j])
    inner_text = "<" + apply_spec(fmt_value(vals[j]), inner_spec) + ">"
    outer_spec = {"width": r.randint(0, 14)}
    if r.random() < 0.4:
        outer_spec["left"] = True
    other_spec = gen_spec(r, vals[k2])
    helper = r.choice(["def inner_() s(%s)" % S("<{" + names[j] + spec_text(inner_spec) + "}>", r),
                       "def inner_() sprintf(%s, %s)" % (S("<{0" + spec_text(inner_spec) + "}>", r), names[j])])
    template = "[{inner_()" + spec_text(outer_spec) + "}|{" + names[k2] + spec_text(other_spec) + "}|{inner_()}]"
    want = "[" + apply_spec(inner_text, outer_spec) + "|" + apply_spec(fmt_value(vals[k2]), other_spec) + "|" + inner_text + "]"
    R.expect("%s; %s; s(%s)" % (defs, helper, S(template, r)), want, "s:nested-interpolation", ("s-nested", template, helper, tuple(map(str, vals))))
    # one argument that is a container is one argument: its rendered value is inserted
    lit, shown = r.choice([("[1, 2]", "[1, 2]"), ("[]", "[]"), ("[[1, 2], [3]]", "[[1, 2], [3]]"), ("['a']", "['a']"), ("<<2, 1>>", "<<1, 2>>"), ("<<<1 => 2>>>", "<<<1 => 2>>>"),
                           ("[[]]", "[[]]"), ("['x', 'y', 'z']", "['x', 'y', 'z']"), ("[7]", "[7]")])
    R.expect("sprintf('<{0}>', %s)" % lit, "<%s>" % shown, "sprintf:one-container-argument", ("sprintf-container", lit))
    R.expect("def v_ = %s; [s('<{v_}>'), sprintf('{0}|{1}', v_, 1)]" % lit, ["<%s>" % shown, "%s|1" % shown], "s:container-value", ("s-container", lit))
    # placeholders that hold an expression laid out with blanks, tabs and line breaks (inside the braces, and between them)
    ws = r.choice([" ", "\n", "\t", "\r\n", "  \n  ", "\n\n"])
    x, y = r.randint(0, 50), r.randint(1, 9)
    sp = {"width": r.randint(1, 6)} if r.random() < 0.5 else {}
    template = "a%s{vx_ +%svy_%s}%sb{%svx_%s}{[vx_,%svy_]}" % (ws, ws, spec_text(sp), ws, ws, ws, ws)
    want = "a%s%s%sb%d[%d, %d]" % (ws, apply_spec(str(x + y), sp), ws, x, x, y)
    R.expect("def vx_ = %d; def vy_ = %d; s(%s)" % (x, y, S(template, r)), want, "s:expression-layout", ("s-layout", template, x, y))
    R.expect("sprintf(%s, %d, %d)" % (S("a%s{0%s}%s{1}" % (ws, spec_text(sp), ws), r), x, y), "a%s%s%s%d" % (ws, apply_spec(str(x), sp), ws, y), "sprintf:layout", ("sprintf-layout", ws, x, y))


def run_shard(spec, ctx):
    if spec["kind"] == "qualified":
        from cklmon import matrix
        return matrix.unbound_names_in_modules(ctx, "C18", ["String"], sample=spec.get("sample"))
    R = Runner(ctx)
    r = ctx.rng
    if spec["kind"] == "laws":
        for i in range(spec["n"]):
            s = gen_str(r)
            t = gen_str(r, 3) if r.random() < 0.6 else (s[r.randrange(len(s)):][:r.randint(1, 3)] if s else "")
            sep = r.choice(SEPS)
            if i % 40 == 11:
                # long subjects (beyond any chunk size) with runs of self-overlapping search strings
                unit = r.choice(["a", "ab", " ", "aba", "x,"])
                t = r.choice([unit * 2, unit, unit * 2 + unit[:1]])
                n_ = r.choice([100, 127, 128, 129, 200, 257, 600])
                s = "".join(r.choice([unit, unit, unit * r.randint(2, 5), "x", "y" * r.randint(1, 3), sep]) for _ in range(n_))[:r.choice([130, 260, 520, 1100])]
                R.ctx.count("long_subjects")
            law_cases(R, r, s, t, sep, hist=(i % 4 == 3))
        ctx.sample({"law": "join(split(s, escape_pattern(sep)), sep) == s", "s": "a.b*c", "sep": "*"})
    elif spec["kind"] == "templates":
        for _ in range(spec["n"]):
            template_cases(R, r)
        ctx.sample({"template": "x = {va#-5}; {vb#.2}"})
    else:
        fixed = ["", "a", "ab", "a.b", "a|b", "a*b", "(a)", "a\\b", "'a", "a\tb", "a b", "a  b", "A", "é", ".", "*", "ab.ab"]
        for s in fixed:
            for t in fixed:
                law_cases(R, r, s, t, r.choice(SEPS))
        for sep in SEPS:
            law_cases(R, r, "x" + sep + "y" + sep + sep + "z", sep, sep)
        # words / lines on interior single separators
        for _ in range(300):
            toks = ["".join(r.choice("abcxyz0.,;'") for _ in range(r.randint(1, 4))) for _ in range(r.randint(1, 5))]
            lst = "[" + ", ".join(S(x, r) for x in toks) + "]"
            R.expect("words(%s)" % S(" ".join(toks), r), toks, "words:host", ("words", tuple(toks)))
            R.expect("unwords(%s)" % lst, " ".join(toks), "unwords:host", ("unwords", tuple(toks)))
            R.expect("lines(%s)" % S("\n".join(toks), r), toks, "lines:host", ("lines", tuple(toks)))
            R.expect("unlines(%s)" % lst, "\n".join(toks), "unlines:host", ("unlines", tuple(toks)))
            R.expect("unwords(words(%s)) == %s" % (S(" ".join(toks)), S(" ".join(toks))), True, "words-unwords:inverse", ("wu", tuple(toks)))
        for n in list(range(32, 127)) + [160, 233, 8364, 26085, 65, 97, 0x1F600]:
            R.expect("ord(chr(%d))" % n, n, "ord-chr:inverse", ("ordchr", n))
        ctx.extras["fixed_done"] = True


def finalize(merged, tier):
    c = merged["counters"]
    reasons = []
    if c.get("long_subjects", 0) == 0:
        reasons.append("no long subjects")
    if c.get("evaluations", 0) == 0 or c.get("evaluations_on_edited_strings", 0) == 0:
        reasons.append("no evaluations (or none on edited strings)")
    if not any(ex.get("fixed_done") for spec, ex in merged["shard_docs"]):
        reasons.append("fixed pair set not completed")
    return {}, reasons
