"""C16 — only documented mutators change their arguments; aliases see mutations.

Deciding monitors: M5 (argument snapshots around every library call, on the
C13 call matrix and on operator forms); a heap-model differential for alias
programs (Python object identity as the reference heap); independence probes
for constructing operations (mutate the result, inputs must not change, and
vice versa)."""
import itertools

from cklmon import core, matrix, mutation
from cklmon.core import observe
from cklgen import pool as P

RULE = ("(1) every library callee x pool tuples of arity <= 2 (+ sampled triples) and every operator/indexing "
        "form x pool, each argument snapshotted (rendered content + container identity) before and after "
        "the call; (2) alias programs: 3..5 variables bound to shared lists/sets/maps/objects, random "
        "aliasing, nesting, mutation through variables, parameters, nested paths and closures, final "
        "state of every variable compared with a reference heap; (3) independence probes for ~45 "
        "constructing operations; a case is one call tuple / program / probe; non-trivial = at least one "
        "container argument or one mutation; distinct by tuple/program text")
ASSUMPTIONS = [
    "same-type conversions (list(l), set(s), map(m)), identity and selectors (if_null, min, first, element access) "
    "return their argument by design and are not 'constructing' operations",
    "streams are stateful by nature and are snapshotted by identity only",
    "string element assignment is not claimed either way",
    "documented mutators: append, append_all, insert_at, delete_at, remove, put, element and member assignment",
]
SHARD_TIMEOUT = {"quick": 400, "thorough": 3000}
BUDGET = 300000


def plan(tier, seed):
    n = 12 if tier == "quick" else 32
    specs = [{"kind": "calls", "part": i, "of": n} for i in range(n)]
    specs += [{"kind": "forms", "part": i, "of": 2} for i in range(2)]
    specs += [{"kind": "alias", "n": 700 if tier == "quick" else 8000} for _ in range(4 if tier == "quick" else 12)]
    specs += [{"kind": "probes"}, {"kind": "suite"}]
    return specs


# forms that contain no call of user code and no assignment: whatever their operands are, they leave them as they were
FORM_TEXT = {f[0]: f[1] for f in P.FORMS}
PURE_FORMS = {"add", "sub", "mul", "div", "mod", "eq", "ne", "lt", "le", "gt", "ge", "is", "and", "or", "not", "neg", "pos", "in", "not-in", "is-in", "chain",
              "deref", "deref-default", "slice", "slice-open", "member", "for", "for-keys", "for-entries", "for-destr", "for-expr", "listcomp", "listcomp-keys",
              "listcomp-entries", "listcomp-if", "listcomp-prod", "listcomp-par", "setcomp", "setcomp-values", "setcomp-prod", "setcomp-par", "mapcomp",
              "mapcomp-entries", "list-spread", "call-spread", "call-spread2", "list-lit", "set-lit", "map-lit", "obj-lit", "def-destr", "assign-destr", "error",
              "if", "while", "pipe", "interp", "interp-fmt", "interp-digits", "interp-hex", "is-empty", "is-zero", "is-negative", "is-numerical", "is-alnum-len",
              "is-date", "is-date-hour", "is-time", "is-string", "is-not-list", "starts", "ends-not", "contains", "matches", "return", "catch-value",
              "compound-assign", "compound-mul", "string-of", "string-of-list", "map-key", "set-member", "return-bare", "deep-parens", "deep-list"}


def run_matrix(spec, ctx, cases):
    import ckl.functions
    mon = mutation.MONITOR
    mon.install()
    it, out = core.new_interpreter(secure=False, legacy=True, stdin_text="in1\nin2\n")
    n = 0
    for callee, k, prog, names in cases:
        env = ckl.functions.Environment()
        before = len(mon.findings)
        form_text = FORM_TEXT.get(callee[5:]) if k == "form" and callee[5:] in PURE_FORMS else None
        if form_text is not None and prog.endswith("; " + form_text):
            # an operator / indexing / iteration form is no call: its operands are looked at directly, before and after
            pre = prog[:-len(form_text) - 2]
            o0 = observe(lambda: it.interpret(pre, "c16", env), BUDGET)
            if o0.kind == "value":
                held = {v: env.map[v] for v in ("a", "b", "c") if v in env.map}
                snaps = {v: mutation.snap(x) for v, x in held.items()}
                o = observe(lambda: it.interpret(form_text, "c16", env), BUDGET)
                ctx.count("form_operand_snapshots", len(snaps))
                for v, x in held.items():
                    after = mutation.snap(x)
                    if after != snaps[v]:
                        ctx.violation("C16:form-changed-operand:%s:%s" % (callee[5:], v), "%s: operand %s was %s before and is %s afterwards" % (
                            prog, v, core.safe_str(snaps[v], 150), core.safe_str(after, 150)), {"src": prog})
            else:
                o = o0
        else:
            o = observe(lambda: it.interpret(prog, "c16", env), BUDGET)
        n += 1
        ctx.case((callee, names), nontrivial=any(x.split("-")[0] in ("list", "set", "map", "object") for x in names))
        ctx.count("outcome_" + o.kind)
        if o.kind == "hang":
            it, out = core.new_interpreter(secure=False, legacy=True, stdin_text="in1\nin2\n")
        for name, argpos, what in mon.findings[before:]:
            ctx.violation("C16:mutated-argument:%s:arg%d" % (name, argpos), "%s: %s" % (prog, what), {"src": prog})
        if n % 2000 == 0:
            out.output = ""
    ctx.count("monitored_calls", mon.calls)
    ctx.count("mutation_snapshots", mon.snapshots)
    ctx.count("nested_library_calls", mon.nested_calls)
    ctx.extras["hook_ok"] = mon.hook_ok


# ---------------------------------------------------------------------------
# (3) independence probes
# ---------------------------------------------------------------------------
# (name, setup, constructing expression over inputs x[, y], mutation of result r, inputs)
L = "[1, 2, 3]"
PROBES = [
    ("list+list", "def x = [1, 2]; def y = [3]", "x + y", "append(r, 9)", ["x", "y"]),
    ("list+elem", "def x = [1, 2]; def y = 3", "x + y", "r[0] = 9", ["x"]),
    ("elem+list", "def x = [1, 2]; def y = 0", "y + x", "append(r, 9)", ["x"]),
    ("set+set", "def x = <<1, 2>>; def y = <<3>>", "x + y", "append(r, 9)", ["x", "y"]),
    ("set+elem", "def x = <<1, 2>>; def y = 3", "x + y", "append(r, 9)", ["x"]),
    ("list-list", "def x = [1, 2, 3]; def y = [2]", "x - y", "append(r, 9)", ["x", "y"]),
    ("set-set", "def x = <<1, 2, 3>>; def y = <<2>>", "x - y", "append(r, 9)", ["x", "y"]),
    ("list*int", "def x = [1, 2]; def y = 2", "x * y", "append(r, 9)", ["x"]),
    ("list*1", "def x = [1, 2]; def y = 1", "x * y", "append(r, 9)", ["x"]),
    ("slice", "def x = %s" % L, "x[0 to 2]", "append(r, 9)", ["x"]),
    ("slice-all", "def x = %s" % L, "x[0 to *]", "r[0] = 9", ["x"]),
    ("sublist", "def x = %s" % L, "sublist(x, 0)", "append(r, 9)", ["x"]),
    ("sublist2", "def x = %s" % L, "sublist(x, 0, 3)", "delete_at(r, 0)", ["x"]),
    ("sorted", "def x = [3, 1, 2]", "sorted(x)", "append(r, 9)", ["x"]),
    ("sorted-sorted-input", "def x = [1, 2, 3]", "sorted(x)", "delete_at(r, 0)", ["x"]),
    ("sorted-set", "def x = <<3, 1>>", "sorted(x)", "append(r, 9)", ["x"]),
    ("reverse_list", "def x = %s" % L, "reverse_list(x)", "append(r, 9)", ["x"]),
    ("unique", "def x = [1, 1, 2]", "unique(x)", "append(r, 9)", ["x"]),
    ("unique-nodup", "def x = %s" % L, "unique(x)", "delete_at(r, 0)", ["x"]),
    ("filter", "def x = %s" % L, "filter(x, fn(e) TRUE)", "append(r, 9)", ["x"]),
    ("map_list", "def x = %s" % L, "map_list(x, identity)", "append(r, 9)", ["x"]),
    ("flatten", "def x = [[1], 2]", "flatten(x)", "append(r, 9)", ["x"]),
    ("flatten-flat", "def x = %s" % L, "flatten(x)", "append(r, 9)", ["x"]),
    ("zip", "def x = [1, 2]; def y = [3, 4]", "zip(x, y)", "append(r, 9)", ["x", "y"]),
    ("zip_map", "def x = [1, 2]; def y = [3, 4]", "zip_map(x, y)", "put(r, 9, 9)", ["x", "y"]),
    ("chunks", "def x = %s" % L, "chunks(x, 5)", "append(r[0], 9)", ["x"]),
    ("chunks2", "def x = [1, 2, 3, 4]", "chunks(x, 2)", "append(r, 9)", ["x"]),
    ("pairs", "def x = %s" % L, "pairs(x)", "append(r, 9)", ["x"]),
    ("grouped", "def x = [1, 1, 2]", "grouped(x)", "append(r[0], 9)", ["x"]),
    ("enumerate", "def x = %s" % L, "enumerate(x)", "append(r, 9)", ["x"]),
    ("permutations", "def x = %s" % L, "permutations(x)", "append(r, 9)", ["x"]),
    ("union", "def x = <<1>>; def y = <<2>>", "union(x, y)", "append(r, 9)", ["x", "y"]),
    ("intersection", "def x = <<1, 2>>; def y = <<2>>", "intersection(x, y)", "append(r, 9)", ["x", "y"]),
    ("diff", "def x = <<1, 2>>; def y = <<2>>", "diff(x, y)", "append(r, 9)", ["x", "y"]),
    ("symmetric_diff", "def x = <<1, 2>>; def y = <<2>>", "symmetric_diff(x, y)", "append(r, 9)", ["x", "y"]),
    ("spread-list", "def x = %s" % L, "[...x]", "append(r, 9)", ["x"]),
    ("spread-call", "def x = %s" % L, "(fn(args...) args...)(...x)", "append(r, 9)", ["x"]),
    ("listcomp", "def x = %s" % L, "[e for e in x]", "append(r, 9)", ["x"]),
    ("setcomp", "def x = <<1, 2>>", "<<e for e in x>>", "append(r, 9)", ["x"]),
    ("mapcomp", "def x = <<<1 => 2>>>", "<<<e[0] => e[1] for e in entries x>>>", "put(r, 9, 9)", ["x"]),
    ("list-of-set", "def x = <<1, 2>>", "list(x)", "append(r, 9)", ["x"]),
    ("set-of-list", "def x = [1, 2]", "set(x)", "append(r, 9)", ["x"]),
    ("map-of-list", "def x = [[1, 2]]", "map(x)", "put(r, 9, 9)", ["x"]),
    ("first_n", "def x = %s" % L, "first_n(x, 3)", "append(r, 9)", ["x"]),
    ("last_n", "def x = %s" % L, "last_n(x, 3)", "append(r, 9)", ["x"]),
    ("rest", "def x = %s" % L, "rest(x)", "append(r, 9)", ["x"]),
    ("substitute", "def x = %s" % L, "substitute(x, 0, 7)", "append(r, 9)", ["x"]),
    ("interval", "def x = 3", "interval(x)", "append(r, 9)", ["x"]),
    ("range", "def x = 3", "range(x)", "append(r, 9)", ["x"]),
    ("split", "def x = 'a b'", "split(x)", "append(r, 9)", ["x"]),
    ("new", "def x = <*a = [1]*>", "new(x)", "r->a = 9", ["x"]),
    ("sample", "def x = [1, 2, 3]", "sample(x, 2)", "append(r, 9)", ["x"]),
    ("choices", "def x = [1, 2, 3]", "choices(x, 2)", "append(r, 9)", ["x"]),
    ("append_all-items", "def x = [1]; def y = [2, 3]", "append_all([0], y)", "append(r, 9)", ["y"]),
    ("compound-add", "def x = [1, 2]; def y = x", "(y += [3])", "append(r, 9)", ["x"]),
]


# member / element assignment changes exactly the targeted container: (program, expected text)
PROTO = "def p = <*count = 0, items = [1], step = fn(self) do self->count += 1; self->count end*>; def a = <*_proto_ = p*>; def b = <*_proto_ = p*>; "
CLASSES = ("def Base = <*_init_ = fn(self, x) do self->x = x end*>; def Mid = <*_proto_ = Base*>; def Leaf = <*_proto_ = Mid*>; "
           "def Own = <*_proto_ = Base, tag = 'own', _init_ = fn(self, x) do self->x = x end*>; ")
TARGETED = [
    (PROTO + "a->count += 1; [a->count, b->count, p->count]", "[1, 0, 0]"),
    (PROTO + "a->count -= 2; a->count *= 3; [a->count, b->count, p->count]", "[-6, 0, 0]"),
    (PROTO + "a['count'] += 5; [a->count, b->count, p->count]", "[5, 0, 0]"),
    (PROTO + "a->count = 7; [a->count, b->count, p->count]", "[7, 0, 0]"),
    (PROTO + "[a->step(), a->step(), b->step(), p->count]", "[1, 2, 1, 0]"),
    (PROTO + "a->count /= 1; a->count %= 5; [a->count, b->count, p->count, ls(a) == ls(b)]", "[0, 0, 0, FALSE]"),
    (PROTO + "p->count += 10; [a->count, b->count, p->count]", "[10, 10, 10]"),
    (PROTO + "a->items += [2]; [a->items, b->items, p->items]", "[[1, 2], [1], [1]]"),
    (PROTO + "append(a->items, 2); [a->items, b->items, p->items]", "[[1, 2], [1, 2], [1, 2]]"),          # shared by reference
    (PROTO + "def c = <*_proto_ = a*>; c->count += 1; [c->count, a->count, p->count]", "[1, 0, 0]"),
    # new() makes an instance: the class it is given, and the classes that one inherits from, stay as they were
    (CLASSES + "def before = [ls(Base), ls(Mid), ls(Leaf), string(Base), string(Mid), string(Leaf)]; def i1 = new(Leaf, 2); def i2 = new(Mid, 1); def i3 = new(Base, 3); def i4 = new(Own, 4); "
     "[before == [ls(Base), ls(Mid), ls(Leaf), string(Base), string(Mid), string(Leaf)], i3->x, i4->x, i4->tag, Own->x, ls(Own) == ['_proto_', 'tag', '_init_']]", "[TRUE, 3, 4, 'own', NULL, TRUE]"),
    (CLASSES + "def i1 = new(Leaf, 2); def i2 = new(Leaf, 5); i1->mark = 'one'; [i2->mark, Leaf->mark, Mid->mark, Base->mark, i1->mark]", "[NULL, NULL, NULL, NULL, 'one']"),
    (CLASSES + "def i1 = new(Base, 1); def i2 = new(Base, 2); [i1->x, i2->x, Base->x]", "[1, 2, NULL]"),
    ("def m = <<<'k' => 1>>>; def n = m; n['k'] += 1; [m, n]", "[<<<'k' => 2>>>, <<<'k' => 2>>>]"),
    ("def collect(x, acc = []) do append(acc, x); acc end; [collect(1), collect(2)]", "[[1], [2]]"),
    ("def l = [1]; def [p, q] = l; [l, p, q]", "[[1], 1, NULL]"),
    ("def l = [1]; def p = 0; def q = 0; def r = 0; [p, q, r] = l; [l, p, q, r]", "[[1], 1, NULL, NULL]"),
    ("def s = <<1>>; def [p, q] = s; [s, p, q]", "[<<1>>, 1, NULL]"),
    ("def l = [1]; def s = << l >>; append(l, 2); [s, l]", "[<<[1, 2]>>, [1, 2]]"),
    ("def l = [1]; def s = <<>>; append(s, l); for e in s do append(e, 9) end; [s, l]", "[<<[1, 9]>>, [1, 9]]"),
    ("def m = <<<1 => 2>>>; def s = set([m]); m[5] = 6; [s, m]", "[<< <<<1 => 2, 5 => 6>>> >>, <<<1 => 2, 5 => 6>>>]"),
    ("def inner = <<1>>; def outer = << inner >>; append(inner, 2); string(outer)", "'<< <<1, 2>> >>'"),
    ("def tally(k, m = <<<>>>) do m[k] = 1; m end; [tally('a'), tally('b')]", "[<<<'a' => 1>>>, <<<'b' => 1>>>]"),
    ("def grow(s = <<>>, o = <**>, l = [0, 0]) do append(s, 1); o->n = 1; l[0] += 1; [s, o, l] end; grow(); grow()", "[<<1>>, <*n=1*>, [1, 0]]"),
    ("def mk() fn(x, acc = [0]) do append(acc, x); acc end; def f = mk(); def g = mk(); [f(1), g(2), f(3)]", "[[0, 1], [0, 2], [0, 3]]"),
    ("def l = [(x * 37) % 140 for x in range(140)]; def before = string(l); [median(l), median_low(l), median_high(l), mean(l), min(l), max(l), sum(l), sorted(l)[0]]; string(l) == before", "TRUE"),
    ("def l = [(x * 37) % 70 for x in range(70)]; def keep = [l]; median(l); sorted(l); unique(l); reverse_list(l); keep[0] == [(x * 37) % 70 for x in range(70)]", "TRUE"),
    ("def l = [[1], [1]]; l[0][0] += 1; l", "[[2], [1]]"),
    ("def inner = [1]; def l = [inner, inner]; l[0][0] += 1; [l, inner]", "[[[2], [2]], [2]]"),
    ("def l = [1, 2]; def f(items...) do append(items..., 99); items... end; [f(...l), l]", "[[1, 2, 99], [1, 2]]"),
    ("def l = [1, 2]; def keep = NULL; def f(items...) do keep = items...; 0 end; f(...l); append(l, 3); [keep, l]", "[[1, 2], [1, 2, 3]]"),
    ("def l = [1, 2]; apply(fn(args...) append(args..., 9), l); l", "[1, 2]"),
    ("def s = <<1, 2>>; def f(items...) do append(items..., 99); items... end; [f(...s), s]", "[[1, 2, 99], <<1, 2>>]"),
    ("def m = <<<'a' => 1>>>; def f(a = 0, rest...) do a += 1; [a, rest...] end; [f(...m), m]", "[[2, []], <<<'a' => 1>>>]"),
]


def run_probes(spec, ctx):
    import ckl.functions
    it, out = core.new_interpreter(secure=True, legacy=True)

    def ev(src):
        env = ckl.functions.Environment()
        return observe(lambda: it.interpret(src, "c16", env), BUDGET)

    for src, want in TARGETED:
        env_ = ckl.functions.Environment()
        o = observe(lambda: it.interpret(src, "c16", env_), 60000000)
        ctx.count("probe_evaluations")
        ctx.count("targeted_assignment_programs")
        ctx.case(("targeted", src))
        if o.kind != "value":
            ctx.violation("C16:targeted-assignment:error", "%s -> %s %s" % (src, o.kind, core.safe_str(o.exc, 100)), {"src": src})
        elif core.safe_str(o.value, 300) != want:
            ctx.violation("C16:targeted-assignment", "%s -> %s, exactly the targeted container changes: %s" % (src, core.safe_str(o.value, 300), want), {"src": src})

    for name, setup, expr, mut, inputs in PROBES:
        ins = "[" + ", ".join("string(%s)" % v for v in inputs) + "]"
        # result mutated -> inputs unchanged
        src = "%s; def before = %s; def r = %s; %s; %s == before" % (setup, ins, expr, mut, ins)
        o = ev(src)
        ctx.count("probe_evaluations")
        ctx.case(("probe", name, "result->input"))
        if o.kind != "value":
            ctx.violation("C16:probe-error:" + name, "%s -> %s %s" % (src, o.kind, core.safe_str(o.exc, 100)), {"src": src})
        elif str(o.value) != "TRUE":
            ctx.violation("C16:result-aliases-input:" + name, "%s: mutating the result changed an input" % src, {"src": src})
        # the same with every kind of in-place edit the result takes, and with two more values built by the same
        # expression: the one built before stays as it was, the one built afterwards is what the first one was
        for m2 in (mut, "r[0] = 'Z'", "append(r, 9)", "delete_at(r, 0)", "insert_at(r, 0, 'Y')", "remove(r, 1)", "r[0] = 'Z'; append(r, 8)"):
            again = "string(%s) == want" % expr if name not in ("sample", "choices", "compound-add") else "TRUE"
            src = ("%s; def before = %s; def r = %s; def r2 = %s; def want = string(r2); def done = do %s; 'edited' catch all 'not applicable' end; "
                   "[%s == before, string(r2) == want, %s, done]" % (setup, ins, expr, expr, m2, ins, again))
            o = ev(src)
            ctx.count("probe_evaluations")
            ctx.case(("probe", name, "result-edit", m2), nontrivial=True)
            if o.kind != "value":
                ctx.violation("C16:probe-error:" + name, "%s -> %s %s" % (src, o.kind, core.safe_str(o.exc, 100)), {"src": src})
                continue
            got = core.safe_str(o.value, 200)
            if got.endswith("'edited']"):
                ctx.count("probe_result_edits")
            if not got.startswith("[TRUE, TRUE, TRUE, "):
                which = ["result-aliases-input", "results-share-storage", "result-edit-shows-in-next-result"][[x.strip() for x in got[1:].split(",")].index("FALSE")] if "FALSE" in got else "probe-error"
                ctx.violation("C16:%s:%s" % (which, name), "%s -> %s: editing one result changed an input, another result, or the next result" % (src, got), {"src": src})
        # input mutated -> result unchanged
        for v in inputs:
            imut = {"append(r, 9)": "append(%s, 9)", "r[0] = 9": "append(%s, 9)", "delete_at(r, 0)": "append(%s, 9)",
                    "put(r, 9, 9)": "append(%s, 9)", "append(r[0], 9)": "append(%s, 9)", "r->a = 9": "%s->a = 9"}[mut] % v
            src = "%s; def r = %s; def before = string(r); %s; string(r) == before" % (setup, expr, imut)
            o = ev(src)
            ctx.count("probe_evaluations")
            ctx.case(("probe", name, "input->result", v))
            if o.kind != "value":
                # inputs that are not containers (ints, strings) cannot be mutated: skip silently
                if o.kind == "rte":
                    ctx.count("probe_input_not_mutable")
                    continue
                ctx.violation("C16:probe-error:" + name, "%s -> %s %s" % (src, o.kind, core.safe_str(o.exc, 100)), {"src": src})
            elif str(o.value) != "TRUE":
                ctx.violation("C16:input-aliases-result:" + name, "%s: mutating input %s changed the result" % (src, v), {"src": src})
    ctx.sample({"probe": PROBES[0][0], "program": "%s; def r = %s; %s" % (PROBES[0][1], PROBES[0][2], PROBES[0][3])})


# ---------------------------------------------------------------------------
# (2) alias programs against a reference heap (Python object identity)
# ---------------------------------------------------------------------------

class RefObj:
    """reference heap cell"""
    def __init__(self, kind, payload):
        self.kind = kind          # list | set | map | object
        self.payload = payload    # list / list(unique atoms) / dict / dict


def render(v, depth=0):
    """text as the language renders it (only ints, short strings and containers are used)"""
    if isinstance(v, RefObj):
        if depth > 6:
            return "..."
        if v.kind == "list":
            return "[" + ", ".join(render(x, depth + 1) for x in v.payload) + "]"
        if v.kind == "set":
            return "<<" + ", ".join(render(x) for x in sorted(v.payload)) + ">>"
        if v.kind == "map":
            inner = ", ".join("%s => %s" % (render(k), render(x, depth + 1)) for k, x in sorted(v.payload.items()))
            if inner.endswith(">"):
                inner += " "
            return "<<<" + inner + ">>>"
        if v.kind == "object":
            return "<*" + ", ".join("%s=%s" % (k, render(x, depth + 1)) for k, x in v.payload.items()) + "*>"
    if isinstance(v, str):
        return "'" + v + "'"
    return str(v)


def has_cycle(v, stack=()):
    if not isinstance(v, RefObj):
        return False
    if any(v is s for s in stack):
        return True
    kids = v.payload if v.kind in ("list",) else (list(v.payload.values()) if v.kind in ("map", "object") else [])
    return any(has_cycle(k, stack + (v,)) for k in kids)


def gen_alias_program(r):
    """returns (source lines, expected final renderings per variable)"""
    nvars = r.randint(3, 5)
    names = ["v%d" % i for i in range(nvars)]
    heap = {}
    lines = []
    ctr = [100]

    def fresh_atom():
        ctr[0] += 1
        return ctr[0]

    def new_container(kind=None):
        kind = kind or r.choice(["list", "list", "map", "object", "set"])
        if r.random() < 0.35:
            # made by a function whose body is a literal: every call makes a new container
            if kind == "list":
                return RefObj("list", [7, 8]), "mk_list()"
            if kind == "set":
                return RefObj("set", [7, 8]), "mk_set()"
            if kind == "map":
                return RefObj("map", {1: 70, 2: 80}), "mk_map()"
            return RefObj("object", {"p": 7}), "mk_obj()"
        if kind == "list":
            items = [fresh_atom() for _ in range(r.randint(0, 2))]
            return RefObj("list", items), "[" + ", ".join(map(str, items)) + "]"
        if kind == "set":
            items = [fresh_atom() for _ in range(r.randint(0, 2))]
            return RefObj("set", list(items)), "<<" + ", ".join(map(str, items)) + ">>"
        if kind == "map":
            return RefObj("map", {}), "<<<>>>"
        return RefObj("object", {}), "<**>"

    lines += ["def mk_list() [7, 8]", "def mk_set() <<7, 8>>", "def mk_map() <<<1 => 70, 2 => 80>>>", "def mk_obj() <*p = 7*>"]
    for n in names:
        if heap and r.random() < 0.35:
            m = r.choice(list(heap))
            heap[n] = heap[m]
            lines.append("def %s = %s" % (n, m))
        else:
            obj, srcx = new_container()
            heap[n] = obj
            lines.append("def %s = %s" % (n, srcx))
    # helper functions that mutate their parameter / a captured variable
    lines.append("def push(c, x) do append(c, x); c end")
    lines.append("def pusher(c) fn(x) append(c, x)")
    lines.append("def setkey(m, k, x) m[k] = x")
    nops = r.randint(3, 9)
    muts = 0
    for _ in range(nops):
        n = r.choice(names)
        o = heap[n]
        op = r.randrange(12)
        if o.kind == "list":
            if op < 3:
                a = fresh_atom()
                o.payload.append(a)
                lines.append(r.choice(["append(%s, %d)", "%s !> append(%d)", "push(%s, %d)", "pusher(%s)(%d)"]) % (n, a))
                muts += 1
            elif op < 5:
                m = r.choice(names)
                if heap[m].kind == "set":
                    continue
                o.payload.append(heap[m])
                if has_cycle(o):
                    o.payload.pop()
                    continue
                lines.append("append(%s, %s)" % (n, m))
                muts += 1
            elif op < 6 and o.payload:
                i = r.randrange(len(o.payload))
                a = fresh_atom()
                o.payload[i] = a
                lines.append("%s[%d] = %d" % (n, i - len(o.payload) if r.random() < 0.3 else i, a))
                muts += 1
            elif op < 7 and o.payload:
                i = r.randrange(len(o.payload))
                del o.payload[i]
                lines.append("delete_at(%s, %d)" % (n, i))
                muts += 1
            elif op < 8:
                i = r.randint(0, len(o.payload))
                a = fresh_atom()
                o.payload.insert(i, a)
                lines.append("insert_at(%s, %d, %d)" % (n, i, a))
                muts += 1
            elif op < 10 and o.payload:
                # mutate through a nested path
                idxs = [i for i, x in enumerate(o.payload) if isinstance(x, RefObj) and x.kind == "list"]
                if idxs:
                    i = r.choice(idxs)
                    a = fresh_atom()
                    o.payload[i].payload.append(a)
                    lines.append("append(%s[%d], %d)" % (n, i, a))
                    muts += 1
            else:
                # non-mutating operation whose result is dropped / rebinding that must not affect aliases
                m = r.choice(names)
                if heap[m].kind == "list" and r.random() < 0.5:
                    new = RefObj("list", list(o.payload) + list(heap[m].payload))
                    heap[n] = new
                    lines.append("%s = %s + %s" % (n, n, m))
                else:
                    lines.append(r.choice(["sorted(%s, key = string)", "reverse(%s)", "%s + [1]", "unique(%s)", "sublist(%s, 0)", "length(%s)"]) % n)
        elif o.kind == "set":
            if op < 6:
                a = fresh_atom()
                o.payload.append(a)
                lines.append(r.choice(["append(%s, %d)", "%s !> append(%d)", "push(%s, %d)"]) % (n, a))
                muts += 1
            elif op < 8 and o.payload:
                a = r.choice(o.payload)
                o.payload.remove(a)
                lines.append("remove(%s, %d)" % (n, a))
                muts += 1
            else:
                lines.append(r.choice(["%s + <<1>>", "list(%s)", "length(%s)"]) % n)
        elif o.kind == "map":
            if op < 5:
                k = r.choice([1, 2, 3])
                m = r.choice(names)
                val = heap[m] if r.random() < 0.5 else fresh_atom()
                had, oldv = k in o.payload, o.payload.get(k)
                o.payload[k] = val
                if has_cycle(o):
                    if had:
                        o.payload[k] = oldv
                    else:
                        del o.payload[k]
                    continue
                vs = m if isinstance(val, RefObj) else str(val)
                lines.append(r.choice(["%s[%d] = %s", "put(%s, %d, %s)", "setkey(%s, %d, %s)"]) % (n, k, vs))
                muts += 1
            elif op < 7 and o.payload:
                k = r.choice(list(o.payload))
                del o.payload[k]
                lines.append("remove(%s, %d)" % (n, k))
                muts += 1
            elif op < 9 and o.payload:
                ks = [k for k, x in o.payload.items() if isinstance(x, RefObj) and x.kind == "list"]
                if ks:
                    k = r.choice(ks)
                    a = fresh_atom()
                    o.payload[k].payload.append(a)
                    lines.append("append(%s[%d], %d)" % (n, k, a))
                    muts += 1
            else:
                lines.append("length(%s)" % n)
        else:  # object
            if op < 6:
                k = r.choice(["p", "q"])
                m = r.choice(names)
                val = heap[m] if r.random() < 0.5 else fresh_atom()
                had, oldv = k in o.payload, o.payload.get(k)
                o.payload[k] = val
                if has_cycle(o):
                    if had:
                        o.payload[k] = oldv
                    else:
                        del o.payload[k]
                    continue
                vs = m if isinstance(val, RefObj) else str(val)
                lines.append("%s->%s = %s" % (n, k, vs))
                muts += 1
            elif op < 9 and o.payload:
                ks = [k for k, x in o.payload.items() if isinstance(x, RefObj) and x.kind == "list"]
                if ks:
                    k = r.choice(ks)
                    a = fresh_atom()
                    o.payload[k].payload.append(a)
                    lines.append("append(%s->%s, %d)" % (n, k, a))
                    muts += 1
            else:
                lines.append("length(%s)" % n)
    final = "[" + ", ".join("string(%s)" % n for n in names) + "]"
    lines.append(final)
    expected = [render(heap[n]) for n in names]
    return lines, expected, muts


def run_alias(spec, ctx):
    import ckl.functions
    r = ctx.rng
    it, out = core.new_interpreter(secure=True, legacy=True)
    for _ in range(spec["n"]):
        lines, expected, muts = gen_alias_program(r)
        src = ";\n".join(lines)
        env = ckl.functions.Environment()
        o = observe(lambda: it.interpret(src, "c16", env), BUDGET)
        ctx.count("alias_programs")
        ctx.case(("alias", src), nontrivial=muts > 0)
        if o.kind != "value":
            ctx.violation("C16:alias-program-error:%s" % o.kind, "%s -> %s %s" % (src, o.kind, core.safe_str(o.exc, 120)), {"src": src})
            continue
        got = [x.value for x in o.value.value]
        if got != expected:
            idx = next(i for i, (g, e) in enumerate(zip(got, expected)) if g != e)
            ctx.violation("C16:alias-visibility", "%s\n-> variable #%d is %s, reference heap says %s" % (src, idx, got[idx], expected[idx]), {"src": src})
        ctx.sample_maybe({"program": src, "final": expected}, 0.01)


def run_shard(spec, ctx):
    kind = spec["kind"]
    if kind == "suite":
        from cklmon import suite
        return suite.run_suite(ctx, "C16", "M5,payload")
    if kind == "calls":
        callees = matrix.discover_callees(True)
        mine = [c for i, c in enumerate(callees) if i % spec["of"] == spec["part"]]
        run_matrix(spec, ctx, matrix.call_cases(mine, 3, ctx.rng, 60 if ctx.tier == "quick" else 1500))
    elif kind == "forms":
        def gen():
            i = -1
            for callee, k, prog, names in matrix.form_cases():
                if callee.endswith("-in-callback") or callee.endswith("-mutating-key"):
                    continue      # there the program's own callback changes the argument while the library call runs
                if len(names) == 3:
                    h = core.stable_hash(callee, names, ctx.seed) % 21952
                    if h >= (400 if ctx.tier == "quick" else 4000):
                        continue
                i += 1
                if i % spec["of"] == spec["part"]:
                    yield callee, k, prog, names
        run_matrix(spec, ctx, gen())
    elif kind == "alias":
        run_alias(spec, ctx)
    else:
        run_probes(spec, ctx)


def finalize(merged, tier):
    c = merged["counters"]
    reasons = []
    for k in ("monitored_calls", "mutation_snapshots", "alias_programs", "probe_evaluations"):
        if c.get(k, 0) == 0:
            reasons.append("monitor counter %s is zero" % k)
    if not all(ex.get("hook_ok", True) for spec, ex in merged["shard_docs"]):
        reasons.append("invoke hook could not be installed")
    if merged["counters"].get("suite_tests", 0) == 0 or merged["counters"].get("suite_report_missing", 0):
        reasons.append("M9: the repository suite under monitors produced no observations")
    return {}, reasons
