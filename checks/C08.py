"""C08 — rendering is canonical and data literals round-trip through print and parse.

Deciding monitors: shape predicates on the rendered text, agreement of the
rendering across construction orders, and the closed loop
  v -> str(v)/string(v) -> Interpreter.interpret -> v'   with v' == v, same
type, same text; M3 invariant "ValueInt.value is an int" on every int value
constructed while int-producing built-ins are driven."""
import re

from cklmon import core, valuelaws
from cklmon.core import observe
from cklgen import values as gv
from cklref import refvalue as rv

RULE = ("data values (NULL, booleans, ints, decimals incl. the magnitude ladder 5e-324..1.797e308 and "
        "-0.0, strings over a quote/escape/comment alphabet, patterns, lists/sets/maps nested to depth 3, "
        "sets in sets, sets as map keys/values) built through the Python API in permuted insertion orders "
        "and by evaluating permuted literal source; a case is one distinct abstract value; non-trivial = "
        "not a bare NULL/boolean; plus int-producing built-in calls under the int-payload invariant")
ASSUMPTIONS = [
    "dates, functions, objects, streams are not data literals (statement lists the data kinds)",
    "NaN/inf excluded (no literal syntax)",
    "sets holding both 1 and 1.0-like cross-kind-equal members are excluded from the canonical-text "
    "clause: which representative survives depends on insertion order by C06's int/decimal equality",
]

DATA_KINDS = ["null", "bool", "int", "dec", "str", "pat"]
INT_RE = re.compile(r"^-?\d+$")
DEC_RE = re.compile(r"^-?\d+\.\d+$")


def plan(tier, seed):
    n = 8 if tier == "quick" else 32
    specs = [{"kind": "roundtrip", "n": 1800 if tier == "quick" else 12000} for _ in range(n)]
    specs += [{"kind": "ladder"}, {"kind": "suite"}]
    specs += [{"kind": "mutrender", "n": 500 if tier == "quick" else 5000} for _ in range(2 if tier == "quick" else 6)]
    specs += [{"kind": "intpayload", "n": 400 if tier == "quick" else 4000} for _ in range(2 if tier == "quick" else 4)]
    return specs


def trigger_class(v, text):
    """mechanism key component for a failing data value"""
    k = v[0]
    if k == "dec":
        return "dec-exponent" if ("e" in text or "E" in text) else "dec"
    if k == "pat":
        return "pattern-slash" if not gv.pat_literal_ok(v[1]) else ("pattern-invalid-regex" if not _compiles(v[1]) else "pattern")
    if k == "str":
        return "string"
    if k in ("list", "set", "map"):
        sub = set()
        for x in (v[1] if k != "map" else [y for kv in v[1] for y in kv]):
            sub.add(trigger_class(x, render_of(x)))
        if k == "map" and any(kk == rv.NULL for kk, _ in v[1]):
            sub.add("map-null-key")
        for t in ("pattern-slash", "pattern-invalid-regex", "dec-exponent", "map-null-key", "nested-bracket"):
            if t in sub:
                return t
        if k in ("set", "map") and (">>>>" in text or "<<<<" in text or ">>>>>" in text):
            return "nested-bracket"
        if "<<<<" in text or ">>>>" in text:
            return "nested-bracket"
        return k
    return k


def render_of(av):
    try:
        return str(gv.to_ckl(av))
    except Exception:  # noqa
        return ""


def _compiles(t):
    try:
        re.compile(t)
        return True
    except Exception:  # noqa
        return False


def has_cross_kind_twins(v):
    """a set/map holding members that are ref_eq but of different kinds somewhere inside"""
    k = v[0]
    if k in ("list", "set"):
        return any(has_cross_kind_twins(x) for x in v[1])
    if k == "map":
        return any(has_cross_kind_twins(a) or has_cross_kind_twins(b) for a, b in v[1])
    return False


def shape_check(ctx, av, text):
    k = av[0]
    if k == "int" and not INT_RE.match(text):
        ctx.violation("C08:numeral:int", "int %r renders as %r" % (av[1], text), {"value": av})
    if k == "dec" and not DEC_RE.match(text):
        ctx.violation("C08:numeral:%s" % trigger_class(av, text), "decimal %r renders as %r" % (av[1], text), {"value": av})
    if k == "str":
        if not (len(text) >= 2 and text[0] == "'" and text[-1] == "'"):
            ctx.violation("C08:string-quote", "string %r renders as %r" % (av[1], text), {"value": av})
        for bad in ("\n", "\r", "\t"):
            if bad in text:
                ctx.violation("C08:string-escape", "rendered string %r contains a raw control character" % text, {"value": av})


def lex_one_string(text):
    import ckl.lexer
    lx = ckl.lexer.Lexer(text, "c08").scan()
    return [(t.type, t.value) for t in lx.tokens]


CORRUPT = """
def corrupt(x) do
  if is_string(x) then do if length(x) > 0 then x[0] = 'Q~' end
  elif is_list(x) then do for e in x do corrupt(e) end; append(x, 'Ql') end
  elif is_map(x) then do for k in keys x do corrupt(x[k]) end; x['Qk'] = 1 end
  elif is_set(x) then append(x, 'Qs')
  else NULL
end;
corrupt(res)
"""


def check_value(ctx, it, av, r):
    import ckl.functions
    ctx.case(av, nontrivial=av[0] not in ("null", "bool"))
    # two constructions (different insertion orders) must render identically
    v1 = gv.to_ckl(av, r)
    v2 = gv.to_ckl(av, r)
    o = observe(lambda: (str(v1), str(v2)), 400000)
    if o.kind != "value":
        ctx.violation("C08:render-raises:" + av[0], "str(%r) raised %s" % (av, core.safe_str(o.exc)), {"value": av})
        return
    t1, t2 = o.value
    ctx.count("renderings")
    if t1 != t2:
        ctx.violation("C08:canonical:" + av[0], "two constructions of %r render as %r and %r" % (av, t1, t2), {"value": av})
    # canonical through evaluated permuted literals
    trig = trigger_class(av, t1)
    shape_check(ctx, av, t1)
    if av[0] in ("list", "set", "map"):
        walk_shapes(ctx, av)
    if av[0] == "str":
        o = observe(lambda: lex_one_string(t1), 200000)
        ctx.count("string_relex")
        if o.kind != "value" or o.value != [("string", av[1])]:
            ctx.violation("C08:string-relex", "rendered %r re-lexes to %s" % (t1, core.safe_str(o.value if o.kind == "value" else o.exc)), {"value": av})
    # closed loop
    env = ckl.functions.Environment()
    o = observe(lambda: it.interpret(t1, "c08", env), 600000)
    ctx.count("roundtrips")
    if o.kind != "value":
        ctx.violation("C08:round-trip:%s" % trig,
                      "rendered text %r of %r does not evaluate: %s %s" % (t1, av, o.kind, core.safe_str(o.exc, 120)), {"value": av, "text": t1})
        return
    v3 = o.value
    try:
        a3 = gv.abstract(v3)
    except gv.NotData:
        a3 = None
    if a3 is None or v3.type() != v1.type():
        ctx.violation("C08:round-trip-type:%s" % trig if trig != "pattern-slash" else "C08:round-trip:pattern-slash",
                      "%r evaluates to a %s, original was %s" % (t1, v3.type(), v1.type()), {"value": av, "text": t1})
        return
    if not (v3 == v1) or not rv.ref_eq(a3, av):
        ctx.violation("C08:round-trip-value:%s" % trig if trig != "pattern-slash" else "C08:round-trip:pattern-slash",
                      "%r evaluates to %s which is not equal to the original" % (t1, core.safe_str(v3, 100)), {"value": av, "text": t1})
        return
    t3 = str(v3)
    if t3 != t1:
        ctx.violation("C08:round-trip-text:%s" % trig if trig != "pattern-slash" else "C08:round-trip:pattern-slash",
                      "%r evaluates to a value rendering as %r" % (t1, t3), {"value": av, "text": t1})
    # the evaluated text is a program like any other: what it returned may be edited in place, and evaluating the
    # same text again (same interpreter, same file name) still yields the original value
    if av[0] in ("str", "list", "set", "map") and trig != "pattern-slash" and r.random() < 0.5:
        env = ckl.functions.Environment()
        env.put("res", v3)
        oc = observe(lambda: it.interpret(CORRUPT, "c08-edit", env), 600000)
        env = ckl.functions.Environment()
        o = observe(lambda: it.interpret(t1, "c08", env), 600000)
        ctx.count("reevaluations_after_result_edit")
        if oc.kind == "value" and (o.kind != "value" or str(o.value) != t1):
            ctx.violation("C08:round-trip-again:%s" % av[0],
                          "%r evaluated, its result edited in place, evaluated again: %s" % (
                              t1, core.safe_str(o.value if o.kind == "value" else o.exc, 120)), {"value": av, "text": t1})
    # literal source in permuted order evaluates to the same text (canonical via the interpreter)
    if literal_ok(av):
        src = gv.to_source(av, r, r)
        env = ckl.functions.Environment()
        # string(x) of a bare atom is its raw text, so render inside a list
        o = observe(lambda: it.interpret("string([%s])" % src, "c08", env), 600000)
        ctx.count("literal_evaluations")
        if o.kind != "value":
            ctx.violation("C08:literal-eval:" + av[0], "string([%s]) -> %s %s" % (src, o.kind, core.safe_str(o.exc, 100)), {"src": src})
        elif o.value.value != "[" + t1 + "]":
            ctx.violation("C08:canonical-via-literal:%s" % trig,
                          "string([%s]) is %r but the API-built equal value renders %r" % (src, o.value.value, t1), {"src": src})
    ctx.sample_maybe({"value": repr(av)[:200], "text": t1[:200]}, 0.005)


def walk_shapes(ctx, av):
    k = av[0]
    if k in ("list", "set"):
        for x in av[1]:
            walk_shapes(ctx, x)
    elif k == "map":
        for a, b in av[1]:
            walk_shapes(ctx, a)
            walk_shapes(ctx, b)
    elif k in ("int", "dec", "str"):
        shape_check(ctx, av, render_of(av))


def literal_ok(v):
    k = v[0]
    if k == "pat":
        return gv.pat_literal_ok(v[1]) and _compiles(v[1])
    if k in ("list", "set"):
        return all(literal_ok(x) for x in v[1])
    if k == "map":
        return all(literal_ok(a) and literal_ok(b) for a, b in v[1])
    return True


def no_twins(v):
    """exclude containers whose members include ref_eq-equal values of different kinds
    (1 and 1.0): representative choice is insertion-order dependent by design"""
    k = v[0]
    if k in ("list",):
        return all(no_twins(x) for x in v[1])
    if k == "set":
        items = list(v[1])
        return all(no_twins(x) for x in items)
    if k == "map":
        return all(no_twins(a) and no_twins(b) for a, b in v[1])
    return True


def spellable(v):
    k = v[0]
    if k == "pat":
        return v if gv.pat_literal_ok(v[1]) else ("pat", "a" + v[1].replace("/", "b") + "c")
    if k == "list":
        return ("list", tuple(spellable(x) for x in v[1]))
    if k == "set":
        return ("set", tuple(rv.dedupe([spellable(x) for x in v[1]])))
    if k == "map":
        return ("map", tuple(rv.dedupe_map([(spellable(a), spellable(b)) for a, b in v[1]])))
    return v


def big_value(r):
    """collections beyond the size thresholds of any fast path, of every element kind that has its own ordering"""
    n = r.choice([17, 33, 65, 128, 129, 130, 200, 300])
    ek = r.choice(["int", "str", "dec", "mixnum", "list", "set", "setstr", "bool-int", "map", "bigint"])
    if ek == "bigint":
        base = r.choice([2**53, 2**63, 10**30, -2**53 - 400])
        elems = [("int", base + x) for x in r.sample(range(0, 400), n)]
    elif ek == "int":
        elems = [("int", x) for x in r.sample(range(-500, 100000), n)]
    elif ek == "str":
        elems = [("str", "".join(r.choice("ab'\\ z9") for _ in range(r.randint(0, 6))) + str(i)) for i in range(n)]
    elif ek == "dec":
        elems = [("dec", x / 8.0) for x in r.sample(range(-4000, 4000), n)]
    elif ek == "mixnum":
        elems = [("int", x) if r.random() < 0.5 else ("dec", x + 0.5) for x in r.sample(range(0, 5000), n)]
    elif ek == "list":
        elems = [("list", (("int", x % 7), ("int", x))) for x in r.sample(range(100000), n)]
    elif ek == "set":
        elems = [("set", (("int", x), ("int", x + 1 + r.randint(0, 5)))) for x in r.sample(range(0, 100000, 11), n)]
    elif ek == "setstr":
        elems = [("set", (("str", "s%d" % x), ("str", "t%d" % (x + 1)))) for x in r.sample(range(100000), n)]
    elif ek == "map":
        elems = [("map", ((("int", x), ("int", 1)),)) for x in r.sample(range(100000), n)]
    else:
        elems = [("int", x) for x in r.sample(range(2, 1000), n - 2)] + [("bool", True), ("bool", False)]
    shape = r.choice(["set", "set", "map", "list"])
    if shape == "set":
        return ("set", tuple(elems))
    if shape == "list":
        return ("list", tuple(elems))
    return ("map", tuple((e, ("int", i % 5)) for i, e in enumerate(elems)))


def run_roundtrip(spec, ctx):
    r = ctx.rng
    it, out = core.new_interpreter(secure=True, legacy=True)
    fixed = [("set", (("set", ()),)), ("set", (("set", (("int", 1),)),)), ("map", ((("int", 1), ("set", (("int", 2),))),)),
             ("set", (("map", ()),)), ("map", ((("set", (("int", 1),)), ("int", 2)),)), ("list", (("set", ()), ("map", ()))),
             ("set", (("list", (("set", ()),)),)), ("map", ((rv.NULL, ("int", 1)),)), ("dec", 1e16), ("dec", 1e-7),
             ("dec", -0.0), ("str", "'"), ("str", "\\"), ("str", "a\nb"), ("str", "# c"), ("pat", "a/b"),
             ("map", ((("map", ()), ("map", ())),)), ("set", (("set", (("set", ()),)),)),
             ("str", "\\n"), ("str", "\\'"), ("str", "x\\"), ("int", -5), ("list", (("int", -1), ("dec", -1.5)))]
    for av in fixed:
        check_value(ctx, it, av, r)
    # keys and elements that only exact comparison tells apart (neighbours beyond 2^53, 2^63, 10^30; an int next to the
    # decimal it rounds to), in several construction orders each
    big = [2**53, 2**53 + 1, 2**53 + 2, 2**63, 2**63 + 1, 10**30, 10**30 + 1, -2**53 - 1, -2**53]
    near = [("set", tuple(("int", x) for x in big)), ("map", tuple((("int", x), ("int", i)) for i, x in enumerate(big))),
            ("map", ((("int", 2**53 + 1), ("int", 1)), (("int", 2**53), ("int", 2)), (("int", 2**53 + 2), ("int", 3)))),
            ("set", (("int", 2**53 + 1), ("dec", float(2**53)), ("int", 2**53 + 2))), ("set", (("dec", 1e30), ("int", 10**30 + 1), ("int", 10**30 - 1))),
            ("map", ((("list", (("int", 2**53 + 1),)), ("int", 1)), (("list", (("int", 2**53),)), ("int", 2)))),
            ("set", (("set", (("int", 2**63 + 1),)), ("set", (("int", 2**63),)), ("set", (("int", 2**63 + 2),))))]
    for av in near:
        for _ in range(8):
            check_value(ctx, it, av, r)
            ctx.count("near_neighbour_constructions")
    for i in range(spec["n"]):
        av = gv.gen_value(r, depth=r.choice([0, 0, 1, 2, 3]), kinds=DATA_KINDS)
        if i % 60 == 7:
            av = big_value(r)
            ctx.count("big_values")
        if not gv.finite(av):
            continue
        # patterns whose text the literal syntax cannot spell (known finding
        # C08:round-trip:pattern-slash) are confined to 1 case in 25 so that they cannot
        # mask other defects in the remaining values
        if i % 25 != 0:
            av = spellable(av)
        check_value(ctx, it, av, r)


def run_ladder(spec, ctx):
    """decimal magnitude ladder, exhaustive over exponents"""
    r = ctx.rng
    it, out = core.new_interpreter(secure=True, legacy=True)
    for e in range(-324, 309):
        for m in (1.0, 1.5, 9.999999999999999, 2.2250738585072014, 7.0):
            try:
                f = float("%re%d" % (m, e))
            except (OverflowError, ValueError):
                continue
            if f == 0.0 or f == float("inf"):
                continue
            for sgn in (1, -1):
                check_value(ctx, it, ("dec", sgn * f), r)
    for k in range(0, 80):
        check_value(ctx, it, ("dec", float(2**k)), r)
        check_value(ctx, it, ("dec", float(2**k) + 1.0), r)
        check_value(ctx, it, ("int", 2**k - 1), r)
        check_value(ctx, it, ("int", -(10**k)), r)
    ctx.extras["ladder_exhaustive"] = True


class IntPayloadMonitor:
    def __init__(self):
        self.count = 0
        self.bad = []

    def install(self):
        import ckl.values as V
        mon = self
        orig = V.ValueInt.__init__

        def __init__(self, value):
            orig(self, value)
            mon.count += 1
            if type(value) is not int and len(mon.bad) < 50:
                mon.bad.append((repr(value), _caller_site()))
        V.ValueInt.__init__ = __init__
        self.how = "wrapper on ValueInt.__init__"


def _caller_site():
    import sys
    f = sys._getframe(1)
    while f is not None:
        fn = f.f_code.co_filename
        if "/ckl/" in fn and "ValueInt" not in f.f_code.co_qualname:
            return "%s" % f.f_code.co_qualname
        f = f.f_back
    return "?"


INT_PROGRAMS = [
    "date('20200301') - date('20200227')", "date('20200301120000') - date('20200227')", "timestamp()",
    "length([1,2,3])", "int('42')", "int(3.7)", "int(date('20200101'))", "int(TRUE)", "sum([1,2,3])",
    "find('abc', 'c')", "find_last('abc', 'c')", "ord('a')", "compare(1, 2)", "7 / 2", "-7 / 2", "7 % 3",
    "2 * 3", "bit_and(12, 10)", "bit_not(0)", "bit_shift_left(1, 4)", "pow(2, 10)", "random(10)",
    "set_seed(5)", "length('abc')", "int([1,2])", "int(<<1>>)", "abs(-3)", "sign(-2.5)", "count([1,1,2], 1)",
    "date_year(date('20200101'))", "round(2.5)", "int(round(2.5))", "int(NULL)", "range(3)[1]",
    "gcd(12, 18)", "lcm(4, 6)", "prod([1,2,3])", "min(1, 2)", "div0(12, 5)", "non_zero(0, 2)",
    "length(<<<1 => 2>>>)", "bit_rotate_left(1, 3)", "enumerate(['a'])[0][0]", "parse_json('5')",
    "date('20201231') - date('20200101')", "(date('20200301') - date('20200227')) * 2",
    # values that come out of conversions of host data (JSON text, comparisons, counts) rather than out of literals
    "parse_json('true')", "parse_json('false')", "parse_json('[true, false, 1, 0, 2.5]')", "parse_json('{\"a\": true, \"b\": [false, {\"c\": true}]}')",
    "parse_json('[1, 1.0, -0, -0.0, 1e3, 12345678901234567890, 1.5e-7]')", "parse_json('\"text\"')", "parse_json('[]')", "parse_json('{}')",
    "[x > 1 for x in [1, 2]]", "[1 == 1, 1 == 2, 'a' in 'abc', NULL is NULL]", "int(FALSE)", "int(TRUE) + int(TRUE)", "count([TRUE, 1, TRUE], TRUE)",
    "[length([]) == 0, is_empty([])]", "<<<x => x > 1 for x in [1, 2]>>>", "<<x == 2 for x in [1, 2]>>", "[boolean(1), boolean(0), boolean('1'), boolean('')]",
    "[int('7') == 7, decimal('7') == 7, string(7) == '7']", "[matches('a', //a//), starts_with('ab', 'a'), contains([1], 1)]", "split('1,2', ',')",
    # the same container object more than once inside one value (shared, not circular): text depends on the value only
    "def row = [1, 2]; [row, row]", "def e = <<1>>; <<<'a' => e, 'b' => e>>>", "def x = [[1], [2]]; x + x", "def l = [1]; [l, [l, l], <<l>>]",
    "def m = <<<1 => 2>>>; [m, m, m]", "def s_ = <<3>>; def l = [s_]; append(l, s_); append(l, [s_]); l", "def t = []; [t, t, [t]]", "def q = <<<>>>; <<<1 => q, 2 => q, 3 => [q]>>>",
    "def row = [1, 2]; def g = [row, row]; string(g) == string([[1, 2], [1, 2]])", "def e = 'ab'; [e, e, [e]]",
    "[ord('a') > 96, chr(97) == 'a']", "[bit_and(1, 1) == 1, sign(-0.0), abs(-0.0)]", "any([1, 2], fn(x) x > 1)", "all([], fn(x) FALSE)",
]


def _round_trippable(av):
    """C08's data values: NULL, booleans, ints, finite decimals, strings, and lists / sets / maps of them"""
    k = av[0]
    if k in ("null", "bool", "int", "str"):
        return True
    if k == "dec":
        return av[1] == av[1] and abs(av[1]) != float("inf")
    if k in ("list", "set"):
        return all(_round_trippable(x) for x in av[1])
    if k == "map":
        return all(_round_trippable(a) and _round_trippable(b) for a, b in av[1])
    return False


def run_intpayload(spec, ctx):
    import ckl.functions
    r = ctx.rng
    mon = IntPayloadMonitor()
    mon.install()
    it, out = core.new_interpreter(secure=False, legacy=True)
    for i in range(spec["n"]):
        src = INT_PROGRAMS[i % len(INT_PROGRAMS)]
        if i >= len(INT_PROGRAMS):
            a, b = r.randint(-50, 50), r.randint(1, 9)
            src = r.choice(["%d / %d" % (a, b), "%d %% %d" % (a, b), "int(%d.5)" % a, "length(range(%d))" % b,
                            "date('2020%02d%02d') - date('2019%02d%02d')" % (r.randint(1, 12), r.randint(1, 28), r.randint(1, 12), r.randint(1, 28)),
                            "int(date('20%02d0101'))" % r.randint(0, 99), "round(%d.%d, %d)" % (a, b, r.randint(0, 2))])
        env = ckl.functions.Environment()
        before = len(mon.bad)
        o = observe(lambda: it.interpret(src, "c08", env), 600000)
        ctx.count("int_programs")
        ctx.case(("intprog", src))
        for payload, site in mon.bad[before:]:
            ctx.violation("C08:int-payload-not-int:" + site,
                          "%s constructs an int value with payload %s" % (src, payload), {"src": src})
        if o.kind == "value" and o.value.type() == "int":
            txt = str(o.value)
            if not INT_RE.match(txt):
                ctx.violation("C08:numeral:int-result", "%s is an int rendering as %r" % (src, txt), {"src": src})
        if o.kind == "value":
            # whatever produced it: a data value has well-formed payloads, and its text evaluates to an equal value of the
            # same type with the same text
            bad = core.value_malformed(o.value)
            if bad:
                ctx.violation("C08:produced-value:malformed", "%s yields %s" % (src, bad), {"src": src})
                continue
            try:
                av = gv.abstract(o.value)
            except gv.NotData:
                continue
            if not _round_trippable(av):
                continue
            t1 = str(o.value)
            env = ckl.functions.Environment()
            o2 = observe(lambda: it.interpret(t1, "c08", env), 600000)
            ctx.count("produced_value_roundtrips")
            if o2.kind != "value" or o2.value.type() != o.value.type() or not (o2.value == o.value) or str(o2.value) != t1:
                ctx.violation("C08:produced-value:round-trip", "%s yields a value rendering as %r, which evaluates to %s" % (
                    src, t1, core.safe_str(o2.value if o2.kind == "value" else o2.exc, 120)), {"src": src, "text": t1})
    ctx.count("int_invariant_evaluations", mon.count)
    ctx.extras["int_invariant_via"] = mon.how


MUTATIONS = {
    "map": [("m[{K}] = {V}", "set"), ("put(m, {K}, {V})", "set"), ("m[{K}, 0] += 1", "inc"), ("remove(m, {E})", "del"),
            ("m[{E}] = {V}", "overwrite")],
    "set": [("append(m, {K})", "add"), ("remove(m, {E})", "del"), ("remove(m, {E}); append(m, {K})", "swap")],
    "list": [("append(m, {K})", "add"), ("m[0] = {K}", "setfirst"), ("delete_at(m, 0)", "delfirst"), ("insert_at(m, 0, {K})", "ins")],
}


def run_mutate_rerender(spec, ctx):
    """the text form depends only on the value: render (forcing any cached view), mutate through every mutator,
    render again; the text must be that of a freshly built equal value and must still read back"""
    import ckl.functions
    r = ctx.rng
    it, out = core.new_interpreter(secure=True, legacy=True)
    for _ in range(spec["n"]):
        kind = r.choice(["map", "map", "set", "list"])
        elems = r.sample([1, 2, 3, 5, 8, 13, 21, 34], r.randint(1, 4))
        newk = r.choice([4, 6, 7, 0, -1, 100])
        e = r.choice(elems)
        v = r.randint(50, 60)
        if kind == "map":
            lit0 = "<<< " + ", ".join("%d => %d" % (k, k * 10) for k in elems) + " >>>"
        elif kind == "set":
            lit0 = "<< " + ", ".join(map(str, elems)) + " >>"
        else:
            lit0 = "[" + ", ".join(map(str, elems)) + "]"
        mut, what = r.choice(MUTATIONS[kind])
        mut = mut.replace("{K}", str(newk)).replace("{V}", str(v)).replace("{E}", str(e))
        # expected value, built fresh
        if kind == "map":
            d = {k: k * 10 for k in elems}
            if what == "set":
                d[newk] = v
            elif what == "inc":
                d[newk] = d.get(newk, 0) + 1
            elif what == "del":
                d.pop(e)
            else:
                d[e] = v
            fresh = "<<< " + ", ".join("%d => %d" % kv for kv in sorted(d.items(), key=lambda kv: -kv[0])) + " >>>"
        elif kind == "set":
            st = list(elems)
            if what in ("del", "swap"):
                st.remove(e)
            if what in ("add", "swap"):
                st.append(newk)
            fresh = "<< " + ", ".join(map(str, reversed(st))) + " >>"
        else:
            ls = list(elems)
            if what == "add":
                ls.append(newk)
            elif what == "setfirst":
                ls[0] = newk
            elif what == "delfirst":
                ls.pop(0)
            else:
                ls.insert(0, newk)
            fresh = "[" + ", ".join(map(str, ls)) + "]"
        touch = r.choice(["string(m)", "[x for x in m]", "string([m])", "def o = [...m]", "m == 1", "for x in m do x end"])
        if kind == "map" and "..." in touch:
            touch = "string(object(m))"
        src = ("def m = %s; %s; %s; def f = %s; [m == f, string(m) == string(f), eval(string(m)) == f, string(eval(string(m))) == string(m), string(m)]"
               % (lit0, touch, mut, fresh))
        env = ckl.functions.Environment()
        o = observe(lambda: it.interpret(src, "c08", env), 600000)
        ctx.count("mutate_rerender_programs")
        ctx.case(("mutrender", src))
        if o.kind != "value":
            ctx.violation("C08:mutate-rerender:error:" + kind, "%s -> %s %s" % (src, o.kind, core.safe_str(o.exc, 100)), {"src": src})
            continue
        flags = [x.value for x in o.value.value[:4]]
        if flags != [True, True, True, True]:
            ctx.violation("C08:mutate-rerender:%s:%s" % (kind, what), "%s -> %s" % (src, core.safe_str(o.value)), {"src": src})
    ctx.sample({"mutate_rerender": src})


def run_shard(spec, ctx):
    if spec["kind"] == "suite":
        from cklmon import suite
        return suite.run_suite(ctx, "C08", "payload")
    if spec["kind"] == "mutrender":
        return run_mutate_rerender(spec, ctx)
    if spec["kind"] == "intpayload":
        run_intpayload(spec, ctx)
        return
    valuelaws.MONITOR.install()
    if spec["kind"] == "roundtrip":
        run_roundtrip(spec, ctx)
    else:
        run_ladder(spec, ctx)
    valuelaws.MONITOR.drain(ctx, "C08")


def finalize(merged, tier):
    c = merged["counters"]
    reasons = []
    for k in ("renderings", "roundtrips", "string_relex", "literal_evaluations", "int_invariant_evaluations", "mutate_rerender_programs",
              "reevaluations_after_result_edit", "big_values"):
        if c.get(k, 0) == 0:
            reasons.append("monitor counter %s is zero" % k)
    if c.get("suite_tests", 0) == 0 or c.get("suite_report_missing", 0):
        reasons.append("M9: the repository suite under monitors produced no observations")
    extra = {"exhaustive_subspace": "decimal magnitude ladder: 5 mantissas x every decimal exponent -324..308 x both signs; powers of two to 2^79"}
    return extra, reasons


def replay(rec):
    rp = rec.get("replay", {})
    ctx = core.Ctx("C08", "quick", 0, 0, {})
    it, out = core.new_interpreter(secure=True, legacy=True)
    if "value" in rp:
        av = _tuplify(rp["value"])
        check_value(ctx, it, av, ctx.rng)
    return {"violated": bool(ctx.violations), "keys": sorted(ctx.violations)}


def _tuplify(x):
    if isinstance(x, list):
        return tuple(_tuplify(i) for i in x)
    return x
