"""C09 — secure mode denies file, process and script-loading access to every program.

Deciding monitors: M6 (audit hook + stat wrappers, forbidden events recorded
and blocked) while secure-mode programs run; canary tree diff; reachability
walk over everything a secure interpreter can reach, classified by what each
native *does* in a non-secure calibration run (not by its flag); strace
cross-check of a whole secure CLI child (thorough)."""
import ast
import hashlib
import inspect
import itertools
import os
import re
import subprocess
import sys

from cklmon import core, audit
from cklmon.core import observe

RULE = ("secure interpreters (legacy and non-legacy): bind_native(n) and bind_native(n, alias) for every name the binder "
        "knows and every Func* class name; every function reachable by name or through any bundled module invoked with "
        "all tuples (arity <= 3) of path-like and command-like arguments aimed at a canary tree; every syntactic way to "
        "define or shadow checkerlang_secure_mode followed by re-binding attempts in the scope where the shadow is live; "
        "user modules doing the same; a case is one program; non-trivial = it names an OS-touching native, the flag or a "
        "canary path; distinct by program text")
ASSUMPTIONS = [
    "get_env, stdin/stdout, clock and RNG are not in the statement",
    "module source reads by require are allowed (recognised by NodeRequire.evaluate on the stack, read-only mode, path outside the canary)",
    "what the monitors can see: Python audit events, the stat family, and (thorough) syscalls via strace",
]
SHARD_TIMEOUT = {"quick": 400, "thorough": 3000}
OS_NATIVES = ["execute", "file_input", "file_copy", "file_delete", "file_exists", "file_info", "file_move", "file_output",
              "list_dir", "make_dir", "run"]


def plan(tier, seed):
    specs = [{"kind": "calibrate"}]
    for legacy in (True, False):
        specs.append({"kind": "bind", "legacy": legacy})
        specs.append({"kind": "flag", "legacy": legacy})
        n = 4 if tier == "quick" else 12
        for i in range(n):
            specs.append({"kind": "invoke", "legacy": legacy, "part": i, "of": n, "arity": 2 if tier == "quick" else 3})
    specs.append({"kind": "firstuse", "legacy": True})
    specs.append({"kind": "firstuse", "legacy": False})
    specs.append({"kind": "cli"})
    if tier == "thorough":
        specs.append({"kind": "strace"})
    return specs


# ---------------------------------------------------------------------------
# canary tree
# ---------------------------------------------------------------------------

def make_canary(root):
    os.makedirs(os.path.join(root, "sub"), exist_ok=True)
    for name, content in (("secret.txt", "top secret\n"), ("sub/inner.txt", "inner\n"), ("script.ckl", "def pwned = 1;\n")):
        with open(os.path.join(root, name), "w") as f:
            f.write(content)
    return root


def snapshot(root):
    out = {}
    for d, dirs, files in os.walk(root):
        for n in sorted(dirs):
            out[os.path.relpath(os.path.join(d, n), root) + "/"] = "dir"
        for n in sorted(files):
            p = os.path.join(d, n)
            st = os.stat(p)
            with open(p, "rb") as f:
                h = hashlib.sha1(f.read()).hexdigest()
            out[os.path.relpath(p, root)] = (st.st_size, h, int(st.st_mtime))
    return out


def native_names():
    """every name the binder knows (scraped from its source at run time) and every Func* class name"""
    import ckl.functions as F
    names = set()
    try:
        tree = ast.parse(inspect.getsource(F.bind_native))
        for n in ast.walk(tree):
            if isinstance(n, ast.Compare) and isinstance(n.left, ast.Name) and n.left.id == "native":
                for c in n.comparators:
                    if isinstance(c, ast.Constant) and isinstance(c.value, str):
                        names.add(c.value)
    except Exception:  # noqa
        pass
    classes = []
    for k, v in vars(F).items():
        if isinstance(v, type) and k.startswith("Func"):
            classes.append(k)
            snake = re.sub(r"(?<!^)(?=[A-Z])", "_", k[4:]).lower()
            names.add(snake)
            names.add(k[4:].lower())
            names.add(k)
    return sorted(names), classes


class Secure:
    """a secure interpreter with the monitor armed around every call"""
    def __init__(self, legacy, moddir=None):
        import ckl.functions
        import ckl.values as V
        self.legacy = legacy
        self.moddir = moddir
        self.Env = ckl.functions.Environment
        self.V = V
        self.last_values = []        # what recent programs returned (or raised): values a program can get hold of
        self.fresh()

    def fresh(self):
        # (armed while the interpreter is built as well: what a secure interpreter binds at construction - the OS
        # constants, say - must not touch files or start processes either; host libraries cache such results per
        # process, so a later program would not show it again)
        mon = audit.MONITOR
        was = mon.armed
        mon.armed = True
        mon.constructing = True
        try:
            self.it, self.out = core.new_interpreter(secure=True, legacy=self.legacy)
        finally:
            mon.armed = was
            mon.constructing = False
        if self.moddir:
            mp = self.V.ValueList()
            mp.addItem(self.V.ValueString(self.moddir))
            self.it.base_environment.put("checkerlang_module_path", mp)

    def run(self, src, env=None, own_scope=False):
        """own_scope: the program runs in the interpreter's own scope (the host passes no environment)"""
        env = env if env is not None else self.Env()
        mon = audit.MONITOR
        mon.armed = True
        try:
            if own_scope:
                o = observe(lambda: self.it.interpret(src, "c09"), 1500000)
            else:
                o = observe(lambda: self.it.interpret(src, "c09", env), 1500000)
        finally:
            mon.armed = False
        if o.kind == "hang":
            self.fresh()
        elif o.kind == "value":
            self.last_values.append(o.value)
            del self.last_values[:-50]
        elif o.kind == "rte" and getattr(o.exc, "value", None) is not None:
            self.last_values.append(o.exc.value)        # an error value is handed to the program's caller as well
            del self.last_values[:-50]
        return o, env


def reachable_functions(it, roots=None):
    """every function value reachable from the interpreter (or from the given values): environments, module cache,
    closures, containers"""
    import ckl.functions as F
    import ckl.values as V
    seen = set()
    found = []
    stack = [it.base_environment, it.environment] if roots is None else list(roots)
    while stack:
        x = stack.pop()
        if x is None or id(x) in seen:
            continue
        seen.add(id(x))
        if isinstance(x, F.Environment):
            stack.extend(x.map.values())
            stack.append(x.parent)
            stack.extend(getattr(x, "modules", {}).values())
        elif isinstance(x, V.ValueFunc):
            found.append(x)
            if isinstance(x, F.FuncLambda):
                stack.append(x.lexicalEnv)
            stack.extend(v for v in vars(x).values() if isinstance(v, (V.Value, F.Environment)))
        elif isinstance(x, V.Value):
            v = getattr(x, "value", None)
            if isinstance(v, dict):
                stack.extend(v.values())
                stack.extend(k for k in v.keys() if isinstance(k, V.Value))
            elif isinstance(v, (list, set, tuple)):
                stack.extend(v)
    return found


def check_state(ctx, S, tag, canary, before, os_classes):
    """after a program: flag, run, reachable OS natives, canary, events"""
    mon = audit.MONITOR
    base = S.it.base_environment
    try:
        flag = base.get("checkerlang_secure_mode")
        ok = flag.isBoolean() and flag.value is True
    except Exception:  # noqa
        ok = False
    ctx.count("flag_checks")
    if not ok:
        ctx.violation("C09:flag-not-true:" + tag[0], "%s: checkerlang_secure_mode in the base environment is no longer TRUE" % tag[1][:400], {"src": tag[1]})
    if base.isDefined("run") or S.it.environment.isDefined("run"):
        ctx.violation("C09:run-defined:" + tag[0], "%s: `run` is defined in a secure interpreter" % tag[1][:300], {"src": tag[1]})
    for fn in reachable_functions(S.it):
        if type(fn).__name__ in os_classes:
            ctx.violation("C09:reachable:%s" % fn.name, "%s: OS-touching native %s (%s) is reachable in a secure interpreter" % (
                tag[1][:300], fn.name, type(fn).__name__), {"src": tag[1]})
    ctx.count("reachability_walks")
    # ... and what the programs themselves were handed back: a function value in a result is as good as a name
    for fn in reachable_functions(S.it, roots=S.last_values):
        ctx.count("functions_in_results")
        if type(fn).__name__ in os_classes:
            ctx.violation("C09:returned:%s" % fn.name, "%s: OS-touching native %s (%s) was handed to a secure program as a value" % (
                tag[1][:300], fn.name, type(fn).__name__), {"src": tag[1]})
    del S.last_values[:]
    for ev, what, allowed, callee in mon.take():
        ctx.count("audit_events_allowed" if allowed else "audit_events_forbidden")
        if not allowed:
            ctx.violation("C09:event:%s:%s" % (ev, callee or tag[0]), "%s caused %s %s" % (tag[1][:400], ev, what[:200]), {"src": tag[1]})
    now = snapshot(canary)
    if now != before:
        diff = sorted(set(now.items()) ^ set(before.items()))[:4]
        ctx.violation("C09:canary-changed:" + tag[0], "%s changed the canary tree: %r" % (tag[1][:300], diff), {"src": tag[1]})
        make_canary(canary)


ARGS = None


def canary_args(canary):
    f = os.path.join(canary, "secret.txt")
    return [("file", "'%s'" % f), ("dir", "'%s'" % canary), ("new", "'%s'" % os.path.join(canary, "created_by_program")),
            ("script", "'%s'" % os.path.join(canary, "script.ckl")), ("cmd", "'touch'"),
            ("arglist", "['%s']" % os.path.join(canary, "touched")), ("true", "TRUE"), ("callback", "fn(cb_args...) cb_args...")]


def run_calibrate(ctx, canary):
    """non-secure interpreter: which natives raise forbidden events / stat the canary?"""
    import ckl.functions as F
    mon = audit.MONITOR
    it, out = core.new_interpreter(secure=False, legacy=True)
    Env = F.Environment
    args = canary_args(canary)
    touched = {}
    names = [n for n in it.base_environment.getSymbols() if it.base_environment.get(n).isFunc()]
    for n in names:
        fn = it.base_environment.get(n)
        if isinstance(fn, F.FuncLambda):
            continue
        nargs = len(fn.getArgNames())
        for k in range(0, min(nargs, 3) + 1):
            for tup in itertools.product(args, repeat=k):
                src = "%s(%s)" % (n, ", ".join(a[1] for a in tup))
                mon.armed = True
                try:
                    observe(lambda: it.interpret(src, "calib", Env()), 500000)
                finally:
                    mon.armed = False
                ctx.count("calibration_calls")
                for ev, what, allowed, callee in mon.take():
                    if not allowed:
                        touched.setdefault(type(fn).__name__, set()).add(ev)
                        ctx.count("calibration_events")
    ctx.extras["os_classes"] = {k: sorted(v) for k, v in touched.items()}
    ctx.sample({"calibrated_os_touching": sorted(touched)})
    ctx.case(("calibration", tuple(sorted(touched))))
    ctx.case(("calibration-2", len(names)))
    return touched


def os_classes_static():
    """classification used by the other shards: behaviour-derived in the calibrate shard, and re-derived
    here cheaply by calling each native class once (the shards are separate processes)"""
    return None


def derive_os_classes(ctx, canary):
    """quick behavioural classification inside this shard: call every native class of ckl.functions
    directly (non-secure) with canary arguments and see which raise forbidden events"""
    import ckl.functions as F
    import ckl.values as V
    mon = audit.MONITOR
    it, out = core.new_interpreter(secure=False, legacy=True)
    found = set()
    args = canary_args(canary)
    for cname, cls in list(vars(F).items()):
        if not (isinstance(cls, type) and cname.startswith("Func") and issubclass(cls, V.ValueFunc)) or cname == "FuncLambda":
            continue
        try:
            fn = cls(it) if cname == "FuncRun" else cls()
        except Exception:  # noqa
            continue
        # NB: a caller-supplied environment must not be passed to interpret() twice (see C10); the function
        # under test is put into the session scope and every call gets a fresh scope
        it.environment.put("__f", fn)
        nargs = len(fn.getArgNames())
        for k in range(1, min(nargs, 2) + 1):
            for tup in itertools.product(args[:6], repeat=k):
                mon.armed = True
                try:
                    observe(lambda: it.interpret("__f(%s)" % ", ".join(a[1] for a in tup), "calib", F.Environment()), 300000)
                finally:
                    mon.armed = False
                evs = mon.take()
                if any(not allowed for ev, what, allowed, callee in evs):
                    found.add(cname)
                    break
            if cname in found:
                break
    return found


FLAG_FORMS = [
    ("assign", "checkerlang_secure_mode = FALSE; {ATTEMPT}"),
    ("compound-assign", "checkerlang_secure_mode += 1; {ATTEMPT}"),
    ("destructuring-assign", "[checkerlang_secure_mode] = [FALSE]; {ATTEMPT}"),
    ("def", "def checkerlang_secure_mode = FALSE; {ATTEMPT}"),
    ("def-destructuring", "def [checkerlang_secure_mode] = [FALSE]; {ATTEMPT}"),
    ("def-fn", "def checkerlang_secure_mode() FALSE; {ATTEMPT}"),
    ("for", "for checkerlang_secure_mode in [FALSE] do {ATTEMPT} end"),
    ("for-destructuring", "for [checkerlang_secure_mode, x] in [[FALSE, 1]] do {ATTEMPT} end"),
    ("parameter", "(fn(checkerlang_secure_mode) do {ATTEMPT} end)(FALSE)"),
    ("default-parameter", "(fn(checkerlang_secure_mode = FALSE) do {ATTEMPT} end)()"),
    ("named-argument", "def f(checkerlang_secure_mode) do {ATTEMPT} end; f(checkerlang_secure_mode = FALSE)"),
    ("comprehension", "[do {ATTEMPT} end for checkerlang_secure_mode in [FALSE]]"),
    ("set-comprehension", "<<do {ATTEMPT} end for checkerlang_secure_mode in [FALSE]>>"),
    ("map-comprehension", "<<<1 => do {ATTEMPT} end for checkerlang_secure_mode in [FALSE]>>>"),
    ("class", "def class checkerlang_secure_mode do def x = 1 end; {ATTEMPT}"),
    ("require-as", "require Math as checkerlang_secure_mode; {ATTEMPT}"),
    ("require-import-as", "require Math import [PI as checkerlang_secure_mode]; {ATTEMPT}"),
    ("eval-assign", "eval('checkerlang_secure_mode = FALSE'); {ATTEMPT}"),
    ("eval-def", "eval('def checkerlang_secure_mode = FALSE'); {ATTEMPT}"),
    ("eval-all", "eval(\"def checkerlang_secure_mode = FALSE; {ATTEMPT_DQ}\")"),
    ("object-member", "def o = <*checkerlang_secure_mode = FALSE*>; {ATTEMPT}"),
    ("map-spread", "(fn(checkerlang_secure_mode = TRUE) do {ATTEMPT} end)(...<<<'checkerlang_secure_mode' => FALSE>>>)"),
    ("rest-parameter", "(fn(checkerlang_secure_mode...) do {ATTEMPT} end)(FALSE)"),
    ("catch-then", "do error 1 catch all do def checkerlang_secure_mode = FALSE; {ATTEMPT} end end"),
    ("user-module", "require evilmod; {ATTEMPT}"),
    ("user-module-unqualified", "require evilmod unqualified; {ATTEMPT}"),
    ("bind-native-itself", "bind_native('bind_native', 'bn'); def checkerlang_secure_mode = FALSE; bn('file_delete'); {ATTEMPT}"),
    ("remove-from-ls", "def l = ls(); {ATTEMPT}"),
    # compound assignments compile to calls of add/sub/mul/div/mod looked up by name: a program can redefine those
    ("compound-add-redefined", "def add(a, b) FALSE; checkerlang_secure_mode += 1; {ATTEMPT}"),
    ("compound-sub-redefined", "def sub(a, b) FALSE; checkerlang_secure_mode -= 1; {ATTEMPT}"),
    ("compound-mul-redefined", "def mul(a, b) FALSE; checkerlang_secure_mode *= 1; {ATTEMPT}"),
    ("compound-div-redefined", "def div(a, b) FALSE; checkerlang_secure_mode /= 1; {ATTEMPT}"),
    ("compound-mod-redefined", "def mod(a, b) FALSE; checkerlang_secure_mode %= 1; {ATTEMPT}"),
    ("compound-in-function", "def add(a, b) FALSE; def f() do checkerlang_secure_mode += 1 end; f(); {ATTEMPT}"),
    ("compound-in-eval", "def add(a, b) FALSE; eval('checkerlang_secure_mode += 1'); {ATTEMPT}"),
    ("member-style", "def o = <*x = 1*>; o->checkerlang_secure_mode = FALSE; {ATTEMPT}"),
    ("index-style", "def m = <<<>>>; m['checkerlang_secure_mode'] = FALSE; {ATTEMPT}"),
    ("equals-redefined", "def equals(a, b) TRUE; def not_equals(a, b) FALSE; {ATTEMPT}"),
]


def attempts(canary):
    f = os.path.join(canary, "secret.txt")
    new = os.path.join(canary, "created_by_program")
    a = ["bind_native('file_delete'); file_delete('%s')" % f,
         "bind_native('execute', 'ex'); ex('touch', ['%s'])" % new,
         "bind_native('file_output'); file_output('%s')" % new,
         "bind_native('list_dir'); list_dir('%s')" % canary,
         "bind_native('file_exists'); file_exists('%s')" % f,
         "bind_native('run'); run('%s')" % os.path.join(canary, "script.ckl"),
         "require OS; OS->make_dir('%s')" % new,
         "require IO; IO->read_file('%s')" % f,
         "require IO unqualified; file_input('%s')" % f,
         # the module search itself: a missing module looked for in a directory of the program's choosing must not make
         # the interpreter list or read anything there beyond the module file it was asked for
         "def checkerlang_module_path = ['%s']; require nosuch_module_xyz" % canary,
         "def checkerlang_module_path = ['%s']; require 'secret.txt'" % canary,
         "def checkerlang_module_path = ['%s', '%s']; require nosuch_module_xyz import [a]" % (canary, os.path.dirname(canary))]
    return a


def run_flag(ctx, legacy, canary, moddir, os_classes):
    S = Secure(legacy, moddir)
    before = snapshot(canary)
    for fname, form in FLAG_FORMS:
        for att in attempts(canary):
            body = "do %s catch all NULL end" % att
            src = form.replace("{ATTEMPT_DQ}", body.replace("'", "\\'") if False else body).replace("{ATTEMPT}", body)
            if "{ATTEMPT_DQ}" in form:
                src = form.replace("{ATTEMPT_DQ}", body)
            for own in (False, True):
                S.fresh()
                o, env = S.run(src, own_scope=own)
                ctx.count("flag_programs")
                ctx.case((src, own))
                check_state(ctx, S, ("flag-" + fname + ("-own-scope" if own else ""), src), canary, before, os_classes)
    ctx.sample({"flag_form": FLAG_FORMS[6][1], "attempt": attempts(canary)[1]})


def run_bind(ctx, legacy, canary, os_classes):
    S = Secure(legacy)
    before = snapshot(canary)
    names, classes = native_names()
    ctx.extras["binder_names"] = len(names)
    args = canary_args(canary)
    for n in names:
        for alias in (None, "al_" + re.sub(r"\W", "_", n)):
            S.fresh()
            env = S.Env()
            src = "bind_native('%s')" % n if alias is None else "bind_native('%s', '%s')" % (n, alias)
            o, env = S.run("def bn_result = do %s catch all NULL end; bn_result" % src, env)
            ctx.count("bind_attempts")
            ctx.case(src)
            # whatever got bound: try to use it on the canary
            bound = [k for k in env.map if env.map[k] is not None and hasattr(env.map[k], "isFunc") and env.map[k].isFunc()]
            # keep the bound values reachable for the walk and callable from fresh scopes
            for k in bound:
                S.it.environment.put(k, env.map[k])
            for k in bound:
                fn = env.map[k]
                nargs = max(1, min(len(fn.getArgNames()), 2))
                for tup in itertools.product(args[:6], repeat=nargs):
                    S.run("do %s(%s) catch all NULL end" % (k, ", ".join(a[1] for a in tup)))
                    ctx.count("bound_native_calls")
            check_state(ctx, S, ("bind_native", src), canary, before, os_classes)
    ctx.sample({"bind": "bind_native('file_delete', 'al_file_delete')", "names_tried": len(names)})


def run_invoke(ctx, spec, canary, os_classes):
    legacy = spec["legacy"]
    S = Secure(legacy)
    before = snapshot(canary)
    args = canary_args(canary)
    # callables: every function visible by name, and every member of every bundled module
    from cklmon import matrix
    callees = []
    base = S.it.base_environment
    for n in base.getSymbols():
        if base.get(n).isFunc():
            callees.append((n, n, "", len(base.get(n).getArgNames())))
    for m in matrix.MODULES:
        o, env = S.run("require %s" % m)
        if m in env.map:
            for member, v in env.map[m].value.items():
                if v.isFunc():
                    callees.append(("%s->%s" % (m, member), "%s->%s" % (m, member), "require %s; " % m, len(v.getArgNames())))
    mine = [c for i, c in enumerate(callees) if i % spec["of"] == spec["part"]]
    S.fresh()
    n = 0
    for disp, expr, pre, nargs in mine:
        for k in range(0, min(max(nargs, 1), spec["arity"]) + 1):
            for tup in itertools.product(args, repeat=k):
                src = "%sdo %s(%s) catch all NULL end" % (pre, expr, ", ".join(a[1] for a in tup))
                o, env = S.run(src)
                ctx.count("secure_invocations")
                ctx.case(src, nontrivial=k > 0)
                n += 1
                evs = audit.MONITOR.events
                if evs and any(not e[2] for e in evs):
                    check_state(ctx, S, ("invoke:" + disp, src), canary, before, os_classes)
                elif n % 400 == 0:
                    check_state(ctx, S, ("invoke:" + disp, src), canary, before, os_classes)
                else:
                    for e in audit.MONITOR.take():
                        ctx.count("audit_events_allowed")
    check_state(ctx, S, ("invoke-final", "end of shard"), canary, before, os_classes)
    ctx.count("callees", len(mine))
    if spec["part"] == 0:
        # programs that only use what secure mode offers, but in bulk: megabytes through string outputs and inputs, long
        # lists, many definitions - no file may be created, opened or written on their behalf
        pre = "" if legacy else "require IO unqualified; require String unqualified; require List unqualified; "
        volume = [
            "def o = str_output(); for i in range(220) do print('x' * 10000, o) end; length(get_output_string(o))",
            "def o = str_output(); for i in range(30000) do println(string(i) * 8, o) end; length(get_output_string(o))",
            "def i = str_input('line\\n' * 300000); def n = 0; for l in i do n += 1 end; n",
            "def s = 'abcdefgh' * 400000; [length(s), length(upper(s)), length(s + s)]",
            "def l = range(300000); [length(l), sum(l), length(string(l))]",
            "def m = <<<i => string(i) for i in range(100000)>>>; length(string(m))",
            "def o = str_output(); printf('{0}', 'y' * 3000000, out = o); length(get_output_string(o))",
            "process_lines('%s', fn(line) line)" % os.path.join(canary, "secret.txt"),
            "process_lines(['%s'], fn(line) line)" % os.path.join(canary, "secret.txt"),
        ]
        for prog in volume:
            src = pre + "do %s catch all 'raised' end" % prog
            S.fresh()
            o, env = S.run(src)
            ctx.count("secure_volume_programs")
            ctx.case(src, nontrivial=True)
            check_state(ctx, S, ("volume", src[:200]), canary, before, os_classes)


def run_strace(ctx, canary, moddir):
    """syscall-level cross-check, independent of Python-level hooks: each script runs in its own secure CLI child under
    strace -f; no syscall may name the canary tree and no second execve may happen"""
    work = os.getcwd()
    scripts = []
    body = "\n".join("do %s catch all NULL end;" % att for att in attempts(canary)) + "\nprintln('done');\n"
    scripts.append(("attempts", body))
    for fname, form in FLAG_FORMS:
        src = form.replace("{ATTEMPT_DQ}", "{ATTEMPT}").replace("{ATTEMPT}", "do %s catch all NULL end" % attempts(canary)[0])
        scripts.append((fname, "do %s catch all NULL end;\nprintln('done');\n" % src))
    before = snapshot(canary)
    marker = os.path.realpath(canary)
    for i, (name, text) in enumerate(scripts):
        script = os.path.join(work, "s%02d.ckl" % i)
        with open(script, "w") as f:
            f.write(text)
        log = os.path.join(work, "strace%02d.log" % i)
        p = subprocess.run(["strace", "-f", "-e", "trace=file,process", "-o", log, sys.executable, "-B", "-m", "ckl.run", "--secure", "-m", moddir, script],
                           capture_output=True, text=True, timeout=300, env=dict(os.environ))
        ctx.count("strace_runs")
        ctx.case(("strace", name, text))
        if not os.path.exists(log):
            ctx.note("strace produced no log: %s" % p.stderr[-300:])
            ctx.count("strace_unavailable")
            return
        execs = 0
        nlines = 0
        with open(log, errors="replace") as f:
            for line in f:
                nlines += 1
                if "execve(" in line:
                    execs += 1
                    if execs > 1:
                        ctx.violation("C09:strace:execve:" + name, "secure CLI child executed a program: %s" % line.strip()[:300], {"script": text})
                if marker in line and ".ckl\"" in line and ("O_RDONLY" in line or "stat" in line.split("(")[0] or "access" in line.split("(")[0]) and "O_WRONLY" not in line and "O_RDWR" not in line:
                    # require looking for the module it was asked for, along a module path the program chose (the in-process
                    # monitor allows the same: reading module sources is the one file access a secure program may cause)
                    ctx.count("strace_module_lookups_allowed")
                elif marker in line:
                    ctx.violation("C09:strace:canary-syscall:" + name, "secure CLI child named the canary tree in a syscall: %s" % line.strip()[:300], {"script": text})
        ctx.count("strace_syscalls", nlines)
        # a script that is rejected as a whole (assignment to a system variable is a syntax error) never runs: fine
        if "done" in p.stdout:
            ctx.count("strace_scripts_completed")
        elif "Cannot assign to system variable" in p.stdout or "Line" in p.stdout:
            ctx.count("strace_scripts_rejected")
        else:
            ctx.note("secure CLI child neither finished nor was rejected: %s %s" % (p.stdout[-200:], p.stderr[-300:]))
            ctx.count("strace_child_incomplete")
    if snapshot(canary) != before:
        ctx.violation("C09:strace:canary-changed", "canary tree changed during the secure CLI runs", {})
    ctx.sample({"strace_scripts": len(scripts)})


def run_cli(ctx, canary, moddir):
    """the command-line hosts with their secure switch in every spelling and position: the canary tree stays as it was and
    every attempt is refused (each child is a fresh process; no tracer, so this also runs on every change)"""
    work = os.getcwd()
    body = "def refused = 0;\n" + "\n".join("do do %s end; println('NOT REFUSED: attempt %d') catch all refused += 1 end;" % (att, i) for i, att in enumerate(attempts(canary)))
    body += "\nprintln('refused ' + string(refused));\n"
    script = os.path.join(work, "cli_attempts.ckl")
    with open(script, "w") as f:
        f.write(body)
    n = len(attempts(canary))
    flagsets = [["-s"], ["--secure"], ["-s", "-l"], ["-l", "-s"], ["--secure", "--legacy"], ["-s", "-m", moddir], ["-m", moddir, "-s"], ["-sl"], ["-ls"], ["-l", "--secure", "-m", moddir]]
    before = snapshot(canary)
    for host in ("ckl.run", "ckl.repl"):
        for flags in flagsets:
            cmd = [sys.executable, "-B", "-m", host] + flags + [script]
            try:
                p = subprocess.run(cmd, capture_output=True, text=True, timeout=120, input="exit\n", env=dict(os.environ), cwd=work)
            except subprocess.TimeoutExpired:
                ctx.note("secure CLI child did not end: %s" % " ".join(cmd))
                ctx.count("cli_child_incomplete")
                continue
            ctx.count("cli_runs")
            ctx.case(("cli", host, tuple(flags)), nontrivial=True)
            out = p.stdout + p.stderr
            now = snapshot(canary)
            if now != before:
                ctx.violation("C09:cli:canary-changed:%s" % host, "%s: the canary tree changed" % " ".join(cmd[3:]), {"cmd": cmd[3:]})
                before = now
            if "NOT REFUSED" in out:
                ctx.violation("C09:cli:attempt-not-refused:%s" % host, "%s: %s" % (" ".join(cmd[3:]), [l for l in out.splitlines() if "NOT REFUSED" in l][:3]), {"cmd": cmd[3:]})
            elif ("refused %d" % n) in out:
                ctx.count("cli_scripts_completed")
            else:
                ctx.note("secure CLI child neither finished nor reported: %s -> %s" % (" ".join(cmd[3:]), out[-300:]))
                ctx.count("cli_child_incomplete")


def run_shard(spec, ctx):
    work = os.getcwd()
    canary = make_canary(os.path.join(work, "canary"))
    moddir = os.path.join(work, "mods")
    os.makedirs(moddir, exist_ok=True)
    with open(os.path.join(moddir, "evilmod.ckl"), "w") as f:
        f.write("def checkerlang_secure_mode = FALSE;\nbind_native('file_delete');\nbind_native('execute', 'ex');\n"
                "def try_delete(p) do file_delete(p) catch all NULL end;\n"
                "do file_delete('%s') catch all NULL end;\n" % os.path.join(canary, "secret.txt"))
    import ckl
    audit.MONITOR.install(canary, [os.path.dirname(ckl.__file__) if getattr(ckl, "__file__", None) else "/repo/src/ckl", moddir])
    kind = spec["kind"]
    if kind == "calibrate":
        touched = run_calibrate(ctx, canary)
        return
    if kind == "strace":
        run_strace(ctx, canary, moddir)
        return
    if kind == "cli":
        run_cli(ctx, canary, moddir)
        return
    if kind == "firstuse":
        # nothing else has run in this process yet: what host libraries do once per process (and cache) happens now,
        # under the monitor - building the secure interpreter, then programs that merely look at what secure mode offers
        S = Secure(spec["legacy"], moddir)
        before = snapshot(canary)
        progs = ["require OS; [OS->OS_NAME, OS->OS_VERSION, OS->OS_ARCH, OS->PS, OS->LS, OS->FS]", "bind_native('OS_ARCH'); bind_native('OS_NAME'); bind_native('OS_VERSION'); [OS_ARCH, OS_NAME, OS_VERSION]",
                 "require IO; require Date; require Random; require Math; require Sys; [Date->date(), Random->random(5), Math->PI]", "[date(), timestamp(), random(3)]",
                 "require OS; ls(OS)", "require Sys; ls(Sys)", "[E, PI, MAXINT, MININT, MAXDECIMAL, MINDECIMAL]", "info(print); string(stdout); string(stdin)"]
        for src in progs:
            S.run("do %s catch all NULL end" % src)
            ctx.count("first_use_programs")
            ctx.case(("firstuse", spec["legacy"], src), nontrivial=True)
        check_state(ctx, S, ("first-use", "building a secure interpreter and looking at its constants"), canary, before, set())
        return
    os_classes = derive_os_classes(ctx, canary)
    ctx.extras["derived_os_classes"] = sorted(os_classes)
    make_canary(canary)
    if kind == "bind":
        run_bind(ctx, spec["legacy"], canary, os_classes)
    elif kind == "flag":
        run_flag(ctx, spec["legacy"], canary, moddir, os_classes)
    else:
        run_invoke(ctx, spec, canary, os_classes)


def finalize(merged, tier):
    c = merged["counters"]
    reasons = []
    cal = [ex.get("os_classes") for spec, ex in merged["shard_docs"] if spec.get("kind") == "calibrate" and ex.get("os_classes") is not None]
    extra = {}
    if not cal:
        reasons.append("calibration shard did not report")
    else:
        seen = cal[0]
        extra["calibrated_os_touching_natives"] = seen
        want = {"FuncExecute", "FuncFileInput", "FuncFileCopy", "FuncFileDelete", "FuncFileExists", "FuncFileInfo", "FuncFileMove",
                "FuncFileOutput", "FuncListDir", "FuncMakeDir", "FuncRun"}
        missing = sorted(want - set(seen))
        if missing:
            reasons.append("calibration saw no OS event for: %s" % ", ".join(missing))
    derived = [set(ex.get("derived_os_classes", [])) for spec, ex in merged["shard_docs"] if "derived_os_classes" in ex]
    if derived and any(len(d) < 10 for d in derived):
        reasons.append("a shard classified fewer than 10 natives as OS-touching; classification unreliable")
    for k in ("bind_attempts", "flag_programs", "secure_invocations", "reachability_walks", "flag_checks", "calibration_events"):
        if c.get(k, 0) == 0:
            reasons.append("monitor counter %s is zero" % k)
    if tier == "thorough":
        if c.get("strace_runs", 0) == 0 or c.get("strace_unavailable", 0) or c.get("strace_child_incomplete", 0) or c.get("strace_scripts_completed", 0) < 10:
            reasons.append("strace cross-check did not complete")
    if c.get("cli_runs", 0) == 0 or c.get("cli_child_incomplete", 0) or c.get("cli_scripts_completed", 0) < c.get("cli_runs", 0):
        reasons.append("secure command-line runs did not all complete (%d of %d)" % (c.get("cli_scripts_completed", 0), c.get("cli_runs", 0)))
    return extra, reasons
