"""C17 — dates and day numbers convert one-to-one; date arithmetic is calendar-correct.

Deciding monitors: reference calendar (datetime.date.toordinal, proleptic
Gregorian) against ckl.date.to_oa_date / to_date on every calendar day of
0001..9999 (thorough) and through interpreted `date(..) + n`, `- n`,
int()/decimal()/date() programs; an icontract postcondition on the real
to_date (round trip back through to_oa_date) active during all of it."""
import datetime

from cklmon import core
from cklmon.core import observe

RULE = ("days = every calendar day 0001-01-01..9999-12-31 (thorough, exhaustive) / every 1 Jan, 31 Dec, "
        "28 Feb, 29 Feb, 1 Mar of every year plus a stride sample (quick); per day: to_oa_date vs "
        "ordinal difference, to_date(to_oa_date(d)) == d, consecutive days differ by 1; programs: "
        "int/decimal(date) and date(number) inverse, (d+n)-n == d, (d+n)-d == n for boundary days x "
        "offsets {0,+-1,+-2,+-28..31,+-59,+-365,+-366,+-1461,+-36524,+-146097} kept in range; random "
        "times of day to the second; a case is one (day) or (day, offset) or (timestamp); all are "
        "non-trivial; distinct by value")
ASSUMPTIONS = [
    "reference = datetime.date.toordinal() - date(1899,12,30).toordinal()",
    "results outside 0001-01-01..9999-12-31 are not representable (the host date type ends there) and not asserted",
    "the text form of a date before the year 1000 is not asserted (dates are compared with ==)",
    "time of day is compared to the second (the statement's resolution)",
]
EPOCH = datetime.date(1899, 12, 30).toordinal()
FIRST, LAST = datetime.date(1, 1, 1), datetime.date(9999, 12, 31)
MIN_NUM, MAX_NUM = FIRST.toordinal() - EPOCH, LAST.toordinal() - EPOCH      # -693593 .. 2958465


def ymd(d):
    return "%04d%02d%02d" % (d.year, d.month, d.day)


def ymdhms(d):
    return "%04d%02d%02d%02d%02d%02d" % (d.year, d.month, d.day, d.hour, d.minute, d.second)
OFFSETS = [0, 1, 2, 28, 29, 30, 31, 59, 365, 366, 1461, 36524, 146097]
SHARD_TIMEOUT = {"quick": 300, "thorough": 3000}


def plan(tier, seed):
    specs = []
    if tier == "quick":
        for i in range(16):
            specs.append({"kind": "boundary", "part": i, "of": 16})
        for i in range(4):
            specs.append({"kind": "stride", "stride": 211 * 4, "n": 3500, "phase": i * 211})
        for i in range(6):
            specs.append({"kind": "programs", "part": i, "of": 6, "years": "sample"})
        # the same under other host time zones (POSIX TZ strings, no tzdata needed): a day number is not a host-local instant
        specs.append({"kind": "programs", "part": 0, "of": 12, "years": "sample", "env": {"TZ": "CET-1CEST,M3.5.0,M10.5.0/3"}})
        specs.append({"kind": "programs", "part": 5, "of": 12, "years": "sample", "env": {"TZ": "NZST-12NZDT,M9.5.0,M4.1.0/3"}})
        specs.append({"kind": "times", "n": 1500, "env": {"TZ": "EST5EDT,M3.2.0,M11.1.0"}})
        for i in range(5):
            specs.append({"kind": "times", "n": 4000})
    else:
        for i in range(64):
            specs.append({"kind": "all", "part": i, "of": 64})
        for i in range(16):
            specs.append({"kind": "programs", "part": i, "of": 16, "years": "wide"})
        for i, tz in enumerate(["CET-1CEST,M3.5.0,M10.5.0/3", "NZST-12NZDT,M9.5.0,M4.1.0/3", "EST5EDT,M3.2.0,M11.1.0", "IST-5:30", "<-03>3"]):
            specs.append({"kind": "programs", "part": i, "of": 16, "years": "wide", "env": {"TZ": tz}})
            specs.append({"kind": "times", "n": 10000, "env": {"TZ": tz}})
        for i in range(4):
            specs.append({"kind": "times", "n": 50000})
    specs.append({"kind": "qualified", "sample": 80 if tier == "quick" else None})
    return specs


def dayclass(d):
    if (d.month, d.day) == (1, 1):
        c = "jan1"
    elif (d.month, d.day) == (12, 31):
        c = "dec31"
    elif (d.month, d.day) == (2, 28):
        c = "feb28"
    elif (d.month, d.day) == (2, 29):
        c = "feb29"
    elif (d.month, d.day) == (3, 1):
        c = "mar1"
    else:
        c = "other"
    return c + ("-pre1900" if d.year < 1900 else "-pre1970" if d.year < 1970 else "")


class Contract:
    """icontract postcondition on the real to_date, rebound in every module that
    imported it by name (references bound earlier would bypass the contract)."""

    def __init__(self):
        self.evaluations = 0
        self.failures = []
        self.via = None

    def install(self):
        import ckl.date
        import ckl.values
        import ckl.functions
        mon = self
        real_to_oa = ckl.date.to_oa_date

        def roundtrips(oadate, result):
            mon.evaluations += 1
            if not (isinstance(oadate, (int, float)) and MIN_NUM <= oadate < MAX_NUM + 1):
                return True    # the statement is about representable dates (0001-01-01 .. 9999-12-31)
            try:
                back = real_to_oa(result)
                ok = abs(back - oadate) < 0.6 / 86400.0
            except Exception:  # noqa
                ok = False
            if not ok and len(mon.failures) < 100:
                mon.failures.append((oadate, str(result)))
            return True   # record only; raising would abort what it observes
        try:
            import icontract

            class Broken(Exception):
                pass
            wrapped = icontract.ensure(roundtrips, error=Broken)(ckl.date.to_date)
            self.via = "icontract.ensure"
        except Exception:  # noqa
            orig = ckl.date.to_date

            def wrapped(oadate):
                result = orig(oadate)
                roundtrips(oadate, result)
                return result
            self.via = "own wrapper"
        ckl.date.to_date = wrapped
        ckl.values.to_date = wrapped
        ckl.functions.to_date = wrapped
        # canary: the contract must be live on the path the interpreter uses
        before = self.evaluations
        try:
            ckl.values.ValueInt(43831).asDate()
        except Exception:  # noqa
            pass
        self.live = self.evaluations > before


CONTRACT = Contract()


def check_day(ctx, d, prev_num):
    """d: datetime.date.  Returns its day number as computed by the code (or None)."""
    import ckl.date
    want = d.toordinal() - EPOCH
    cls = dayclass(d)
    dt = datetime.datetime(d.year, d.month, d.day)
    ctx.case(("day", d.toordinal()))
    try:
        got = ckl.date.to_oa_date(dt)
    except Exception as e:  # noqa
        ctx.violation("C17:to_oa_date-raises:%s:%s" % (type(e).__name__, cls), "to_oa_date(%s) raised %r" % (d, e), {"day": str(d)})
        return None
    ctx.count("to_oa_date_calls")
    if got != want:
        ctx.violation("C17:to_oa_date:" + cls, "to_oa_date(%s) = %r, calendar says %d" % (d, got, want), {"day": str(d)})
    if prev_num is not None and got - prev_num != 1:
        ctx.violation("C17:consecutive:" + cls, "day numbers of %s and the day before differ by %r" % (d, got - prev_num), {"day": str(d)})
    try:
        back = ckl.date.to_date(want)
        ctx.count("to_date_calls")
        if (back.year, back.month, back.day, back.hour, back.minute, back.second) != (d.year, d.month, d.day, 0, 0, 0):
            ctx.violation("C17:to_date:" + cls, "to_date(%d) = %s, calendar says %s" % (want, back, d), {"day": str(d)})
    except Exception as e:  # noqa
        ctx.violation("C17:to_date-raises:%s:%s" % (type(e).__name__, cls), "to_date(%d) [%s] raised %r" % (want, d, e), {"day": str(d)})
    return got


def boundary_days(year):
    out = [datetime.date(year, 1, 1), datetime.date(year, 12, 31), datetime.date(year, 2, 28), datetime.date(year, 3, 1)]
    try:
        out.append(datetime.date(year, 2, 29))
    except ValueError:
        pass
    return out


def run_programs(spec, ctx):
    import ckl.functions
    r = ctx.rng
    it, out = core.new_interpreter(secure=True, legacy=True)
    if spec["years"] == "sample":
        years = list(range(1890, 2101, 1)) + [2400, 3000, 4000, 9998, 9999, 1, 2, 4, 100, 400, 999, 1000, 1582, 1600, 1700, 1752, 1800]
    else:
        years = list(range(1850, 2501)) + list(range(2501, 10000, 53)) + [9998, 9999] + list(range(1, 1850, 7)) + [999, 1000, 1582, 1600, 1752]
    years = [y for i, y in enumerate(years) if i % spec["of"] == spec["part"]]

    def ev(src):
        env = ckl.functions.Environment()
        return observe(lambda: it.interpret(src, "c17", env), 3000000)

    def expect(src, want, key, cls):
        o = ev(src)
        ctx.count("program_evaluations")
        if o.kind != "value":
            ctx.violation("C17:%s-raises:%s" % (key, cls), "%s -> %s %s" % (src, o.kind, core.safe_str(o.exc, 100)), {"src": src})
            return
        got = o.value.value if o.value.type() == "string" else str(o.value)
        if got != want:
            ctx.violation("C17:%s:%s" % (key, cls), "%s evaluated to %s, calendar says %s" % (src, o.value, want), {"src": src})

    lo, hi = FIRST.toordinal(), LAST.toordinal()
    for y in years:
        if y % 3 == 1:
            perturb(ctx, r, it)
        for d in boundary_days(y):
            cls = dayclass(d)
            s = ymd(d)
            num = d.toordinal() - EPOCH
            expect("int(date('%s'))" % s, str(num), "int-of-date", cls)
            if d.year >= 1000:
                expect("string(date(%d))" % num, s + "000000", "date-of-int", cls)
            expect("date(%d) == date('%s')" % (num, s), "TRUE", "date-of-int", cls)
            expect("date(int(date('%s'))) == date('%s')" % (s, s), "TRUE", "int-date-inverse", cls)
            expect("date(decimal(date('%s'))) == date('%s')" % (s, s), "TRUE", "decimal-date-inverse", cls)
            offs = r.sample(OFFSETS, 4) + [1]
            for n in offs:
                for sgn in (1, -1):
                    k = sgn * n
                    t = d.toordinal() + k
                    if not (lo <= t <= hi):
                        continue
                    ctx.case(("arith", d.toordinal(), k))
                    td = ymd(datetime.date.fromordinal(t))
                    op = "+ %d" % k if k >= 0 else "- %d" % -k
                    if t >= datetime.date(1000, 1, 1).toordinal():
                        expect("string(date('%s') %s)" % (s, op), td + "000000", "add-days", cls)
                    else:
                        expect("(date('%s') %s) == date('%s')" % (s, op, td), "TRUE", "add-days", cls)
                    expect("(date('%s') %s) - %d == date('%s')" % (s, op, k, s) if k >= 0 else
                           "(date('%s') %s) + %d == date('%s')" % (s, op, -k, s), "TRUE", "add-sub-inverse", cls)
                    expect("(date('%s') %s) - date('%s')" % (s, op, s), str(k), "difference", cls)
    ctx.sample({"years": len(years), "example": "string(date('20240229') + 366)"})


def perturb(ctx, r, it):
    """conversions whose own result the statement does not fix (fractions of a second, a time of day within a
    millisecond of midnight, out-of-range numbers) made between the checked ones: whatever they leave behind in
    the process must not change any later conversion"""
    import ckl.date
    import ckl.functions
    n = r.choice([2, 59, 60, 61, 25569, 36525, 36678, 46236, 73050, 401768, 2958464])
    f = r.choice([0.99999999999, 1 - 1e-9, 0.999999995, 0.9999999, 0.99999, 0.5, 0.999994212963, 1e-9, 0.000005])
    forms = ["date(%r)" % (n + f), "date('20260802162156') + %r" % ((86400 - 58916) / 86400.0), "date(%d) + %r" % (n, f),
             "date(%d) - %r" % (n + 1, 1 - f), "date(%r)" % -(n + f), "date(0)", "date(%r)" % (2958465 + f), "date(2958466)",
             "date('%s') - date(%r)" % ("20000229", n + f), "int(date(%r))" % (n + f), "decimal(date(%r))" % (n + f)]
    src = r.choice(forms)
    env = ckl.functions.Environment()
    observe(lambda: it.interpret("do %s catch all NULL end" % src, "c17", env), 3000000)
    try:
        ckl.date.to_date(n + f)
    except Exception:  # noqa
        pass
    ctx.count("perturbing_conversions")


def run_times(spec, ctx):
    import ckl.date
    import ckl.functions
    r = ctx.rng
    it, out = core.new_interpreter(secure=True, legacy=True)
    for i in range(spec["n"]):
        if i % 5 == 2:
            perturb(ctx, r, it)
        y = r.choice([1000, 1582, 1752, 1899, 1900, 1950, 1969, 1970, 1971, 2000, 2024, 2100, 5000, 9999])
        dt = datetime.datetime(y, r.randint(1, 12), r.randint(1, 28), r.randint(0, 23), r.randint(0, 59), r.randint(0, 59))
        if r.random() < 0.05:
            # the first and the last representable day, any time of day
            dt = dt.replace(year=r.choice([1000, 1900, 9999]))
            dt = dt.replace(month=1, day=1) if dt.year != 9999 else dt.replace(month=12, day=r.choice([30, 31]))
            y = dt.year
            ctx.count("edge_day_times")
        ctx.case(("time", dt.isoformat()))
        cls = "time-of-day" + ("-pre1970" if y < 1970 else "")
        try:
            n = ckl.date.to_oa_date(dt)
            back = ckl.date.to_date(n)
            ctx.count("time_roundtrips")
            if back.replace(microsecond=0) != dt:
                # allow for representation: compare to the second after rounding the microsecond part
                ctx.violation("C17:to_date:" + cls, "%s -> %r -> %s" % (dt, n, back), {"dt": dt.isoformat()})
        except Exception as e:  # noqa
            ctx.violation("C17:to_date-raises:%s:%s" % (type(e).__name__, cls), "%s raised %r" % (dt, e), {"dt": dt.isoformat()})
        if i % 4 == 1:
            # differences of dates that carry a time of day, aimed at day numbers where the spacing of doubles
            # changes (powers of two): (d + n) - d must still be exactly n
            p2 = r.choice([8192, 16384, 32768, 65536, 131072, 262144, 524288, 1048576, 2097152])
            base = datetime.datetime.fromordinal(EPOCH + r.choice([p2, p2, -p2 if p2 < 300000 else p2]) - r.randint(0, 40))
            d0 = base.replace(hour=r.randint(0, 23), minute=r.randint(0, 59), second=r.randint(0, 59))
            k = r.randint(1, 60)
            s0 = ymdhms(d0)
            env = ckl.functions.Environment()
            o = observe(lambda: it.interpret("[(date('%s') + %d) - date('%s'), date('%s') - (date('%s') - %d), string((date('%s') + %d) - %d)]"
                                             % (s0, k, s0, s0, s0, k, s0, k, k), "c17", env), 3000000)
            ctx.count("program_evaluations")
            ctx.count("timed_differences")
            ctx.case(("timed-diff", s0, k))
            want = "[%d, %d, '%s']" % (k, k, s0)
            if o.kind != "value":
                ctx.violation("C17:difference-raises:time-of-day", "(date('%s') + %d) - date('%s') -> %s" % (s0, k, s0, core.safe_str(o.exc, 100)), {"dt": s0})
            elif str(o.value) != want:
                ctx.violation("C17:difference:time-of-day", "[(d+%d)-d, d-(d-%d), (d+%d)-%d] for d = date('%s') is %s, calendar says %s" % (k, k, k, k, s0, o.value, want), {"dt": s0})
        if i % 6 == 4:
            # dates that carry a fraction of a second: the current time from date(), and a host-supplied value
            import ckl.values as V
            env = ckl.functions.Environment()
            us = r.choice([1, 499, 500, 501, 999, 1000, 123456, 500000, 999499, 999500, 999999])
            hd = dt.replace(microsecond=us)
            env.put("hd", V.ValueDate(hd))
            k = r.choice([1, 2, 7, 30, 365, 1000])
            if y == 9999:
                k = 1 if (dt.month, dt.day) < (12, 28) else 0
            k = min(k, (dt.date() - FIRST).days)     # stay inside 0001-01-01 .. 9999-12-31
            src = "def nd = date(); [(hd + %d) - hd, hd - (hd - %d), (nd + %d) - nd, nd - (nd - %d)]" % (k, k, k, k)
            o = observe(lambda: it.interpret(src, "c17", env), 3000000)
            ctx.count("program_evaluations")
            ctx.count("subsecond_differences")
            ctx.case(("subsecond", hd.isoformat(), k))
            want = "[%d, %d, %d, %d]" % (k, k, k, k)
            if o.kind != "value":
                ctx.violation("C17:difference-raises:subsecond", "%s with hd = %s -> %s" % (src, hd.isoformat(), core.safe_str(o.exc, 100)), {"dt": hd.isoformat()})
            elif str(o.value) != want:
                ctx.violation("C17:difference:subsecond", "%s with hd = %s is %s, calendar says %s" % (src, hd.isoformat(), o.value, want), {"dt": hd.isoformat()})
        if i % 20 == 0 or (y in (1000, 1900, 9999) and (dt.month, dt.day) in ((12, 31), (12, 30), (1, 1))):
            s = ymdhms(dt)
            env = ckl.functions.Environment()
            k = r.choice([1, 7, 30, 365])
            if y == 9999:
                k = 1 if (dt.month, dt.day) < (12, 28) else 0
            if (dt.year, dt.month, dt.day) == (9999, 12, 31):
                # (d - 1) + 1 lands on the last day again; date(decimal(d)) converts it directly
                o9 = observe(lambda: it.interpret("[string((date('%s') - 1) + 1), string(date(decimal(date('%s')))), string(date('%s') + 0)]" % (s, s, s), "c17", env), 3000000)
                ctx.count("program_evaluations")
                if o9.kind != "value" or str(o9.value) != "['%s', '%s', '%s']" % (s, s, s):
                    ctx.violation("C17:last-day-with-time", "date('%s'): [(d - 1) + 1, date(decimal(d)), d + 0] -> %s" % (s, core.safe_str(o9.value if o9.kind == "value" else o9.exc, 150)), {"dt": s})
            o = observe(lambda: it.interpret("string((date('%s') + %d) - %d)" % (s, k, k), "c17", env), 3000000)
            ctx.count("program_evaluations")
            if o.kind != "value":
                ctx.violation("C17:add-sub-inverse-raises:" + cls, "(date('%s') + %d) - %d -> %s" % (s, k, k, core.safe_str(o.exc, 100)), {"dt": s})
            elif o.value.value != s:
                ctx.violation("C17:add-sub-inverse:" + cls, "(date('%s') + %d) - %d = %s" % (s, k, k, o.value.value), {"dt": s})
    ctx.sample({"times": spec["n"]})


def run_shard(spec, ctx):
    if spec["kind"] == "qualified":
        from cklmon import matrix
        return matrix.unbound_names_in_modules(ctx, "C17", ["Date"], sample=spec.get("sample"))
    CONTRACT.install()
    kind = spec["kind"]
    if kind == "boundary":
        for y in range(1, 10000):
            if y % spec["of"] != spec["part"]:
                continue
            for d in boundary_days(y):
                check_day(ctx, d, None)
            # consecutive-day clause across the year end and the leap day
            if ctx.tier == "quick" and y % 5 != 0 and (y > 2100 or y < 1850):
                continue
            for a in (datetime.date(y, 12, 30), datetime.date(y, 2, 27)):
                prev = check_day(ctx, a, None)
                for k in (1, 2, 3):
                    if a.toordinal() + k <= datetime.date.max.toordinal():
                        prev = check_day(ctx, datetime.date.fromordinal(a.toordinal() + k), prev)
    elif kind == "stride":
        lo, hi = FIRST.toordinal(), LAST.toordinal()
        t = lo + ctx.rng.randrange(spec["stride"])
        while t <= hi:
            check_day(ctx, datetime.date.fromordinal(t), None)
            t += spec["stride"]
    elif kind == "all":
        lo, hi = FIRST.toordinal(), LAST.toordinal()
        n = hi - lo + 1
        a = lo + n * spec["part"] // spec["of"]
        b = lo + n * (spec["part"] + 1) // spec["of"]
        prev = None
        if a > lo:
            import ckl.date
            p = datetime.date.fromordinal(a - 1)
            try:
                prev = ckl.date.to_oa_date(datetime.datetime(p.year, p.month, p.day))
            except Exception:  # noqa
                prev = None
        for t in range(a, b):
            prev = check_day(ctx, datetime.date.fromordinal(t), prev)
        ctx.extras["range"] = [a, b]
        ctx.sample({"first_day": str(datetime.date.fromordinal(a)), "last_day": str(datetime.date.fromordinal(b - 1))})
    elif kind == "programs":
        run_programs(spec, ctx)
    elif kind == "times":
        run_times(spec, ctx)
    ctx.count("contract_evaluations", CONTRACT.evaluations)
    ctx.extras["contract_via"] = CONTRACT.via
    ctx.extras["contract_live"] = CONTRACT.live
    for oadate, res in CONTRACT.failures[:20]:
        d = None
        try:
            d = datetime.date.fromordinal(int(oadate) + EPOCH)
        except Exception:  # noqa
            pass
        cls = (dayclass(d) if d and float(oadate) == int(oadate) else "time-of-day")
        ctx.violation("C17:M3-to_date-roundtrip:" + cls, "to_date(%r) returned %s which does not convert back" % (oadate, res), {"oadate": oadate})


def finalize(merged, tier):
    c = merged["counters"]
    reasons = []
    if c.get("perturbing_conversions", 0) == 0:
        reasons.append("no perturbing conversions were made")
    for k in ("to_oa_date_calls", "to_date_calls", "program_evaluations", "time_roundtrips", "contract_evaluations"):
        if c.get(k, 0) == 0:
            reasons.append("monitor counter %s is zero" % k)
    extra = {}
    if not all(ex.get("contract_live") for spec, ex in merged["shard_docs"] if ex):
        reasons.append("to_date contract not live in some shard")
    if tier == "thorough":
        ranges = sorted(ex["range"] for spec, ex in merged["shard_docs"] if spec.get("kind") == "all" and "range" in ex)
        lo, hi = FIRST.toordinal(), LAST.toordinal()
        full = bool(ranges) and ranges[0][0] == lo and ranges[-1][1] == hi + 1 and all(
            a[1] == b[0] for a, b in zip(ranges, ranges[1:]))
        extra["exhaustive"] = full
        extra["exhaustive_space"] = "every calendar day 0001-01-01..9999-12-31 (%d days)" % (hi - lo + 1)
        if not full:
            reasons.append("calendar sweep incomplete")
    return extra, reasons
