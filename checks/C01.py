"""C01 — Parsing is total: every source text yields a program or a well-formed
syntax error, within a logical step budget, deterministically.

Deciding monitor: M1 boundary observer + step clock around
ckl.parser.parse_script(text, name); second parse of the same text in the same
process and (xproc shards) in processes with other hash seeds."""
import itertools

from cklmon import core
from cklmon.core import observe
from cklmon.nodedigest import node_digest
from cklgen import syntax

RULE = ("texts = exhaustive token strings of length <=2 over the full token alphabet "
        "(space-, newline- and nothing-separated), length 3 over a reduced alphabet (thorough), "
        "random token strings 4..12, grammar-derived programs with every token prefix, every "
        "single-token deletion and sampled insertions/substitutions, character noise and "
        "character-level edits, bracket nesting of 14 kinds to depth 40 in every depth and up to 3000 in steps, "
        "single tokens and flat sequences up to 20000 characters; a case is one distinct source text with "
        ">= 1 token character (distinct_nontrivial counts distinct texts by hash)")
ASSUMPTIONS = [
    "termination is decided on a logical clock (function entries + backward jumps), "
    "budget 20000 + 3000 per source character; wall clock is only a watchdog",
    "error messages and columns are not compared; only class, file name, line, node digest",
]
FNAME = "c01.ckl"
SHARD_TIMEOUT = {"quick": 240, "thorough": 2400}


def plan(tier, seed):
    specs = []
    n2 = 8 if tier == "quick" else 16
    for i in range(n2):
        specs.append({"kind": "soup2", "part": i, "of": n2})
    if tier == "thorough":
        for i in range(32):
            specs.append({"kind": "soup3", "part": i, "of": 32})
    nr = 4 if tier == "quick" else 16
    for i in range(nr):
        specs.append({"kind": "soup_rand", "n": 2500 if tier == "quick" else 20000})
    ng = 8 if tier == "quick" else 32
    for i in range(ng):
        specs.append({"kind": "grammar", "n": 150 if tier == "quick" else 500})
    for i in range(4 if tier == "quick" else 12):
        specs.append({"kind": "noise", "n": 3000 if tier == "quick" else 25000})
    nn = 4 if tier == "quick" else 16
    for i in range(nn):
        specs.append({"kind": "numsoup", "maxlen": 5 if tier == "quick" else 6, "part": i, "of": nn})
    specs.append({"kind": "nest"})
    specs.append({"kind": "shift"})
    for hs in ([1, 2] if tier == "quick" else [1, 2, 3, 4]):
        specs.append({"kind": "xproc", "hashseed": hs, "n": 1500})
    return specs


def _site_of_hang():
    return "parse"


SENTINELS = {}          # text -> first outcome summary (same process); re-parsed periodically
STATE = {"n": 0}


def digit_separator_texts():
    out = []
    for n in (20, 25, 30, 35, 40, 60, 100, 400):
        out += ["9" * n + "_", "_" + "9" * n, "9" * n + "__1", "1__" + "9" * n, "9" * n + "_.5", "1." + "3" * n + "_", "1._" + "3" * n,
                "0x" + "f" * n + "_", "0b" + "1" * n + "__0", "9" * n + "_a", "9" * n + "_ + 1", "[" + "9" * n + "_]", "x" + "9" * n + "_",
                "1" * n + "." + "2" * n + "." + "3" * n, "9" * n + "e5", "'" + "9" * n + "_'", "9_" * n, "9_" * n + "_",
                "//" + "(a+)+" * 3 + "$//", "'" + "a" * n + "' matches //(a+)+$//", "def f(" + "a, " * n + "b) 1", "f(" + "1, " * n + ")"]
    return out


CPU_CHILD = r"""
import json, resource, sys
resource.setrlimit(resource.RLIMIT_CPU, (%d, %d))
import ckl.parser
from ckl.errors import CklSyntaxError
texts = json.load(open(sys.argv[1]))
prog = open(sys.argv[2], "w")
for i, t in enumerate(texts):
    prog.write("%%d start\n" %% i); prog.flush()
    try:
        r = ckl.parser.parse_script(t, "c01.ckl")
        k = "program" if callable(getattr(r, "evaluate", None)) else "no-program"
    except CklSyntaxError as e:
        k = "syntax" if (e.pos is not None and getattr(e, "msg", None)) else "syntax-malformed"
    except BaseException as e:
        k = "host:" + type(e).__name__
    prog.write("%%d %%s\n" %% (i, k)); prog.flush()
"""


def run_cpu_limited(ctx, texts, cpu_seconds=15):
    """each text is parsed in a child whose CPU time is capped at 15 s (an ordinary parse of these texts takes
    milliseconds): being killed by the CPU limit while parsing text i is the refuting event - CPU time, unlike wall
    time, does not depend on how loaded the machine is"""
    import json
    import os
    import subprocess
    import sys
    work = os.getcwd()
    remaining = list(enumerate(texts))
    rounds = 0
    while remaining and rounds < 3:
        rounds += 1
        tf = os.path.join(work, "cpu_texts_%d.json" % rounds)
        pf = os.path.join(work, "cpu_progress_%d.txt" % rounds)
        json.dump([t for i, t in remaining], open(tf, "w"))
        env = dict(os.environ)
        env["PYTHONPATH"] = os.path.join(core.REPO, "src")
        p = subprocess.run([sys.executable, "-B", "-c", CPU_CHILD % (cpu_seconds, cpu_seconds + 5), tf, pf], capture_output=True, text=True, env=env, timeout=3600)
        lines = open(pf).read().split("\n") if os.path.exists(pf) else []
        done = {}
        started = None
        for ln in lines:
            parts = ln.split(" ", 1)
            if len(parts) == 2:
                if parts[1] == "start":
                    started = int(parts[0])
                else:
                    done[int(parts[0])] = parts[1]
        for j, kind in done.items():
            i, t = remaining[j]
            ctx.count("cpu_limited_parses")
            ctx.case(("cpu", t), nontrivial=True)
            if kind.startswith("host:") or kind in ("no-program", "syntax-malformed"):
                ctx.violation("C01:%s:cpu-limited" % kind, "parse of %r -> %s" % (t[:120], kind), {"text": t})
        if started is not None and started not in done:
            i, t = remaining[started]
            ctx.count("cpu_limited_parses")
            ctx.violation("C01:hang:cpu-limit", "parse of %r (%d characters) was still running after %d s of CPU time (exit status %s)" % (
                t[:120], len(t), cpu_seconds, p.returncode), {"text": t})
            remaining = remaining[started + 1:]
        else:
            remaining = []


def recheck_sentinels(ctx):
    """'the same text always gives the same outcome' also after thousands of other (failing) parses in this
    process: state leaking from one parse into the next shows up here"""
    import ckl.parser
    for text, first in list(SENTINELS.items()):
        o = observe(lambda: ckl.parser.parse_script(text, FNAME), 20000 + 3000 * len(text))
        ctx.count("sentinel_reparses")
        if o.kind == "value":
            try:
                now = ("program", node_digest(o.value))
            except BaseException:  # noqa
                now = ("program", None)
        elif o.kind == "syntax":
            now = ("syntax", getattr(getattr(o.exc, "pos", None), "line", None))
        else:
            now = (o.kind,)
        if now != first:
            ctx.violation("C01:nondeterministic-after-other-parses",
                          "%r parsed to %r at first, to %r after %d other parses in the same process" % (text, first, now, STATE["n"]),
                          {"text": text})
            SENTINELS.pop(text, None)


def check_text(ctx, text, deep=True):
    import ckl.parser
    STATE["n"] += 1
    if STATE["n"] % 1500 == 0:
        recheck_sentinels(ctx)
    budget = 20000 + 3000 * len(text)
    o = observe(lambda: ckl.parser.parse_script(text, FNAME), budget)
    ctx.case(text, nontrivial=bool(text.strip()))
    ctx.count("outcome_" + o.kind)
    ctx.maxstat("max_steps_observed", o.steps if o.kind != "hang" else 0)
    if o.kind != "hang" and o.steps:
        ctx.maxstat("max_steps_per_budget_permille", int(1000 * o.steps / budget))
    summary = None
    if o.kind == "value":
        if not callable(getattr(o.value, "evaluate", None)):
            ctx.violation("C01:no-program:%s" % type(o.value).__name__,
                          "parse of %r returned %r, which is neither a program nor a syntax error" % (text, o.value), {"text": text})
        try:
            summary = ("program", node_digest(o.value))
        except BaseException as e:  # noqa
            ctx.violation("C01:digest-failed:" + type(e).__name__,
                          "node tree of %r cannot be walked" % text,
                          {"text": text})
            summary = ("program", None)
    elif o.kind == "syntax":
        bad = core.syntax_wellformed(o.exc, FNAME)
        if bad:
            site = core.innermost_ckl_frame(o.exc)
            ctx.violation("C01:malformed-syntax-error:%s" % site[0],
                          "syntax error for %r is malformed: %s" % (text, bad),
                          {"text": text})
        summary = ("syntax", getattr(getattr(o.exc, "pos", None), "line", None))
        # the position is one of this text (a text of n lines has no line n + 2)
        if isinstance(summary[1], int) and summary[1] > len(text.splitlines()) + 1 + text.count("\r"):
            ctx.violation("C01:position-outside-text", "syntax error for %r is reported in line %d of a text of %d lines" % (text, summary[1], len(text.splitlines())),
                          {"text": text})
    elif o.kind == "rte":
        site = core.innermost_ckl_frame(o.exc)
        ctx.violation("C01:runtime-error-from-parser:%s" % site[0],
                      "parse of %r raised CklRuntimeError %s" % (text, core.safe_str(o.exc)),
                      {"text": text})
        summary = ("rte",)
    elif o.kind == "host":
        ctx.violation("C01:%s:%s" % (type(o.exc).__name__, o.site[0]),
                      "parse of %r raised %s: %s" % (text, type(o.exc).__name__,
                                                     core.safe_str(o.exc, 120)),
                      {"text": text})
        summary = ("host", type(o.exc).__name__)
    else:
        ctx.violation("C01:hang", "parse of %r exceeded %d steps" % (text, budget),
                      {"text": text})
        summary = ("hang",)
    if deep and o.kind in ("value", "syntax"):
        o2 = observe(lambda: ckl.parser.parse_script(text, FNAME), budget)
        ctx.count("determinism_checks")
        if o2.kind == "value":
            try:
                s2 = ("program", node_digest(o2.value))
            except BaseException:  # noqa
                s2 = ("program", None)
        elif o2.kind == "syntax":
            s2 = ("syntax", getattr(getattr(o2.exc, "pos", None), "line", None))
        else:
            s2 = (o2.kind,)
        if s2 != summary:
            ctx.violation("C01:nondeterministic-same-process",
                          "two parses of %r differ: %r vs %r" % (text, summary, s2),
                          {"text": text})
    if len(SENTINELS) < 80 and summary[0] in ("program", "syntax") and text not in SENTINELS and (
            summary[0] == "program" or len(SENTINELS) % 4 == 0) and len(text) < 400:
        SENTINELS[text] = summary
    ctx.sample_maybe({"text": text, "outcome": list(map(str, summary))}, 0.002)
    return summary


def run_shard(spec, ctx):
    kind = spec["kind"]
    r = ctx.rng
    A = syntax.FULL_ALPHABET
    if kind == "soup2":
        if spec["part"] == 0:
            check_text(ctx, "")
            check_text(ctx, " \n\t")
            for a in A:
                check_text(ctx, a)
        for i, a in enumerate(A):
            if i % spec["of"] != spec["part"]:
                continue
            for b in A:
                for sep in (" ", "", "\n"):
                    check_text(ctx, a + sep + b)
    elif kind == "numsoup":
        # every text over the characters numbers are written with, to length 5 (6 in the thorough tier): alone, inside
        # brackets, and followed by a line break and another token
        import itertools
        chars = ["1", "0", ".", "e", "E", "+", "-", "_", "x", "b", "f"]
        idx = 0
        for L in range(1, spec["maxlen"] + 1):
            for tup in itertools.product(chars, repeat=L):
                idx += 1
                if idx % spec["of"] != spec["part"]:
                    continue
                t = "".join(tup)
                check_text(ctx, t, deep=False)
                if L >= 3:
                    check_text(ctx, "[" + t + "]", deep=False)
                    check_text(ctx, "f(" + t + "\n, 2)", deep=False)
                ctx.count("number_like_texts")
    elif kind == "soup3":
        R = syntax.REDUCED_ALPHABET
        for i, a in enumerate(R):
            if i % spec["of"] != spec["part"]:
                continue
            for b in R:
                for c in R:
                    check_text(ctx, a + " " + b + " " + c, deep=False)
    elif kind == "soup_rand":
        for _ in range(spec["n"]):
            n = r.randint(4, 12)
            toks = [r.choice(A) for _ in range(n)]
            sep = r.choice([" ", " ", "\n", ""])
            check_text(ctx, sep.join(toks))
    elif kind == "grammar":
        g = syntax.SyntaxGen(r, max_depth=r.choice([3, 4, 5]))
        for _ in range(spec["n"]):
            toks = g.program()
            for _try in range(8):
                if len(toks) <= 140:
                    break
                toks = g.program(1)
            else:
                toks = g.expr(g.max_depth - 1)
            s = check_text(ctx, " ".join(toks))
            ctx.count("grammar_programs")
            if s and s[0] == "program":
                ctx.count("grammar_programs_accepted")
            for k in range(1, len(toks)):
                check_text(ctx, " ".join(toks[:k]), deep=False)
            for k in range(len(toks)):
                check_text(ctx, " ".join(toks[:k] + toks[k + 1:]), deep=False)
            for _ in range(min(40, len(toks))):
                k = r.randrange(len(toks) + 1)
                t = r.choice(A)
                if r.random() < 0.5:
                    check_text(ctx, " ".join(toks[:k] + [t] + toks[k:]), deep=False)
                elif k < len(toks):
                    check_text(ctx, " ".join(toks[:k] + [t] + toks[k + 1:]), deep=False)
    elif kind == "noise":
        alpha = list("abxyfn01_.'\"\\/#<>=!*+-%()[],; \n\r\t") + ["é", "日", "\x00", "do", "end", "def", "//", "\\x",
                                                                   "²", "①", "٣", "１", "½", "\u2028", "\x0c", "\ufeff", "0x", "1.", "e"]
        g = syntax.SyntaxGen(r, max_depth=3)
        for i in range(spec["n"]):
            if i % 2 == 0:
                n = r.randint(1, 14)
                check_text(ctx, "".join(r.choice(alpha) for _ in range(n)))
            else:
                s = " ".join(g.program(r.randint(1, 2)))[:200]
                if not s:
                    continue
                for _ in range(r.randint(1, 3)):
                    k = r.randrange(len(s) + 1)
                    op = r.randrange(3)
                    if op == 0:
                        s = s[:k] + r.choice(alpha) + s[k:]
                    elif op == 1 and k < len(s):
                        s = s[:k] + s[k + 1:]
                    elif k < len(s):
                        s = s[:k] + r.choice(alpha) + s[k + 1:]
                check_text(ctx, s)
    elif kind == "nest":
        opens = [("(", ")"), ("[", "]"), ("<<", ">>"), ("<<<1 => ", ">>>"), ("do ", " end"),
                 ("fn() ", ""), ("f(", ")"), ("- ", ""), ("not (", ")"), ("[1, ", "]"),
                 ("if TRUE then (", ")"), ("x[", "]"), ("<* a = ", " *>"), ("(1 + ", ")"),
                 ("for v in values x do ", " end"), ("for k in keys m do ", " end"), ("for e in entries m do ", " end"),
                 ("for v in values do ", " end"), ("while a do ", " end"), ("if a then ", ""), ("def f() ", ""),
                 ("[x for x in ", "]"), ("<<x for x in keys ", ">>"), ("do ", " catch all 1 end"), ("f(a = ", ")"),
                 ("x !> f(", ")"), ("not ", ""), ("1 is not ", ""), ("<<<'k' => ", ">>>"), ("s('{", "}')"), ("a->", "")]
        for d in range(1, 41):
            for o, c in opens:
                check_text(ctx, o * d + "1" + c * d)
                check_text(ctx, o * d + "1" + c * (d - 1), deep=False)
                check_text(ctx, o * d, deep=False)
            mix = [r.choice(opens) for _ in range(d)]
            check_text(ctx, "".join(o for o, c in mix) + "1" + "".join(c for o, c in reversed(mix)))
        # far beyond what the host's call stack carries: still a program or a syntax error
        for d in (45, 50, 60, 70, 80, 85, 90, 100, 120, 150, 200, 300, 500, 1000, 3000):
            for o, c in opens:
                check_text(ctx, o * d + "1" + c * d, deep=False)
                check_text(ctx, o * d, deep=False)
            mix = [r.choice(opens) for _ in range(d)]
            check_text(ctx, "".join(o for o, c in mix) + "1" + "".join(c for o, c in reversed(mix)), deep=False)
            ctx.count("deep_nesting_texts", 2 * len(opens) + 1)
        # digit runs with separators in every position: parsed in a child process under a CPU-time limit, because time
        # spent inside the host's regex engine or other native code is invisible to the logical step clock
        run_cpu_limited(ctx, digit_separator_texts())
        # every two-character continuation of \x, and every character after a backslash, in both kinds of string
        printable = [chr(c) for c in range(32, 127)] + ["\n", "\t", "é", "²"]
        for q in "'\"":
            for c1 in printable:
                check_text(ctx, q + "\\" + c1 + q, deep=False)
                check_text(ctx, q + "\\x" + c1 + q, deep=False)
                check_text(ctx, "f(" + q + "a\\x" + c1, deep=False)
                for c2 in printable:
                    check_text(ctx, q + "\\x" + c1 + c2 + q, deep=False)
                    ctx.count("escape_texts")
        # text of the program that ends up inside the message of a syntax error: characters that mean something to the
        # host's own string formatting (str.format, %, f-strings, templates) are text like any other there
        payloads = ["{}", "{0}", "{1}", "{name}", "{0!r}", "{:>10}", "{0.__class__}", "{a[0]}", "{", "}", "{{", "}}", "{{}}", "}{", "{2}[", "%s", "%d", "%(x)s", "%", "%%",
                    "%5", "$x", "${x}", "\\{", "\\N{DASH}", "{\\n}", "a{2}", "a{1,3}", "{,}", "(?P<n>", "\\g<0>", "\\1", "%c", "{!}", "{:}", "{0:{1}}"]
        frames = ["//%s[//", "//(%s//", "//%s)//", "//*%s//", "1 '%s'", "'%s' 1", "def '%s' = 1", "fn('%s') 1", "for '%s' in x do 1 end", "x->'%s'", "require '%s' import ['%s']",
                  "f(1, '%s' = 2)", "<<<'%s' => >>>", "[1, '%s'", "'%s'[", "s('%s'", "1 is '%s'", "def f(a, '%s') a", "'\\x%s'", "0x%s", "1%s", "x %s y", "%s", "# %s\n)", "'a' %s",
                  "do 1 catch '%s'", "<*'%s' = 1*>", "x !> '%s'()", "if '%s' then", "1 + //%s//", "//%s// //%s[//"]
        for fr in frames:
            for pl in payloads:
                try:
                    text = fr % ((pl,) * fr.count("%s"))
                except (TypeError, ValueError):
                    continue
                check_text(ctx, text, deep=False)
                ctx.count("message_payload_texts")
        # characters without a name, unassigned, private, non-characters, lone surrogates, controls - wherever a word can
        # stand, alone and glued to words, numbers and operators
        odd = ["\x80", "\x85", "\x9f", "\ue000", "\uf8ff", "\uffff", "\ufffe", "\u0378", "\U000e0000", "\U0010ffff", "\ud800", "\udfff", "\x00", "\x01", "\x7f", "\x1b",
               "\u200b", "\u2028", "\ufeff", "\u00a0", "\u2013", "\u201c", "\u00ad", "\u0301", "\U0001f600", "\u2460", "\u00b2"]
        for ch in odd:
            for text in (ch, "a" + ch, ch + "a", "x " + ch + " y", "1" + ch, ch + "1", "f(" + ch + ")", "def " + ch + " = 1", "'s'" + ch, "1 +" + ch, "[" + ch + "]", "#" + ch + "\n1",
                         "x->" + ch, ch + ch, "<<" + ch + ">>"):
                check_text(ctx, text, deep=False)
                ctx.count("odd_character_texts")
        # pattern literals: what the host's regular expression compiler rejects - in whatever way it rejects it - is a
        # syntax error of the program
        flags = "aiLmsuxT-"
        for f1 in flags:
            for f2 in flags:
                for text in ("//(?%s)(?%s)a//" % (f1, f2), "//(?%s%s)a//" % (f1, f2), "//(?%s:(?%s)a)//" % (f1, f2), "//a(?%s)(?%s-%s:b)//" % (f1, f2, f1)):
                    check_text(ctx, text, deep=False)
                    ctx.count("pattern_flag_texts")
        rx_alpha = ["a", "b", "(", ")", "?", "*", "+", "[", "]", "{", "}", "|", "\\", "^", "$", ".", "i", "u", "L", "P", "<", ">", "1", "2", ",", "-", ":", "=", "!", "#", "d", "w", "N", "x", "0"]
        for _ in range(6000):
            body = "".join(r.choice(rx_alpha) for _ in range(r.randint(1, 9)))
            if "//" in body:
                continue
            check_text(ctx, "//" + body + "//", deep=False)
            ctx.count("pattern_soup_texts")
        # very long single tokens
        for n in (100, 1000, 4299, 4300, 4301, 5000, 20000):
            for text in ("9" * n, "1" + "0" * n, "0x" + "f" * n, "0b" + "1" * n, "1_" * n + "1", "0." + "3" * n, "9" * n + ".5",
                         "x" * n, "'" + "a" * n + "'", "//" + "a" * n + "//", "-" + "9" * n, "def v = " + "7" * n + "; v", "1 " + "+ 1 " * n,
                         "#" + "c" * n + "\n1", "'" + "\\x41" * n + "'", " " * n + "1", "\n" * n + "1", "[" + "1, " * n + "1]", ";" * n):
                check_text(ctx, text, deep=False)
                ctx.count("long_token_texts")
    elif kind == "shift":
        # the same text further down: a malformed text reports its error as many lines lower as it was moved, whatever
        # was parsed before it (the far position first, so that nothing remembered from it fits the nearer ones)
        from cklgen import syntax as syn
        bad = [t for t in syn.LITERALS + ["def", "f(", "a is", "1 +", "if then", "[1, ", "<<<1 =>", "do 1 catch", "for x in", "x[", "def class X do 1 end", "fn(", "1 )", "]",
                                           "x = //(a//", "f(//[//)", "[//*//]", "1 + 0x", "s('\\xZZ')", "a->", "x !>", "require", "<*a = *>", "def f(a, a...) 1"]]
        for t in bad:
            lines = {}
            for k in (7, 0, 2, 7, 1):
                sm = check_text(ctx, "\n" * k + t, deep=False)
                ctx.count("shift_parses")
                if sm[0] != "syntax":
                    break
                if k in lines and lines[k] != sm[1]:
                    ctx.violation("C01:nondeterministic-same-process", "two parses of %r report line %r and %r" % ("\n" * k + t, lines[k], sm[1]), {"text": "\n" * k + t})
                lines[k] = sm[1]
            if len(lines) > 1 and None not in lines.values():
                base = lines[0] if 0 in lines else None
                for k, ln in lines.items():
                    if base is not None and ln != base + k:
                        ctx.violation("C01:position-does-not-move-with-text", "%r is reported in line %d, the same text %d lines lower in line %d" % (t, base, k, ln), {"text": "\n" * k + t})
                        break
    elif kind == "xproc":
        # same seeded batch in every xproc shard (rng independent of shard index)
        rr = core.make_rng(ctx.seed, "C01-xproc", 0)
        g = syntax.SyntaxGen(rr, max_depth=4)
        out = []
        for i in range(spec["n"]):
            if i % 3 == 0:
                text = " ".join(rr.choice(A) for _ in range(rr.randint(1, 6)))
            else:
                toks = g.program()
                if rr.random() < 0.5 and toks:
                    k = rr.randrange(len(toks))
                    toks = toks[:k] + toks[k + 1:]
                text = " ".join(toks[:150])
            s = check_text(ctx, text, deep=False)
            out.append(core.stable_hash(text, s))
        ctx.extras["xproc_digest"] = core.stable_hash(out)
        ctx.extras["xproc_each"] = out
    else:
        raise ValueError(kind)
    recheck_sentinels(ctx)


def finalize(merged, tier):
    reasons = []
    extra = {}
    c = merged["counters"]
    xs = [(spec, ex) for spec, ex in merged["shard_docs"] if spec.get("kind") == "xproc"]
    digs = {ex.get("xproc_digest") for spec, ex in xs}
    extra["xproc_hash_seeds"] = [spec["hashseed"] for spec, ex in xs]
    extra["xproc_agree"] = len(digs) == 1
    if len(xs) < 2 or None in digs:
        reasons.append("cross-process determinism shards did not all report")
    if c.get("cpu_limited_parses", 0) == 0:
        reasons.append("no parses under the CPU-time limit")
    viol = []
    if len(xs) >= 2 and None not in digs and len(digs) != 1:
        a, b = xs[0][1]["xproc_each"], None
        for spec, ex in xs[1:]:
            if ex["xproc_each"] != a:
                b = ex["xproc_each"]
                break
        idx = next((i for i, (p, q) in enumerate(zip(a, b)) if p != q), -1)
        viol.append(("C01:nondeterministic-across-processes",
                     "outcome of batch text #%d differs between hash seeds" % idx,
                     {"batch_index": idx}))
    if c.get("sentinel_reparses", 0) == 0:
        reasons.append("no sentinel text was re-parsed")
    if c.get("determinism_checks", 0) == 0:
        reasons.append("no same-process determinism comparison was performed")
    if c.get("grammar_programs_accepted", 0) * 5 < 2 * c.get("grammar_programs", 1):
        reasons.append("fewer than 40% of the grammar-derived programs were accepted "
                       "(generator drifted from the grammar)")
    extra["step_budget"] = "20000 + 3000*len(text)"
    return extra, reasons, viol


def replay(rec):
    import ckl.parser
    text = rec["replay"].get("text")
    if text is None:
        return {"violated": False, "note": "no text in record"}
    ctx = core.Ctx("C01", "quick", 0, 0, {})
    s = check_text(ctx, text)
    return {"violated": bool(ctx.violations), "outcome": s,
            "keys": sorted(ctx.violations)}
