"""C07 — comparison is a total order per kind and sorting agrees with it.

Deciding monitors: reference order (cklref.refvalue.ref_lt) against the real
<, <=, >, >=, compare, min, max at the ckl.values API and through interpreted
programs; postconditions on sorted(), set and map-key enumeration; M2 law
wrappers on every comparison the interpreter performs on the way."""
import itertools

from cklmon import core, valuelaws
from cklmon.core import observe
from cklgen import values as gv
from cklref import refvalue as rv

RULE = ("same-kind pairs and triples from pools of ints+decimals (around 2^53/2^63/10^30), strings "
        "over an alphabet straddling the quote character (space ! \" # & ' ( A a ~ é TAB backslash, "
        "proper prefixes), booleans, dates, lists of these (incl. proper prefixes); all pairs and "
        "all triples of each pool at the API; compare/<=/>/>=/min/max through programs; sorted() on "
        "lists <= 7 with duplicate keys, with and without key/cmp (stability witnessed by [key, tag] "
        "pairs and by 1 vs 1.0, also with key/cmp functions that sort something themselves); set and map-key "
        "enumeration, also after the set/map was enumerated and then edited in place (or a string/list member of a set "
        "changed through an alias); a case is non-trivial when the two "
        "values are not identical; distinct = distinct abstract tuples")
ASSUMPTIONS = [
    "which way values of different kinds compare is not asserted here (C12 asserts that the order across kinds is a strict total one)",
    "NaN/inf excluded",
    "lists are compared only when the first differing position holds same-kind elements",
]

STR_ALPHA = [" ", "!", "\"", "#", "&", "'", "(", "A", "a", "b", "~", "é", "\t", "\\", "0", "9",
             # beyond the basic plane vs. the top of it: code-point order differs from UTF-16 code-unit order here
             "\uff21", "\U0001f600", "\ue000", "\ufffd", "\U00010000", "\u65e5", "\ud7ff"]


def plan(tier, seed):
    n = 8 if tier == "quick" else 32
    specs = []
    for kind in ("num", "str", "bool", "date", "list"):
        specs += [{"kind": "api", "of": kind, "pool": 60 if tier == "quick" else 110}
                  for _ in range(1 if tier == "quick" else 4)]
    specs += [{"kind": "programs", "n": 1500 if tier == "quick" else 15000} for _ in range(n // 2)]
    specs += [{"kind": "suite"}]
    specs += [{"kind": "sorting", "n": 700 if tier == "quick" else 8000} for _ in range(n // 2)]
    return specs


def gen_str(r):
    n = r.choice([0, 1, 1, 2, 2, 3, 4])
    return ("str", "".join(r.choice(STR_ALPHA) for _ in range(n)))


def gen_of(r, kind, depth=2):
    if kind == "num":
        return gv.gen_int(r) if r.random() < 0.5 else gv.gen_dec(r)
    if kind == "str":
        return gen_str(r)
    if kind == "bool":
        return ("bool", r.random() < 0.5)
    if kind == "date":
        return gv.gen_date(r)
    if kind == "list":
        ek = r.choice(["num", "str", "bool", "num", "str"] + (["list"] if depth > 0 else []))
        n = r.choice([0, 1, 1, 2, 2, 3])
        return ("list", tuple(gen_of(r, ek if r.random() < 0.85 else r.choice(["num", "str"]), depth - 1)
                              for _ in range(n)))
    raise ValueError(kind)


def make_pool(r, kind, n):
    pool = []
    if kind == "num":
        pool = [("int", 2**53), ("int", 2**53 + 1), ("dec", float(2**53)), ("int", 1), ("dec", 1.0),
                ("dec", -0.0), ("int", 0), ("dec", 0.1), ("int", 10**30), ("dec", 1e30), ("int", -1),
                # ints beyond the range of a double (no conversion of the int may be attempted), next to the largest doubles
                ("int", 10**400), ("int", -10**400), ("int", 2**1024), ("int", 2**1024 - 1), ("dec", 1.7976931348623157e308), ("dec", -1.7976931348623157e308),
                ("int", 2**1023), ("dec", float(2**1023)), ("dec", 5e-324)]
    if kind == "str":
        pool = [("str", ""), ("str", "a"), ("str", "a b"), ("str", "a'"), ("str", "a!"), ("str", "'"),
                ("str", "a\\"), ("str", "a\t"), ("str", "ab"), ("str", "a'b"), ("str", "a~"),
                ("str", "\uff21"), ("str", "\U0001f600"), ("str", "a\U0001f600"), ("str", "a\uff21"), ("str", "\ue000b"), ("str", "\U00010000"),
                # equivalent spellings are different strings, ordered by their code points
                ("str", "caf\u00e9"), ("str", "cafe\u0301"), ("str", "\u212b"), ("str", "\u00c5"), ("str", "A\u030a"), ("str", "\ufb01"), ("str", "fi"), ("str", "\u1e69"), ("str", "s\u0323\u0307"), ("str", "s\u0307\u0323")]
    if kind == "bool":
        pool = [("bool", True), ("bool", False), ("bool", True), ("bool", False)]
    if kind == "list":
        pool = [("list", ()), ("list", (("int", 1),)), ("list", (("int", 1), ("int", 2))),
                ("list", (("dec", 1.0),)), ("list", (("str", "a"),)), ("list", (("str", "a'"),)),
                ("list", (("str", "a"), ("str", ""))), ("list", (("bool", False),)), ("list", (("bool", True),)),
                ("list", (("list", ()),)), ("list", (("list", (("int", 1),)),))]
    while len(pool) < (n if kind != "bool" else 4):
        v = gen_of(r, kind)
        if gv.finite(v):
            pool.append(v)
            if kind == "date" and r.random() < 0.6:
                # same day, other time of day (order must be chronological to the second)
                y, mo, d, h, mi, sec = v[1]
                pool.append(("date", (y, mo, d, r.randint(0, 23), r.randint(0, 59), r.randint(0, 59))))
                pool.append(("date", (y, mo, d, h, mi, (sec + 1) % 60)))
            if kind == "list" and v[1] and r.random() < 0.4:
                pool.append(("list", v[1][:-1]))            # proper prefix
            if kind == "str" and v[1] and r.random() < 0.4:
                pool.append(("str", v[1][:-1]))
    return pool


def api_lt(ctx, x, y, what):
    o = observe(lambda: x < y, 200000)
    if o.kind != "value":
        ctx.violation("C07:lt-raises:%s" % (type(o.exc).__name__ if o.exc else "hang"),
                      "%s: < raised %s" % (what, core.safe_str(o.exc)), {})
        return None
    return o.value


def run_api(spec, ctx):
    r = ctx.rng
    kind = spec["of"]
    pool = make_pool(r, kind, spec["pool"])
    reals = [gv.to_ckl(v) for v in pool]
    n = len(pool)
    lt = [[None] * n for _ in range(n)]
    for i in range(n):
        for j in range(n):
            a, b = pool[i], pool[j]
            if not rv.same_order_kind(a, b):
                ctx.count("pairs_skipped_mixed_kind")
                continue
            got = api_lt(ctx, reals[i], reals[j], "%r < %r" % (a, b))
            ctx.count("api_lt_pairs")
            ctx.case(("lt", a, b), nontrivial=(a != b))
            if got is None:
                continue
            if got is not True and got is not False:
                ctx.violation("C07:lt-not-bool:" + kind, "%s < %s returned %r" % (reals[i], reals[j], got), {"a": a, "b": b})
            lt[i][j] = bool(got)
            want = rv.ref_lt(a, b)
            if bool(got) != want:
                ctx.violation("C07:ref-lt-mismatch:" + kind,
                              "%s < %s is %r, reference says %r" % (core.safe_str(reals[i], 60), core.safe_str(reals[j], 60), got, want),
                              {"a": a, "b": b})
            # derived operators at the API
            x, y = reals[i], reals[j]
            e = (x == y)
            for name, val, wantv in (("le", x <= y, bool(got) or e), ("gt", x > y, (not bool(got)) and not e),
                                     ("ge", x >= y, not bool(got))):
                if bool(val) != wantv:
                    ctx.violation("C07:derived-%s:%s" % (name, kind),
                                  "%s %s %s gave %r, inconsistent with < (%r) and == (%r)" % (x, name, y, val, got, e), {"a": a, "b": b})
    for i in range(n):
        if lt[i][i]:
            ctx.violation("C07:irreflexive:" + kind, "%r < itself" % (pool[i],), {"a": pool[i]})
        for j in range(n):
            if lt[i][j] is None:
                continue
            if lt[i][j] and lt[j][i]:
                ctx.violation("C07:asymmetry:" + kind, "%r < %r and reversed" % (pool[i], pool[j]), {"a": pool[i], "b": pool[j]})
            eq = reals[i] == reals[j]
            if [lt[i][j], eq, lt[j][i]].count(True) != 1 and lt[j][i] is not None:
                ctx.violation("C07:trichotomy:" + kind,
                              "%r vs %r: <=%r ===%r >=%r" % (pool[i], pool[j], lt[i][j], eq, lt[j][i]), {"a": pool[i], "b": pool[j]})
    for i in range(n):
        for j in range(n):
            if not lt[i][j]:
                continue
            for k in range(n):
                if lt[j][k]:
                    ctx.count("api_lt_triples")
                    if lt[i][k] is False:
                        ctx.violation("C07:transitivity:" + kind,
                                      "%r < %r < %r but not %r < %r" % (pool[i], pool[j], pool[k], pool[i], pool[k]),
                                      {"a": pool[i], "b": pool[j], "c": pool[k]})
    ctx.case(("pool", kind, tuple(pool[:5])))
    ctx.sample({"kind": kind, "pool_size": n, "first": [repr(p) for p in pool[:6]]})


def run_programs(spec, ctx):
    import ckl.functions
    r = ctx.rng
    it, out = core.new_interpreter(secure=True, legacy=True)

    def ev(src):
        env = ckl.functions.Environment()
        return observe(lambda: it.interpret(src, "c07", env), 400000)

    def expect(src, want, key):
        o = ev(src)
        ctx.count("program_evaluations")
        if o.kind != "value":
            ctx.violation("C07:program-error:" + key, "%s -> %s %s" % (src, o.kind, core.safe_str(o.exc)), {"src": src})
            return
        try:
            got = gv.abstract(o.value)
        except gv.NotData:
            got = None
        ok = got is not None and rv.ref_eq(got, want) and (got[0] == want[0])
        if not ok:
            ctx.violation("C07:program:" + key, "%s evaluated to %s, reference says %r" % (src, core.safe_str(o.value), want), {"src": src})

    kinds = ["num", "num", "str", "str", "bool", "date", "list"]
    for _ in range(spec["n"]):
        kind = r.choice(kinds)
        a = gen_of(r, kind)
        b = gen_of(r, kind) if r.random() < 0.7 else a
        if kind == "date" and r.random() < 0.5:
            y, mo, d, h, mi, sec = a[1]
            b = ("date", (y, mo, d, r.randint(0, 23), r.randint(0, 59), r.randint(0, 59)))
        if kind == "str" and r.random() < 0.3 and a[1]:
            b = ("str", a[1][:-1])
        if kind in ("num", "list") and r.random() < 0.25:
            # the same number as the other kind (2 and 2.0), also inside lists: equal, so neither is less
            def twin_(x):
                if x[0] == "int" and abs(x[1]) < 2**53:
                    return ("dec", float(x[1]))
                if x[0] == "dec" and x[1] == int(x[1]) and abs(x[1]) < 2**53:
                    return ("int", int(x[1]))
                if x[0] == "list":
                    return ("list", tuple(twin_(y) for y in x[1]))
                return x
            b = twin_(a)
            ctx.count("other_kind_twins")
        if not (gv.finite(a) and gv.finite(b)) or not rv.same_order_kind(a, b):
            continue
        sa, sb = gv.to_source(a, r, r), gv.to_source(b, r, r)
        lt, gt = rv.ref_lt(a, b), rv.ref_lt(b, a)
        ctx.case(("prog", a, b), nontrivial=(a != b))
        form = r.randrange(6)
        B = lambda x: ("bool", x)  # noqa
        if form == 0:
            expect("(%s) < (%s)" % (sa, sb), B(lt), "lt:" + kind)
            expect("(%s) >= (%s)" % (sa, sb), B(not lt), "ge:" + kind)
        elif form == 1:
            expect("(%s) > (%s)" % (sa, sb), B(gt), "gt:" + kind)
            expect("(%s) <= (%s)" % (sa, sb), B(not gt), "le:" + kind)
        elif form == 2:
            expect("compare(%s, %s)" % (sa, sb), ("int", -1 if lt else (1 if gt else 0)), "compare:" + kind)
        elif form == 3:
            # min/max: when neither is smaller the documented tie rule returns b; only
            # membership in {a, b} and order-consistency are asserted
            mn = a if lt else b
            mx = a if gt else b
            expect("min(%s, %s) == (%s)" % (sa, sb, gv.to_source(mn)), B(True), "min2:" + kind)
            expect("max(%s, %s) == (%s)" % (sa, sb, gv.to_source(mx)), B(True), "max2:" + kind)
        elif form == 4:
            c = gen_of(r, kind)
            if not gv.finite(c) or not (rv.same_order_kind(a, c) and rv.same_order_kind(b, c)):
                continue
            sc = gv.to_source(c, r, r)
            trio = [a, b, c]
            lo = [x for x in trio if not any(rv.ref_lt(y, x) for y in trio)]
            hi = [x for x in trio if not any(rv.ref_lt(x, y) for y in trio)]
            expect("min([%s, %s, %s]) == (%s)" % (sa, sb, sc, gv.to_source(lo[0])), B(True), "min-list:" + kind)
            expect("max([%s, %s, %s]) == (%s)" % (sa, sb, sc, gv.to_source(hi[0])), B(True), "max-list:" + kind)
            expect("(%s) < (%s) < (%s)" % (sa, sb, sc), B(lt and rv.ref_lt(b, c)), "chain:" + kind)
        else:
            expect("less(%s, %s)" % (sa, sb), B(lt), "less:" + kind)
            expect("greater_equals(%s, %s)" % (sa, sb), B(not lt), "greater_equals:" + kind)
        ctx.sample_maybe({"a": sa, "b": sb, "ref_lt": lt}, 0.01)


def is_sorted_stable(inp, outp, keyf):
    """outp is an ordered permutation of inp keeping equal-key elements in input order."""
    if len(inp) != len(outp):
        return "length changed"
    used = [False] * len(inp)
    last_idx_for_key = []
    prev = None
    for o in outp:
        # find the first unused input position holding this very element (type-exact)
        idx = next((i for i, x in enumerate(inp) if not used[i] and x == o), None)
        if idx is None:
            return "element %r not from input (or duplicated)" % (o,)
        used[idx] = True
        if prev is not None:
            pk, pi = prev
            k = keyf(o)
            if rv.ref_lt(k, pk):
                return "not ordered: %r after %r" % (o, inp[pi])
            if not rv.ref_lt(pk, k) and idx < pi:
                return "not stable: %r (input #%d) after equal-key input #%d" % (o, idx, pi)
        prev = (keyf(o), idx)
    return None


def run_sorting(spec, ctx):
    import ckl.functions
    r = ctx.rng
    it, out = core.new_interpreter(secure=True, legacy=True)

    def ev(src):
        env = ckl.functions.Environment()
        return observe(lambda: it.interpret(src, "c07", env), 2000000 + 600 * len(src))

    for _ in range(spec["n"]):
        kind = r.choice(["num", "num", "str", "bool", "date", "list"])
        n = r.choice([0, 1, 2, 3, 4, 5, 6, 7])
        if r.random() < 0.06 and kind != "list":
            # long inputs (thresholds of any size-dependent fast path lie behind these): many equal keys
            n = r.choice([17, 33, 65, 66, 100, 129, 130, 200, 300])
            ctx.count("long_inputs")
        small = [gen_of(r, kind) for _ in range(max(1, n // 2))]
        small = [s for s in small if gv.finite(s)] or [("int", 1)]
        if kind == "num":
            small = small + [("int", 1), ("dec", 1.0)]
        items = [r.choice(small) for _ in range(n)]
        if any(not rv.same_order_kind(x, y) for x in items for y in items):
            continue
        form = r.randrange(8)
        if len(items) > 16 and form >= 5:
            form = r.randrange(5)        # long inputs go to the plain / key / cmp sorts and the enumerations
        ctx.case(("sort", form, tuple(items)), nontrivial=len(items) > 1)
        if form in (5, 6):
            # sets / maps that were enumerated, then edited in place (members added and removed without a read in
            # between, often back to the same size; for strings and lists also a member changed through an alias),
            # then enumerated again
            from cklgen import history
            uniq = rv.dedupe(items)
            stmts = []
            expect_items = list(uniq)
            # (only for sets: a map whose key was changed in place cannot find the key's entry any more, on any
            #  hash-based implementation; enumeration of a set needs no lookup)
            via_alias = form == 5 and kind in ("str", "list") and len(uniq) >= 1 and r.random() < 0.5
            if via_alias:
                names = ["e%d" % i for i in range(len(uniq))]
                stmts += ["def %s = %s" % (nm, gv.to_source(x, r)) for nm, x in zip(names, uniq)]
                if form == 5:
                    stmts.append("def h = << %s >>" % ", ".join(names))
                else:
                    stmts.append("def h = <<< %s >>>" % ", ".join("identity(%s) => %d" % (nm, i) for i, nm in enumerate(names)))
                stmts += ["do string(h) catch all NULL end", "do [x for x in h] catch all NULL end", "do list(h) catch all NULL end"]
                j = r.randrange(len(uniq))
                old = uniq[j]
                if kind == "str":
                    new = ("str", r.choice(["~", "", "0", "zz", "A"]) + old[1][1:]) if old[1] else None
                    edit = "%s[0] = %s" % (names[j], gv.str_literal(new[1][:len(new[1]) - len(old[1]) + 1], r)) if new else None
                else:
                    extra = r.choice([("int", 0), ("int", 10**6), ("str", "a")] if not old[1] else [old[1][0]])
                    new = ("list", old[1] + (extra,))
                    edit = "append(%s, %s)" % (names[j], gv.to_source(extra, r))
                    if any(not rv.same_order_kind(new, y) for y in uniq):
                        new = None
                if new is None or any(rv.ref_eq(new, y) for i, y in enumerate(uniq) if i != j):
                    continue
                stmts.append(edit)
                expect_items[j] = new
                ctx.count("member_changed_through_alias")
            else:
                av = ("set", tuple(uniq)) if form == 5 else ("map", tuple((x, ("int", i)) for i, x in enumerate(uniq)))
                st, tg = history.build(r, av, "h", extra_primers=("[x for x in h]", "list(h)"))
                stmts += st
                for x in tg:
                    ctx.count("edit:" + x)
            pre = "; ".join(stmts) + "; "
            forms = ("[x for x in h]", "list(h)", "def acc = []; for x in h do acc !> append(x) end; acc", "[...h]") if form == 5 else \
                    ("[k for k in keys h]", "def acc = []; for k in keys h do acc !> append(k) end; acc", "[e[0] for e in entries h]", "list(set(h))")
            for f in forms:
                src = pre + f
                o = ev(src)
                ctx.count("enumerations_after_edits")
                if o.kind != "value":
                    ctx.violation("C07:enum-after-edits-error:" + kind, "%s -> %s" % (src, core.safe_str(o.exc)), {"src": src})
                    continue
                got = list(gv.abstract(o.value)[1])
                bad = None
                if len(got) != len(expect_items) or any(not rv.member(x, got) for x in expect_items):
                    bad = "expected exactly the %d members %s" % (len(expect_items), [gv.to_source(x) for x in expect_items])
                for p_, q_ in zip(got, got[1:]):
                    if not rv.ref_lt(p_, q_):
                        bad = "not ascending: %r then %r" % (p_, q_)
                if bad:
                    ctx.violation("C07:%s-enumeration-after-edits:%s%s" % ("set" if form == 5 else "map-key", kind, ":alias" if via_alias else ""),
                                  "%s -> %s: %s" % (src, core.safe_str(o.value), bad), {"src": src})
            continue
        if form == 7:
            # key / cmp functions that sort something themselves while the outer sort is running
            tags_ = r.sample(range(max(100, 3 * len(items))), len(items))      # (not ascending: a tie broken by comparing the pairs themselves shows)
            pairs = [("list", (x, ("int", tags_[i]))) for i, x in enumerate(items)]
            lit = "[%s]" % ", ".join(gv.to_source(p_, r) for p_ in pairs)
            inner = "[%s]" % ", ".join(str(r.randint(0, 9)) for _ in range(r.choice([0, 1, 2, 3, 5, 8, 13])))
            which = r.randrange(4)
            if which == 0:
                src = "sorted(%s, key = fn(p) do sorted(%s, key = fn(x) 0 - x); p[0] end)" % (lit, inner)
            elif which == 1:
                src = "sorted(%s, cmp = fn(a, b) do sorted(%s, cmp = fn(x, y) compare(y, x)); compare(a[0], b[0]) end)" % (lit, inner)
            elif which == 2:
                src = "sorted(%s, key = fn(p) sorted([p[0], p[0]])[0])" % lit
            else:
                src = "sorted(%s, cmp = fn(a, b) compare(sorted([a[0]]), sorted([b[0]])))" % lit
            o = ev(src)
            ctx.count("sorted_calls")
            ctx.count("reentrant_sorted_calls")
            if o.kind != "value":
                ctx.violation("C07:sorted-error:reentrant:" + kind, "%s -> %s" % (src, core.safe_str(o.exc)), {"src": src})
                continue
            got = list(gv.abstract(o.value)[1])
            bad = is_sorted_stable(pairs, got, lambda p_: p_[1][0])
            if bad:
                ctx.violation("C07:sorted:reentrant:%s" % kind, "%s -> %s: %s" % (src, core.safe_str(o.value), bad), {"src": src})
            continue
        if form == 0:
            src = "sorted([%s])" % ", ".join(gv.to_source(x, r) for x in items)
            o = ev(src)
            ctx.count("sorted_calls")
            if o.kind != "value":
                ctx.violation("C07:sorted-error:plain:" + kind, "%s -> %s" % (src, core.safe_str(o.exc)), {"src": src})
                continue
            got = list(gv.abstract(o.value)[1])
            bad = is_sorted_stable(items, got, lambda x: x)
            if bad:
                ctx.violation("C07:sorted:plain:" + kind, "%s -> %s: %s" % (src, core.safe_str(o.value), bad), {"src": src})
        elif form in (1, 2):
            # [key, tag] pairs sorted by key function; tags witness stability
            tags_ = r.sample(range(max(100, 3 * len(items))), len(items))      # (not ascending: a tie broken by comparing the pairs themselves shows)
            pairs = [("list", (x, ("int", tags_[i]))) for i, x in enumerate(items)]
            lit = "[%s]" % ", ".join(gv.to_source(p, r) for p in pairs)
            if form == 1:
                src = "sorted(%s, key = fn(p) p[0])" % lit
            elif r.random() < 0.4:
                # both: the comparison function is handed the key values
                src = r.choice(["sorted(%s, cmp = compare, key = fn(p) p[0])", "sorted(%s, key = fn(p) p[0], cmp = fn(a, b) compare(a, b))", "sorted(%s, fn(a, b) compare(a, b), fn(p) p[0])"]) % lit
                ctx.count("sorted_with_cmp_and_key")
            else:
                src = "sorted(%s, cmp = fn(a, b) compare(a[0], b[0]))" % lit
            o = ev(src)
            ctx.count("sorted_calls")
            if o.kind != "value":
                ctx.violation("C07:sorted-error:key:" + kind, "%s -> %s" % (src, core.safe_str(o.exc)), {"src": src})
                continue
            got = list(gv.abstract(o.value)[1])
            bad = is_sorted_stable(pairs, got, lambda p: p[1][0])
            if bad:
                ctx.violation("C07:sorted:%s:%s" % ("key" if form == 1 else "cmp", kind),
                              "%s -> %s: %s" % (src, core.safe_str(o.value), bad), {"src": src})
        elif form == 3:
            # set enumeration ascending
            uniq = rv.dedupe(items)
            lit = "<< %s >>" % ", ".join(gv.to_source(x, r) for x in items)
            for src in ("[x for x in %s]" % lit, "list(%s)" % lit,
                        "def acc = []; for x in %s do acc !> append(x) end; acc" % lit):
                o = ev(src)
                ctx.count("set_enumerations")
                if o.kind != "value":
                    ctx.violation("C07:set-enum-error:" + kind, "%s -> %s" % (src, core.safe_str(o.exc)), {"src": src})
                    continue
                got = list(gv.abstract(o.value)[1])
                bad = None
                if len(got) != len(uniq):
                    bad = "expected %d elements" % len(uniq)
                for p, q in zip(got, got[1:]):
                    if not rv.ref_lt(p, q):
                        bad = "not ascending: %r then %r" % (p, q)
                if bad:
                    ctx.violation("C07:set-enumeration:" + kind, "%s -> %s: %s" % (src, core.safe_str(o.value), bad), {"src": src})
        else:
            uniq = rv.dedupe(items)
            lit = "<<< %s >>>" % ", ".join("%s => %d" % (gv.src_key(x, r, None), i) for i, x in enumerate(items))
            for src in ("[k for k in keys %s]" % lit, "list(set(%s))" % lit,
                        "def acc = []; for k in keys %s do acc !> append(k) end; acc" % lit,
                        "[e[0] for e in entries %s]" % lit):
                o = ev(src)
                ctx.count("map_key_enumerations")
                if o.kind != "value":
                    ctx.violation("C07:map-enum-error:" + kind, "%s -> %s" % (src, core.safe_str(o.exc)), {"src": src})
                    continue
                got = list(gv.abstract(o.value)[1])
                bad = None
                if len(got) != len(uniq):
                    bad = "expected %d keys" % len(uniq)
                for p, q in zip(got, got[1:]):
                    if not rv.ref_lt(p, q):
                        bad = "not ascending: %r then %r" % (p, q)
                if bad:
                    ctx.violation("C07:map-key-enumeration:" + kind, "%s -> %s: %s" % (src, core.safe_str(o.value), bad), {"src": src})


def run_shard(spec, ctx):
    if spec["kind"] == "suite":
        from cklmon import suite
        return suite.run_suite(ctx, "C07", "M2")
    valuelaws.MONITOR.install()
    if spec["kind"] == "api":
        run_api(spec, ctx)
    elif spec["kind"] == "programs":
        run_programs(spec, ctx)
    else:
        run_sorting(spec, ctx)
    valuelaws.MONITOR.drain(ctx, "C07")


def finalize(merged, tier):
    c = merged["counters"]
    reasons = []
    for k in ("lt_checks", "api_lt_pairs", "api_lt_triples", "program_evaluations", "sorted_calls",
              "set_enumerations", "map_key_enumerations", "enumerations_after_edits", "reentrant_sorted_calls"):
        if c.get(k, 0) == 0:
            reasons.append("monitor counter %s is zero" % k)
    if merged["counters"].get("suite_tests", 0) == 0 or merged["counters"].get("suite_report_missing", 0):
        reasons.append("M9: the repository suite under monitors produced no observations")
    return {}, reasons
