"""C06 — equality is an equivalence that set membership and map lookup respect.

Deciding monitors: reference equality (cklref.refvalue.ref_eq, exact via
Fraction) compared with the real ==/hash at the ckl.values API and through
interpreted programs; M2 law wrappers on every comparison made on the way."""
import itertools

from cklmon import core, valuelaws
from cklmon.core import observe
from cklgen import values as gv
from cklref import refvalue as rv

RULE = ("values = seeded adversarial pool (ints/decimals around 2^53, 2^63, 10^30, strings over a "
        "quote/escape alphabet, dates, patterns, nested lists/sets/maps, 1 next to 1.0); cases = "
        "every ordered pair of the pool (eq/hash/symmetry vs reference), every (a,b,c) with a==b "
        "and b==c (transitivity), every insertion order of <=5 elements into sets and maps "
        "(size = number of equality classes, membership/lookup/removal by every representative), "
        "and the same relations through interpreted programs; a case is non-trivial when the two "
        "values are distinct objects of container kind or of kinds that can be equal (same kind "
        "or int/decimal); distinct = distinct abstract (value,value[,value]) tuples")
ASSUMPTIONS = [
    "non-finite decimals (NaN, inf) are excluded: no literal syntax, IEEE NaN is irreflexive by definition",
    "functions, streams, nodes (identity semantics) are not data values",
    "reference equality is exact rational comparison for numbers, structural otherwise",
]


def plan(tier, seed):
    n = 8 if tier == "quick" else 32
    specs = [{"kind": "api", "pool": 130 if tier == "quick" else 220} for _ in range(n)]
    specs += [{"kind": "containers", "n": 250 if tier == "quick" else 2500} for _ in range(n // 2)]
    specs += [{"kind": "programs", "n": 1200 if tier == "quick" else 12000} for _ in range(n // 2)]
    specs += [{"kind": "suite"}]
    specs += [{"kind": "routes", "n": 150 if tier == "quick" else 1500} for _ in range(2 if tier == "quick" else 8)]
    specs += [{"kind": "large", "n": 40 if tier == "quick" else 400} for _ in range(2 if tier == "quick" else 6)]
    specs += [{"kind": "mutseq", "n": 600 if tier == "quick" else 6000} for _ in range(2 if tier == "quick" else 8)]
    return specs


MUST_HAVE = [("int", 2**53), ("int", 2**53 + 1), ("dec", float(2**53)), ("int", 1),
             ("dec", 1.0), ("str", "1"), ("bool", True), ("int", 0), ("dec", 0.0), ("dec", -0.0),
             ("bool", False), ("null",), ("str", ""), ("list", ()), ("set", ()), ("map", ()),
             ("list", (("int", 1),)), ("list", (("dec", 1.0),)), ("set", (("int", 1),)),
             ("set", (("dec", 1.0),)), ("map", ((("int", 1), ("int", 2)),)),
             ("map", ((("dec", 1.0), ("dec", 2.0)),)), ("int", 10**30), ("dec", 1e30),
             ("int", 10**30 + 1), ("str", "a"), ("pat", "a"), ("date", (2020, 1, 1, 0, 0, 0)),
             ("str", "20200101000000"), ("int", 2**63), ("dec", float(2**63)), ("int", 2**63 + 1),
             # the same content under another kind: empty object / map / list / set / string, one member named like one key
             ("obj", ()), ("obj", (("a", ("int", 1)),)), ("map", ((("str", "a"), ("int", 1)),)), ("obj", (("a", ("dec", 1.0)),)),
             ("list", (("str", "a"), ("int", 1))), ("set", (("str", "a"),)), ("list", (("list", (("str", "a"), ("int", 1))),)),
             ("pat", ""), ("str", "NULL"), ("str", "TRUE"), ("list", (("null",),)), ("set", (("null",),)),
             # spellings that Unicode calls equivalent (precomposed / combining, compatibility forms) are different strings:
             # other code points, other hash, other elements of a set
             ("str", "caf\u00e9"), ("str", "cafe\u0301"), ("str", "\u212b"), ("str", "\u00c5"), ("str", "A\u030a"), ("str", "\ufb01"), ("str", "fi"), ("str", "\u1e69"), ("str", "s\u0323\u0307"), ("str", "s\u0307\u0323"),
             ("list", (("str", "caf\u00e9"),)), ("list", (("str", "cafe\u0301"),))]

KINDS_ALL = ["null", "bool", "int", "dec", "str", "date", "pat"]
# decimals that differ by a few units in the last place: equal only if identical
import math as _math
_N1 = _math.nextafter(1.0, 2.0)
NEAR_PAIRS = [(("dec", 0.1 + 0.2), ("dec", 0.3)), (("dec", 1.0), ("dec", _N1)), (("dec", 1.0), ("dec", 1.0 + 6e-14)), (("dec", 1.0 + 6e-14), ("dec", 1.0 + 1.2e-13)),
              (("dec", 3.0), ("dec", 1.5 + 1.5000000000000004)), (("int", 3), ("dec", 1.5 + 1.5000000000000004)), (("dec", 1e16), ("dec", 1e16 + 2.0)),
              (("dec", 0.3), ("dec", 0.3 + 2.4e-15)), (("dec", -0.1 - 0.2), ("dec", -0.3)), (("dec", 100.0), ("dec", 100.00000000000001)),
              (("list", (("dec", 0.1 + 0.2),)), ("list", (("dec", 0.3),))), (("dec", 5e-324), ("dec", 0.0)), (("dec", 1e-300), ("dec", 1.0000000000000002e-300))]


def kpair(a, b):
    return "%s/%s" % (a[0], b[0])


def nontrivial_pair(a, b):
    return a[0] == b[0] or (rv.is_num(a) and rv.is_num(b))


def real_eq(ctx, x, y, what):
    """x == y at the API, classified."""
    o = observe(lambda: x == y, 100000)
    if o.kind != "value":
        ctx.violation("C06:eq-raises:%s" % (type(o.exc).__name__ if o.exc else "hang"),
                      "%s: == raised %s" % (what, core.safe_str(o.exc)), {})
        return None
    return o.value


def run_api(spec, ctx):
    r = ctx.rng
    pool = list(MUST_HAVE)
    while len(pool) < spec["pool"]:
        v = gv.gen_value(r, depth=r.choice([0, 1, 2, 3]), kinds=KINDS_ALL)
        if gv.finite(v):
            pool.append(v)
        # plant equal-but-differently-built twins
        if r.random() < 0.25:
            pool.append(twin(r, r.choice(pool)))
    reals = [gv.to_ckl(v, r) for v in pool]
    n = len(pool)
    eqm = [[None] * n for _ in range(n)]
    for i in range(n):
        for j in range(n):
            a, b = pool[i], pool[j]
            x, y = reals[i], reals[j]
            got = real_eq(ctx, x, y, "%s vs %s" % (a, b))
            eqm[i][j] = got
            want = rv.ref_eq(a, b)
            nt = nontrivial_pair(a, b) and i != j
            ctx.case(("pair", a, b), nontrivial=nt)
            ctx.count("api_pairs")
            if got is None:
                continue
            if got is not True and got is not False:
                ctx.violation("C06:eq-not-bool:" + kpair(a, b), "%r == %r gave %r" % (a, b, got), {"a": a, "b": b})
                continue
            if got != want:
                clause = "kind-disjointness" if a[0] != b[0] and not (rv.is_num(a) and rv.is_num(b)) else "ref-eq-mismatch"
                ctx.violation("C06:%s:%s" % (clause, kpair(a, b)),
                              "%s == %s is %r, reference says %r" % (core.safe_str(x, 80), core.safe_str(y, 80), got, want),
                              {"a": a, "b": b})
            if got:
                ctx.count("api_hash_checks")
                try:
                    if hash(x) != hash(y):
                        ctx.violation("C06:eq-hash:" + kpair(a, b),
                                      "%s == %s but hashes differ" % (core.safe_str(x, 80), core.safe_str(y, 80)),
                                      {"a": a, "b": b})
                except Exception as e:  # noqa
                    ctx.violation("C06:hash-raises:" + a[0], "hash raised %r" % (e,), {"a": a})
        if eqm[i][i] is False:
            ctx.violation("C06:reflexivity:" + pool[i][0], "%r != itself" % (pool[i],), {"a": pool[i]})
    for i in range(n):
        for j in range(n):
            if eqm[i][j] != eqm[j][i] and eqm[i][j] is not None and eqm[j][i] is not None:
                ctx.violation("C06:symmetry:" + kpair(pool[i], pool[j]),
                              "%r == %r is %r but reversed %r" % (pool[i], pool[j], eqm[i][j], eqm[j][i]),
                              {"a": pool[i], "b": pool[j]})
    # transitivity on the *real* relation
    for i in range(n):
        for j in range(n):
            if i == j or not eqm[i][j]:
                continue
            for k in range(n):
                if eqm[j][k]:
                    ctx.count("api_triples")
                    ctx.case(("triple", pool[i], pool[j], pool[k]), nontrivial=(i != k and j != k))
                    if not eqm[i][k]:
                        ctx.violation("C06:transitivity:%s/%s/%s" % (pool[i][0], pool[j][0], pool[k][0]),
                                      "%r == %r and %r == %r but %r != %r" % (pool[i], pool[j], pool[j], pool[k], pool[i], pool[k]),
                                      {"a": pool[i], "b": pool[j], "c": pool[k]})
    ctx.sample({"pool_size": n, "example_pairs": [[repr(pool[i]), repr(pool[j]), eqm[i][j]]
                                                  for i, j in [(0, 2), (1, 2), (3, 4), (8, 9)]]})


def twin(r, v):
    """A value equal to v built differently (other insertion order / numeric kind)."""
    k = v[0]
    if k == "int" and abs(v[1]) < 2**53:
        return ("dec", float(v[1]))
    if k == "dec" and v[1] == int(v[1]) and abs(v[1]) < 1e18:
        return ("int", int(v[1]))
    if k in ("set", "map"):
        items = list(v[1])
        r.shuffle(items)
        if k == "set":
            return ("set", tuple(twin(r, x) if r.random() < 0.3 else x for x in items))
        return ("map", tuple((kk, twin(r, vv) if r.random() < 0.3 else vv) for kk, vv in items))
    if k == "list":
        return ("list", tuple(twin(r, x) if r.random() < 0.3 else x for x in v[1]))
    return v


def run_containers(spec, ctx):
    import ckl.values as V
    r = ctx.rng
    for _ in range(spec["n"]):
        k = r.randint(1, 5)
        base = [gv.gen_value(r, depth=r.choice([0, 0, 1, 2]), kinds=KINDS_ALL) for _ in range(k)]
        base = [b for b in base if gv.finite(b)] or [("int", 1)]
        # add representatives equal to existing ones
        elems = list(base)
        for b in base:
            if r.random() < 0.5:
                elems.append(twin(r, b))
        if len(elems) > 5:
            elems = elems[:5]
        want_n = rv.n_classes(elems)
        sets = []
        perms = list(itertools.permutations(range(len(elems))))
        for p in perms:
            s = V.ValueSet()
            for i in p:
                s.addItem(gv.to_ckl(elems[i], r))
            sets.append(s)
            ctx.count("set_builds")
            ctx.case(("setorder", tuple(elems[i] for i in p)), nontrivial=len(elems) > 1)
            if len(s.value) != want_n:
                ctx.violation("C06:set-size:" + "/".join(sorted({e[0] for e in elems})),
                              "set built from %r has %d elements, %d equality classes" % (
                                  [elems[i] for i in p], len(s.value), want_n), {"elems": elems})
            for e in elems:
                if not s.hasItem(gv.to_ckl(e, r)):
                    ctx.violation("C06:set-membership:" + e[0],
                                  "element %r not found in set built from %r" % (e, elems), {"elems": elems})
            probe = gv.gen_value(r, depth=1, kinds=KINDS_ALL)
            if gv.finite(probe) and s.hasItem(gv.to_ckl(probe)) != rv.member(probe, elems):
                ctx.violation("C06:set-membership-probe:" + probe[0],
                              "hasItem(%r) on set of %r disagrees with reference" % (probe, elems), {"elems": elems, "probe": probe})
        for s in sets[1:]:
            if not (sets[0] == s) or hash(sets[0]) != hash(s):
                ctx.violation("C06:set-eq-insertion-order", "sets from permutations of %r differ" % (elems,), {"elems": elems})
                break
        # removal by another representative
        for e in elems:
            s = V.ValueSet()
            for x in elems:
                s.addItem(gv.to_ckl(x, r))
            t = twin(r, e)
            o = observe(lambda: s.removeItem(gv.to_ckl(t)), 100000)
            ctx.count("set_removals")
            if o.kind != "value":
                ctx.violation("C06:set-remove-by-representative:" + e[0],
                              "removing %r (equal to member %r) raised %s" % (t, e, core.safe_str(o.exc)), {"elems": elems})
            elif len(s.value) != want_n - 1 or s.hasItem(gv.to_ckl(e)):
                ctx.violation("C06:set-remove-by-representative:" + e[0],
                              "after removing %r from %r: %s" % (t, elems, core.safe_str(s)), {"elems": elems})
        # maps
        vals = [("int", i) for i in range(len(elems))]
        maps = []
        for p in perms[:24]:
            m = V.ValueMap()
            for i in p:
                m.addItem(gv.to_ckl(elems[i], r), gv.to_ckl(vals[i]))
            maps.append((p, m))
            ctx.count("map_builds")
            if len(m.value) != want_n:
                ctx.violation("C06:map-size:" + "/".join(sorted({e[0] for e in elems})),
                              "map keyed by %r has %d keys, %d classes" % ([elems[i] for i in p], len(m.value), want_n), {"elems": elems})
            # last write to an equality class wins
            for e in elems:
                last = [i for i in p if rv.ref_eq(elems[i], e)][-1]
                key = gv.to_ckl(twin(r, e))
                if not m.hasItem(key):
                    ctx.violation("C06:map-lookup:" + e[0], "key %r missing from map keyed by %r" % (e, elems), {"elems": elems})
                elif m.getItem(key).value != last:
                    ctx.violation("C06:map-lookup-value:" + e[0],
                                  "lookup of %r gave %r, expected value of last equal key %d" % (e, m.getItem(key), last), {"elems": elems})
        if rv.n_classes(elems) == len(elems):
            for p, m in maps[1:]:
                if not (maps[0][1] == m) or hash(maps[0][1]) != hash(m):
                    ctx.violation("C06:map-eq-insertion-order", "maps from permutations of keys %r differ" % (elems,), {"elems": elems})
                    break


def literalable(v):
    """expressible as literal source (dates via date('..'); patterns only if spellable)"""
    k = v[0]
    if k == "pat":
        return gv.pat_literal_ok(v[1]) and _compiles(v[1])
    if k in ("list", "set"):
        return all(literalable(x) for x in v[1])
    if k == "map":
        return all(literalable(a) and literalable(b) for a, b in v[1])
    if k == "str":
        return "\x00" not in v[1] or True
    return True


def _compiles(t):
    import re
    try:
        re.compile(t)
        return True
    except Exception:  # noqa
        return False


def run_programs(spec, ctx):
    r = ctx.rng
    it, out = core.new_interpreter(secure=True, legacy=True)
    import ckl.functions

    def ev(src):
        env = ckl.functions.Environment()
        return observe(lambda: it.interpret(src, "c06", env), 400000)

    def expect_bool(src, want, key, info):
        o = ev(src)
        ctx.count("program_evaluations")
        if o.kind != "value":
            ctx.violation("C06:program-error:" + key, "%s -> %s %s" % (src, o.kind, core.safe_str(o.exc)), {"src": src})
            return
        got = gv.abstract(o.value) if o.value.type() == "boolean" else None
        if got != ("bool", want):
            ctx.violation("C06:program:" + key, "%s evaluated to %s, reference says %r" % (src, core.safe_str(o.value), want), {"src": src})

    for _ in range(spec["n"]):
        a = gv.gen_value(r, depth=r.choice([0, 0, 1, 2]), kinds=KINDS_ALL)
        b = twin(r, a) if r.random() < 0.4 else gv.gen_value(r, depth=r.choice([0, 0, 1, 2]), kinds=KINDS_ALL)
        if r.random() < 0.15:
            a, b = r.sample(MUST_HAVE, 2)
        elif r.random() < 0.08:
            a, b = r.choice(NEAR_PAIRS)
            if r.random() < 0.5:
                a, b = b, a
            ctx.count("near_equal_decimal_pairs")
        if r.random() < 0.04:
            # dates a fraction of a second apart (reached by date arithmetic): whatever `==` says about them, membership,
            # set equality, set size and map lookup say the same
            base_d = "date('%04d%02d%02d%02d%02d%02d')" % (r.choice([1970, 2020, 2000]), r.randint(1, 12), r.randint(1, 28), r.randint(0, 23), r.randint(0, 59), r.randint(0, 59))
            off = r.choice(["0.000004", "0.000001", "0.0000058", "0.00001", "0.0000115", "0.000000001"])
            src = ("def d = %s; def e = d + %s; def q = (d == e); "
                   "[(e in <<d>>) == q, (<<d>> == <<e>>) == q, (length(<<d, e>>) == 1) == q, (<<<identity(d) => 1>>>[e, 0] == 1) == q, (e in [d]) == q, "
                   "([d] == [e]) == q, (length(unique([d, e])) == 1) == q, (d != e) == (not q)]" % (base_d, off))
            o = ev(src)
            ctx.count("program_evaluations")
            ctx.count("subsecond_date_programs")
            ctx.case(("subsecond", base_d, off), nontrivial=True)
            if o.kind != "value":
                ctx.violation("C06:program-error:subsecond-dates", "%s -> %s %s" % (src, o.kind, core.safe_str(o.exc)), {"src": src})
            elif "FALSE" in core.safe_str(o.value):
                ctx.violation("C06:program:subsecond-dates", "%s -> %s: `==` and the containers disagree about two dates a fraction of a second apart" % (src, core.safe_str(o.value)), {"src": src})
        if not (gv.finite(a) and gv.finite(b) and literalable(a) and literalable(b)):
            continue
        sa, sb = gv.to_source(a, r, r), gv.to_source(b, r, r)
        ka, kb = gv.src_key(a, r, r), gv.src_key(b, r, r)
        want = rv.ref_eq(a, b)
        ctx.case(("prog", a, b), nontrivial=nontrivial_pair(a, b))
        kp = kpair(a, b)
        form = r.randrange(8)
        if form == 0:
            expect_bool("(%s) == (%s)" % (sa, sb), want, "eq-op:" + kp, None)
            expect_bool("(%s) != (%s)" % (sa, sb), not want, "ne-op:" + kp, None)
        elif form == 1:
            expect_bool("(%s) is (%s)" % (sa, sb), want, "is-op:" + kp, None)
            expect_bool("(%s) <> (%s)" % (sa, sb), not want, "ne2-op:" + kp, None)
        elif form == 2:
            c = gv.gen_value(r, depth=1, kinds=KINDS_ALL)
            if not (gv.finite(c) and literalable(c)):
                continue
            sc = gv.to_source(c, r, r)
            expect_bool("(%s) in [%s, %s]" % (sa, sb, sc), rv.member(a, [b, c]), "in-list:" + kp, None)
            expect_bool("(%s) in << %s, %s >>" % (sa, sb, sc), rv.member(a, [b, c]), "in-set:" + kp, None)
            expect_bool("(%s) not in << %s, %s >>" % (sa, sc, sb), not rv.member(a, [b, c]), "not-in-set:" + kp, None)
        elif form == 3:
            expect_bool("length(<< %s, %s >>) == %d" % (sa, sb, rv.n_classes([a, b])), True, "set-literal-size:" + kp, None)
            expect_bool("<< %s, %s >> == << %s, %s >>" % (sa, sb, sb, sa), True, "set-eq-order:" + kp, None)
        elif form == 4:
            if want:
                expect_bool("<<<%s => 1>>>[%s] == 1" % (ka, sb), True, "map-lookup:" + kp, None)
                expect_bool("(%s) in <<<%s => 1>>>" % (sb, ka), True, "map-in:" + kp, None)
            else:
                expect_bool("(%s) in <<<%s => 1>>>" % (sb, ka), False, "map-in:" + kp, None)
                expect_bool("<<<%s => 1>>>[%s, 'dflt'] == 'dflt'" % (ka, sb), True, "map-default:" + kp, None)
        elif form == 5:
            # removal by an equal representative
            if want:
                expect_bool("def s = << %s, 'keep' >>; remove(s, %s); s == <<'keep'>>" % (sa, sb), True, "remove-set:" + kp, None)
                expect_bool("def m = <<<%s => 1, 'keep' => 2>>>; remove(m, %s); m == <<<'keep' => 2>>>" % (ka, sb), True, "remove-map:" + kp, None)
                expect_bool("def l = [%s, 'keep']; remove(l, %s); l == ['keep']" % (sa, sb), True, "remove-list:" + kp, None)
        elif form == 6:
            expect_bool("length(<< %s >> - << %s >>) == %d" % (sa, sb, 0 if want else 1), True, "set-difference:" + kp, None)
            expect_bool("length([%s] - [%s]) == %d" % (sa, sb, 0 if want else 1), True, "list-difference:" + kp, None)
        else:
            expect_bool("<<<%s => 1, %s => 2>>> == <<<%s => %d, %s => 2>>>" % (ka, kb, kb if want else ka, 2 if want else 1, kb),
                        True, "map-eq:" + kp, None)
            expect_bool("[%s, [%s]] == [%s, [%s]]" % (sa, sa, sb, sb), want, "nested-list-eq:" + kp, None)
        ctx.sample_maybe({"a": sa, "b": sb, "reference_equal": want}, 0.01)


def _jsonable(v, top=True):
    k = v[0]
    if k in ("bool", "int", "str"):
        return True
    if k == "dec":
        return v[1] == v[1] and abs(v[1]) < 1e15 and v[1] != 0 or str(v[1]) == "0.0"
    if k == "list":
        return all(_jsonable(x, False) for x in v[1])
    if k == "map":
        return all(kk[0] == "str" and _jsonable(vv, False) for kk, vv in v[1])
    return False


def _textable(v):
    """values whose text evaluates to them again (C08's data values, minus dates)"""
    if v[0] in ("list", "set"):
        return all(_textable(x) for x in v[1])
    if v[0] == "map":
        return all(_textable(a) and _textable(b) for a, b in v[1])
    return v[0] in ("null", "bool", "int", "dec", "str")


def _json_text(v, r):
    import json
    k = v[0]
    if k == "bool":
        return "true" if v[1] else "false"
    if k == "int":
        return str(v[1])
    if k == "dec":
        return repr(v[1])
    if k == "str":
        return json.dumps(v[1], ensure_ascii=r.random() < 0.5)
    if k == "list":
        return "[" + ", ".join(_json_text(x, r) for x in v[1]) + "]"
    items = list(v[1])
    r.shuffle(items)
    return "{" + ", ".join("%s: %s" % (json.dumps(kk[1]), _json_text(vv, r)) for kk, vv in items) + "}"


def routes_for(v, r):
    """the same value built along different routes: literals in two orders, parsed from JSON text in two member orders,
    evaluated from its own text, assembled by library functions, comprehensions and sequences of in-place edits"""
    S = lambda x: gv.to_source(x, r, r)      # noqa: E731
    K = lambda x: gv.src_key(x, r, r)        # noqa: E731
    k = v[0]
    out = [("literal", S(v)), ("literal-other-order", S(v)),
           # bound by a definition that carries a documentation text, and handed through a function
           ("documented-def", 'do "what it is for" def dd_ = %s; dd_ end' % S(v)), ("through-function", "(fn(p_) p_)(%s)" % S(v)),
           ("documented-def-of-variable", 'do def plain_ = %s; "another name for it" def dd_ = plain_; dd_ end' % S(v))]
    if k in ("list", "set", "map") and _textable(v):
        out.append(("eval-of-text", "eval(string(%s))" % S(v)))
    if _jsonable(v) and k in ("list", "map"):
        out += [("parse_json", "parse_json(%s)" % gv.str_literal(_json_text(v, r), r)), ("parse_json-other-order", "parse_json(%s)" % gv.str_literal(_json_text(v, r), r))]
    if k == "map":
        items = list(v[1])
        r.shuffle(items)
        pairs = "[" + ", ".join("[%s, %s]" % (S(kk), S(vv)) for kk, vv in items) + "]"
        out.append(("map-of-pairs", "map(%s)" % pairs))
        out.append(("comprehension", "<<<p_[0] => p_[1] for p_ in %s>>>" % pairs))
        r.shuffle(items)
        out.append(("zip_map", "zip_map([%s], [%s])" % (", ".join(S(kk) for kk, vv in items), ", ".join(S(vv) for kk, vv in items))))
        r.shuffle(items)
        out.append(("put-sequence", "do def m_ = <<<>>>; %s m_ end" % "".join("put(m_, %s, %s); " % (S(kk), S(vv)) for kk, vv in items)))
        r.shuffle(items)
        out.append(("entry-assignments", "do def m_ = <<<>>>; %s m_ end" % "".join("m_[%s] = %s; " % (S(kk), S(vv)) for kk, vv in items)))
        if items:
            extra = items[0]
            out.append(("put-remove", "do def m_ = %s; put(m_, 'zq_', 0); remove(m_, 'zq_'); remove(m_, %s); put(m_, %s, %s); m_ end" % (S(v), S(extra[0]), S(extra[0]), S(extra[1]))))
        if all(kk[0] == "str" and kk[1].isidentifier() for kk, vv in items):
            out.append(("object-and-back", "map(object(%s))" % S(v)))
    elif k == "set":
        items = list(v[1])
        r.shuffle(items)
        out.append(("set-of-list", "set([%s])" % ", ".join(S(x) for x in items + items[:2])))
        out.append(("comprehension", "<<x_ for x_ in [%s]>>" % ", ".join(S(x) for x in items)))
        r.shuffle(items)
        out.append(("append-sequence", "do def s_ = <<>>; %s s_ end" % "".join("append(s_, %s); " % S(x) for x in items + items[:1])))
        h = len(items) // 2
        out.append(("union", "union(<<%s>>, <<%s>>)" % (", ".join(S(x) for x in items[:h + 1]), ", ".join(S(x) for x in items[h:]))))
        out.append(("plus", "<<%s>> + <<%s>>" % (", ".join(S(x) for x in items[h:]), ", ".join(S(x) for x in items[:h]))))
        out.append(("minus", "<<%s, 'zq_'>> - <<'zq_'>>" % ", ".join(S(x) for x in items) if items else "<<'zq_'>> - <<'zq_'>>"))
    elif k == "list":
        items = list(v[1])
        h = len(items) // 2
        out.append(("concatenation", "[%s] + [%s]" % (", ".join(S(x) for x in items[:h]), ", ".join(S(x) for x in items[h:]))))
        out.append(("spread", "[...[%s], ...[%s]]" % (", ".join(S(x) for x in items[:h]), ", ".join(S(x) for x in items[h:]))))
        out.append(("append-sequence", "do def l_ = []; %s l_ end" % "".join("append(l_, %s); " % S(x) for x in items)))
        out.append(("comprehension", "[x_ for x_ in %s]" % S(v)))
        out.append(("sublist", "sublist(['zq_'] + %s, 1)" % S(v)))
        out.append(("element-assignments", "do def l_ = [%s]; %s l_ end" % (", ".join("0" for _ in items), "".join("l_[%d] = %s; " % (i, S(x)) for i, x in enumerate(items)))))
    elif k == "str":
        t = v[1]
        h = len(t) // 2
        out.append(("concatenation", "%s + %s" % (gv.str_literal(t[:h], r), gv.str_literal(t[h:], r))))
        out.append(("join", "join([%s], '')" % ", ".join(gv.str_literal(c, r) for c in t)))
        out.append(("string-of-string", "string(%s)" % S(v)))
        out.append(("element-edits", "do def t_ = %s; t_[0] = ''; t_ end" % gv.str_literal("Z" + t, r)))
    elif k == "int":
        out.append(("arithmetic", "(%s + 1) - 1" % S(v)))
        out.append(("int-of-string", "int('%d')" % v[1]))
        out.append(("parse_json", "parse_json('%d')" % v[1]))
    elif k == "dec":
        if _jsonable(v):
            out.append(("parse_json", "parse_json('%s')" % repr(v[1])))
        out.append(("decimal-of-string", "decimal('%s')" % gv.dec_literal(v[1])))
        out.append(("times-one", "%s * 1" % S(v)))
    return out


def run_routes(spec, ctx):
    """equal values are interchangeable however they came about"""
    import ckl.functions
    r = ctx.rng
    it, out = core.new_interpreter(secure=True, legacy=True)
    specials = [("null",), ("bool", True), ("bool", False), ("int", 0), ("str", ""), ("list", ()), ("set", ()), ("map", ()), ("list", (("null",),)), ("dec", 0.0)]
    for i in range(spec["n"]):
        kinds = ["bool", "int", "dec", "str"] if i % 2 else KINDS_ALL
        v = gv.gen_value(r, depth=r.choice([1, 2, 2, 3]), kinds=kinds, containers=("list", "map", "map", "set") if i % 2 == 0 else ("list", "map"))
        if i < len(specials):
            v = specials[i]
        if i % 2:
            # JSON-shaped: maps keyed by strings
            def strkeys(x):
                if x[0] == "map":
                    return ("map", tuple(rv.dedupe_map([(("str", "k%d" % j if kk[0] != "str" else kk[1]), strkeys(vv)) for j, (kk, vv) in enumerate(x[1])])))
                if x[0] == "list":
                    return ("list", tuple(strkeys(y) for y in x[1]))
                return x
            v = strkeys(v)
        try:
            rts = routes_for(v, r)
        except ValueError:
            continue
        vals = []
        for name, src in rts:
            o = observe(lambda: it.interpret(src, "c06", ckl.functions.Environment()), 600000)
            ctx.count("route_evaluations")
            if o.kind != "value":
                ctx.count("route_not_usable:" + name)
                if name == "literal":
                    ctx.note("literal not usable: %s -> %s %s" % (src[:200], o.kind, core.safe_str(o.exc, 100)))
                continue
            vals.append((name, src, o.value))
        ctx.case(("routes", gv.to_source(v)))
        if v[0] == "map" and vals and v[1]:
            # the [key, value] entries a map is walked by are lists like any other: equal to the list of the same two values
            env = ckl.functions.Environment()
            env.put("c1", vals[0][2])
            probe = ("def same_(e_) [e_ == [e_[0], e_[1]], [e_[0], e_[1]] == e_, e_ in [[e_[0], e_[1]]], [e_[0], e_[1]] in [e_], length(<<e_, [e_[0], e_[1]]>>) == 1, "
                     "<<<identity(e_) => 1>>>[[e_[0], e_[1]], 0] == 1, type(e_) == 'list', find([[e_[0], e_[1]]], e_) == 0]; def acc_ = []; "
                     "for e_ in entries c1 do append(acc_, same_(e_)) end; [acc_, [same_(e_) for e_ in entries c1], [same_(e_) for e_ in c1] == [same_(e_) for e_ in entries c1]]")
            o = observe(lambda: it.interpret(probe, "c06", env), 900000)
            ctx.count("entry_list_checks")
            txt = core.safe_str(o.value if o.kind == "value" else o.exc, 400)
            if o.kind != "value" or "FALSE" in txt:
                ctx.violation("C06:entries-are-lists", "c1 = %s: for each entry e of c1, [e == [k, v], [k, v] == e, e in [[k, v]], [k, v] in [e], one set element, map lookup, type, find] = %s" % (
                    vals[0][1][:300], txt), {"c1": vals[0][1]})
        pairs = [(a, b) for a in range(len(vals)) for b in range(len(vals)) if a < b]
        r.shuffle(pairs)
        for a, b in pairs[:10]:
            (n1, s1, c1), (n2, s2, c2) = vals[a], vals[b]
            env = ckl.functions.Environment()
            env.put("c1", c1)
            env.put("c2", c2)
            o = observe(lambda: it.interpret(
                "[c1 == c2, c2 == c1, c2 in <<c1>>, length(<<c1, c2>>) == 1, <<<identity(c1) => 'v'>>>[c2, 'missing'] == 'v', <<c1, 1>> == <<c2, 1>>, "
                "do def s_ = <<c1>>; remove(s_, c2); length(s_) == 0 catch all 'raised' end, c2 in [c1], find(['zq_', c1], c2) == 1, [c1] == [c2], "
                "string(c1) == string(c2), type(c1) == type(c2), not (c1 != c2), compare(c1, c2) == 0]", "c06", env), 600000)
            ctx.count("route_pairs")
            ctx.count("program_evaluations")
            txt = core.safe_str(o.value if o.kind == "value" else o.exc, 300)
            if o.kind != "value" or txt != "[" + ", ".join(["TRUE"] * 14) + "]":
                ctx.violation("C06:routes:%s/%s:%s" % (n1, n2, v[0]),
                              "c1 = %s and c2 = %s are the same value, but [==, ==, in set, set size 1, map lookup, set ==, remove, in list, find, list ==, same text, same type, not !=, compare 0] = %s" % (
                                  s1[:300], s2[:300], txt), {"c1": s1, "c2": s2})
    ctx.sample({"routes_example": [n for n, s_ in routes_for(("map", ((("str", "a"), ("int", 1)),)), r)]})


def run_large(spec, ctx):
    """containers of 17..600 members built in two different orders (API and programs): equal, equal hashes, each a
    member of the set holding the other, found as a map key, removable; list difference and membership with long
    right-hand sides mixing ints and numerically equal decimals"""
    import ckl.functions
    import ckl.values as V
    r = ctx.rng
    it, out = core.new_interpreter(secure=True, legacy=True)

    def ev(src, env=None):
        env = env or ckl.functions.Environment()
        return observe(lambda: it.interpret(src, "c06", env), 6000000)
    for _ in range(spec["n"]):
        n = r.choice([17, 32, 33, 40, 64, 65, 100, 128, 129, 200, 500, 600])
        kind = r.choice(["int", "str", "mixnum", "list", "set"])
        if kind == "int":
            elems = [("int", x) for x in r.sample(range(-1000, 100000), n)]
        elif kind == "str":
            elems = [("str", "k%d" % x) for x in r.sample(range(100000), n)]
        elif kind == "mixnum":
            elems = [("int", x) if r.random() < 0.5 else ("dec", float(x)) for x in r.sample(range(0, 5000), n)]
        elif kind == "list":
            elems = [("list", (("int", x), ("str", "v"))) for x in r.sample(range(100000), n)]
        else:
            elems = [("set", (("int", x), ("int", x + 1 + r.randint(0, 3)))) for x in r.sample(range(0, 100000, 7), n)]
        shape = r.choice(["set", "map", "object"]) if kind in ("str",) else r.choice(["set", "map"])
        o1, o2 = list(elems), list(elems)
        r.shuffle(o2)
        ctx.case(("large", shape, kind, n, tuple(o2[:5])), nontrivial=True)
        ctx.count("large_containers")

        def build(order):
            if shape == "set":
                c = V.ValueSet()
                for e in order:
                    c.addItem(gv.to_ckl(e))
                return c
            if shape == "map":
                c = V.ValueMap()
                for i_, e in enumerate(order):
                    c.addItem(gv.to_ckl(e), V.ValueInt(elems.index(e)))
                return c
            c = V.ValueObject()
            for e in order:
                c.addItem(e[1], V.ValueInt(elems.index(e)))
            return c
        try:
            c1, c2 = build(o1), build(o2)
            eq = (c1 == c2)
            h = (hash(c1) == hash(c2))
        except Exception as e:  # noqa
            ctx.violation("C06:large:api-raises:%s" % shape, "%d %s members: %r" % (n, kind, e), {})
            continue
        if eq is not True:
            ctx.violation("C06:large:order-dependent-equality:%s:%s" % (shape, kind), "two %ss of the same %d members built in different orders are not equal" % (shape, n), {"n": n})
            continue
        if not h:
            ctx.violation("C06:large:eq-hash:%s:%s" % (shape, kind), "two equal %ss of %d members built in different orders hash differently" % (shape, n), {"n": n})
        env = ckl.functions.Environment()
        env.put("c1", c1)
        env.put("c2", c2)
        o = ev("[c1 == c2, c2 in <<c1>>, length(<<c1, c2>>) == 1, <<<identity(c1) => 'v'>>>[c2, 'missing'] == 'v', <<c1, 1>> == <<c2, 1>>, "
               "do def s_ = <<c1>>; remove(s_, c2); length(s_) == 0 catch all 'raised' end, c2 in [c1], %s]" % ("TRUE" if shape == "object" else "string(c1) == string(c2)"), env)
        ctx.count("program_evaluations")
        if o.kind != "value" or core.safe_str(o.value) != "[TRUE, TRUE, TRUE, TRUE, TRUE, TRUE, TRUE, TRUE]":
            ctx.violation("C06:large:interchangeable:%s:%s" % (shape, kind),
                          "two equal %ss of %d %s members built in different orders: [==, in set, set size 1, map lookup, set ==, remove, in list, same text] = %s" % (
                              shape, n, kind, core.safe_str(o.value if o.kind == "value" else o.exc, 200)), {"n": n})
        if r.random() < 0.2:
            # function values: equality is identity, whatever name a later def gives them
            o = ev("def f = fn(x) x; def s = << f >>; def m = <<< identity(f) => 1 >>>; def g = f; def renamed = g; def h = fn(x) x; "
                   "[f in s, g in s, renamed in s, m[g, 0] == 1, length(<< f, g, renamed >>) == 1, f == g, h in s, length(<< f, h >>), f == h, (fn(x) x) in s]")
            ctx.count("program_evaluations")
            ctx.count("function_value_programs")
            if o.kind != "value" or core.safe_str(o.value) != "[TRUE, TRUE, TRUE, TRUE, TRUE, TRUE, FALSE, 2, FALSE, FALSE]":
                ctx.violation("C06:function-values", "a function held in a set / as a map key, then given other names by def: %s" % core.safe_str(o.value if o.kind == "value" else o.exc, 200), {})
        # membership / difference against a long right-hand side holding numerically equal numbers of the other kind
        m = r.choice([17, 33, 65, 130])
        rhs_vals = r.sample(range(0, 400), m)
        rhs = [("int", x) if r.random() < 0.5 else ("dec", float(x)) for x in rhs_vals]
        lhs = [("int", x) if r.random() < 0.5 else ("dec", float(x)) for x in r.sample(range(0, 400), 12)] + [("int", rhs_vals[0]), ("dec", float(rhs_vals[1]))]
        want_diff = [x for x in lhs if not rv.member(x, rhs)]
        src_l, src_r = gv.to_source(("list", tuple(lhs))), gv.to_source(("list", tuple(rhs)))
        o = ev("def l = %s; def b = %s; [l - b, [x for x in l if x not in b], [x for x in l if not (x in set(b))], list(set(l) - set(b)) == sorted(unique([x for x in l if x not in b]))]" % (src_l, src_r))
        ctx.count("program_evaluations")
        ctx.count("long_difference_programs")
        ok = False
        if o.kind == "value":
            try:
                got = gv.abstract(o.value)
                ok = (rv.ref_eq(got[1][0], ("list", tuple(want_diff))) and rv.ref_eq(got[1][1], ("list", tuple(want_diff)))
                      and rv.ref_eq(got[1][2], ("list", tuple(want_diff))) and got[1][3] == ("bool", True))
            except Exception:  # noqa
                ok = False
        if not ok:
            ctx.violation("C06:large:difference-respects-equality", "l - b with %d elements in b (ints and equal decimals): %s, reference difference %s" % (
                m, core.safe_str(o.value if o.kind == "value" else o.exc, 300), gv.to_source(("list", tuple(want_diff)))[:200]), {"l": src_l, "b": src_r})


def run_mutation_sequences(spec, ctx):
    """equal values must stay interchangeable as set elements and map keys after a nested part of one of them was
    mutated *after* the value had already been hashed (stale cached hashes, stale sorted views)"""
    import ckl.functions
    r = ctx.rng
    it, out = core.new_interpreter(secure=True, legacy=True)
    for _ in range(spec["n"]):
        ik = r.choice(["list", "list", "set", "map"])
        a, b, c = r.sample(range(1, 9), 3)
        if ik == "list":
            inner0, mut, inner1 = "[%d]" % a, r.choice(["append(inner, %d)" % b, "inner !> append(%d)" % b, "insert_at(inner, 1, %d)" % b]), "[%d, %d]" % (a, b)
            if r.random() < 0.3:
                mut, inner1 = "inner[0] = %d" % b, "[%d]" % b
        elif ik == "set":
            inner0, mut, inner1 = "<<%d>>" % a, "append(inner, %d)" % b, "<<%d, %d>>" % (a, b)
            if r.random() < 0.3:
                inner0, mut, inner1 = "<<%d, %d>>" % (a, b), "remove(inner, %d); append(inner, %d)" % (a, c), "<<%d, %d>>" % (b, c)
        else:
            inner0, mut, inner1 = "<<<%d => 1>>>" % a, r.choice(["inner[%d] = 2" % b, "put(inner, %d, 2)" % b]), "<<<%d => 1, %d => 2>>>" % (a, b)
        ok_ = r.choice(["[inner]", "[0, inner]", "[[inner]]", "<<< 'k' => inner >>>"])
        outer0 = ok_
        outer1 = ok_.replace("inner", inner1)
        touch = r.choice(["outer in << [[9]] >>", "<<< identity(outer) => 1 >>>", "set([outer])", "length(<< outer, 1 >>)", "string(outer)", "outer == 1"])
        src = ("def inner = %s; def outer = %s; %s; %s; def fresh = %s; "
               "[outer == fresh, fresh in << outer >>, outer in << fresh >>, length(<< outer, fresh >>), << outer >> == << fresh >>, "
               "<<< identity(outer) => 7 >>>[fresh], fresh in <<< identity(outer) => 7 >>>, string(outer) == string(fresh)]") % (inner0, outer0, touch, mut, outer1)
        env = ckl.functions.Environment()
        o = observe(lambda: it.interpret(src, "c06", env), 600000)
        ctx.count("mutation_sequences")
        ctx.case(("mutseq", src))
        want = "[TRUE, TRUE, TRUE, 1, TRUE, 7, TRUE, TRUE]"
        if o.kind != "value":
            ctx.violation("C06:mutation-sequence:error:" + ik, "%s -> %s %s" % (src, o.kind, core.safe_str(o.exc, 100)), {"src": src})
        elif str(o.value) != want:
            ctx.violation("C06:mutation-sequence:%s" % ik, "%s -> %s, expected %s" % (src, core.safe_str(o.value), want), {"src": src})
    ctx.sample({"mutation_sequence": src})


def run_shard(spec, ctx):
    valuelaws.MONITOR.install()
    if spec["kind"] == "suite":
        from cklmon import suite
        return suite.run_suite(ctx, "C06", "M2")
    if spec["kind"] == "large":
        return run_large(spec, ctx)
    if spec["kind"] == "routes":
        run_routes(spec, ctx)
        valuelaws.MONITOR.drain(ctx, "C06")
        return
    if spec["kind"] == "mutseq":
        run_mutation_sequences(spec, ctx)
        valuelaws.MONITOR.drain(ctx, "C06")
        return
    if spec["kind"] == "api":
        run_api(spec, ctx)
    elif spec["kind"] == "containers":
        run_containers(spec, ctx)
    else:
        run_programs(spec, ctx)
    valuelaws.MONITOR.drain(ctx, "C06")


def finalize(merged, tier):
    c = merged["counters"]
    reasons = []
    for k in ("eq_checks", "hash_checks", "api_pairs", "api_triples", "set_builds", "map_builds",
              "program_evaluations", "mutation_sequences", "large_containers", "long_difference_programs"):
        if c.get(k, 0) == 0:
            reasons.append("monitor counter %s is zero" % k)
    if merged["counters"].get("suite_tests", 0) == 0 or merged["counters"].get("suite_report_missing", 0):
        reasons.append("M9: the repository suite under monitors produced no observations")
    return {}, reasons
