"""C04 — conditionals, loops, comprehensions and early exits have structured semantics.

Deciding monitors: reference evaluator against result + event log (visited
iterations, evaluated conditions, chosen branches) of generated programs;
model-free agreement between every comprehension and its explicit-loop
expansion on the real interpreter; adequacy by wrong-semantics modes."""
from cklmon import core, differ
from cklgen import programs
from cklref import refvalue as rv

RULE = ("programs: loop nests <= 3 over lists, sets (ints/strings), maps (keys/values/entries, destructured pairs) and "
        "strings, `while` with logged condition, if/elif/else with logged conditions, break/continue/return planted at "
        "random statement positions (also inside do..finally inside loops and inside called functions); every "
        "comprehension form (list/set/map; single, product, also-for; with/without filter) paired with its explicit "
        "loop; sets and map keys of mixed and nested kinds (booleans next to ints, sets of sets, lists, strings, NULL) "
        "whose visiting order must ascend under the language's own <; a case is one program; non-trivial = some wrong-semantics mode (break exits all loops, continue as "
        "break, return leaves only the loop, condition tested once, unsorted set/map iteration, filter ignored, "
        "also-for stops at the shorter) changes its observable outcome; distinct by program text")
ASSUMPTIONS = [
    "only explicit keys/values/entries are compared between comprehension and loop (the defaults differ by design)",
    "loop variables are never read after the loop",
]
MODES = ["break_all", "continue_as_break", "return_loop_only", "while_once", "unsorted_set", "finally_skipped_on_break"]
COMP_MODES = ["filter_ignored", "parallel_min", "unsorted_set"]
SHARD_TIMEOUT = {"quick": 300, "thorough": 3000}


def plan(tier, seed):
    n = 10 if tier == "quick" else 40
    return ([{"kind": "control", "n": 600 if tier == "quick" else 3500} for _ in range(n)]
            + [{"kind": "comprehensions", "n": 700 if tier == "quick" else 4000} for _ in range(n // 2)]
            + [{"kind": "order", "n": 500 if tier == "quick" else 4000} for _ in range(2 if tier == "quick" else 8)])


def multiset(av):
    if av[0] == "list":
        return sorted(repr(x) for x in av[1])
    return av


def run_shard(spec, ctx):
    R = differ.RealRunner(secure=True, legacy=True)
    r = ctx.rng
    if spec["kind"] == "order":
        return run_order(spec, ctx)
    if spec["kind"] == "control":
        for _ in range(spec["n"]):
            g = programs.Gen(r)
            differ.diff_check(ctx, R, g.control_program(), "C04", MODES, "control")
    else:
        for _ in range(spec["n"]):
            g = programs.Gen(r)
            comp, explicit, ms = g.comprehension_case()
            real, rlog, text = differ.diff_check(ctx, R, comp, "C04", COMP_MODES, "comprehension")
            text2 = differ.program_text(explicit)
            real2, rlog2, o2 = R.run_text(text2)
            ctx.count("comprehension_loop_pairs")
            if real[0] in ("value", "error") and real2[0] in ("value", "error"):
                same = differ.same_summary(real, real2)
                if not same and ms and real[0] == "value" and real2[0] == "value":
                    same = multiset(real[1]) == multiset(real2[1])
                if not same:
                    kind = comp[1][0][1]
                    mode = comp[1][0][4]
                    ctx.violation("C04:comprehension-vs-loop:%s:%s" % (kind, mode),
                                  "%s -> %r\nbut explicit loop %s -> %r" % (text[:600], real, text2[:800], real2), {"src": text, "loop": text2})
            elif real2[0] == "syntax":
                ctx.count("harness_syntax_errors")
                ctx.note("explicit loop does not parse: " + text2[:300])


MIXED_ELEMS = ["TRUE", "FALSE", "0", "1", "2", "10", "-1", "1.5", "0.5", "'a'", "'b'", "'1'", "'TRUE'", "''", "NULL",
               "<<>>", "<<1>>", "<<2>>", "<<1, 2>>", "<<1, 2, 3>>", "<<'a'>>", "[1]", "[2]", "[1, 2]", "[]", "['a']",
               "<<<1 => 2>>>", "<<<>>>", "//a//", "date('20200101')", "date('20191231')", "<< <<1>> >>"]

ORDER_PROG = ("def prev = NULL; def first = TRUE; def ok = TRUE; def seen = []; "
              "for x in {KW}{C} do if not first then do if not (prev < x) then ok = FALSE end; first = FALSE; prev = x; append(seen, x) end; "
              "[ok, seen == [y for y in {KW}{C}], {EXTRA}, {MEMB}]")


def strict_total(matrix):
    try:
        m = [[c == ("bool", True) for c in row[1]] for row in matrix[1]]
    except Exception:  # noqa
        return False
    n = len(m)
    for i in range(n):
        if m[i][i]:
            return False
        for j in range(n):
            if i != j and m[i][j] == m[j][i]:
                return False
            for k in range(n):
                if m[i][j] and m[j][k] and not m[i][k]:
                    return False
    return True


def run_order(spec, ctx):
    """model-free: whatever the element kinds, a for loop must visit set elements / map keys in ascending order of the
    language's own <, and comprehension, list() and for must agree on that order"""
    import ckl.functions
    r = ctx.rng
    R = differ.RealRunner(secure=True, legacy=True)
    for _ in range(spec["n"]):
        n = r.randint(2, 6)
        elems = r.sample(MIXED_ELEMS, n)
        if r.random() < 0.5:
            kinds = r.choice([["TRUE", "FALSE", "0", "1", "2", "-1"], ["<<>>", "<<1>>", "<<2>>", "<<1, 2>>", "<<1, 2, 3>>", "<< <<1>> >>"],
                              ["'a'", "'1'", "1", "2", "'TRUE'", "TRUE"], ["[1]", "[2]", "[1, 2]", "[]", "<<1>>", "1"]])
            elems = r.sample(kinds, min(len(kinds), n))
        if r.random() < 0.6:
            coll, kw, extra = "<< " + ", ".join(elems) + " >>", "", "seen == list(<< %s >>)" % ", ".join(elems)
        else:
            coll, kw, extra = "<<< " + ", ".join("%s => %d" % (e, i) for i, e in enumerate(elems)) + " >>>", "keys ", "TRUE"
        lst_ = "[" + ", ".join(elems) + "]"
        memb = "length(seen) == length(unique(%s)) and length([e for e in %s if not (e in seen)]) == 0" % (lst_, lst_)
        pre_edit = ""
        if r.random() < 0.5:
            # the collection is walked and rendered once, then edited in place (members removed and added with no read
            # in between, often back to the same size), then walked again
            m = r.randint(0, min(2, n - 1))
            missing, keep = elems[:m], elems[m:]
            extras = r.sample(["987001", "'zq1'", "987002", "'Zq3'"], m if (m and r.random() < 0.6) else r.randint(1, 2))
            init = keep + extras
            r.shuffle(init)
            if not kw:
                pre_edit = "def h = << %s >>; for hx in h do hx end; string(h); [hy for hy in h]; " % ", ".join(init)
                edits = ["remove(h, %s)" % e for e in extras] + ["append(h, %s)" % e for e in missing]
                extra = "seen == list(h)"
            else:
                pre_edit = "def h = <<< %s >>>; for hx in keys h do hx end; string(h); [hy for hy in keys h]; " % ", ".join(
                    "%s => %d" % (e if not e[0].isalpha() else "identity(%s)" % e, i) for i, e in enumerate(init))
                edits = ["remove(h, %s)" % e for e in extras] + [r.choice(["h[%s] = 5", "put(h, %s, 5)"]) % e for e in missing]
            r.shuffle(edits)
            pre_edit += "; ".join(edits) + "; "
            coll = "h"
            ctx.count("order_programs_after_edits")
        src = pre_edit + ORDER_PROG.replace("{C}", coll).replace("{KW}", kw).replace("{EXTRA}", extra).replace("{MEMB}", memb)
        # precondition (so that nothing beyond the statement is demanded): on these very elements the language's <
        # must be a strict total order -- mixed kinds fall back to text order, which can be cyclic (10 < date < 3)
        lst = "[" + ", ".join(elems) + "]"
        # whatever the order is, it does not depend on how the collection was written down: the same elements in another
        # literal order are visited in the same sequence (checked even where `<` gives no total order on them)
        if not pre_edit:
            walk = "def seen = []; for x in %s{C} do append(seen, x) end; string(seen)" % kw
            perm = list(elems)
            r.shuffle(perm)
            if kw:
                c1 = "<<< " + ", ".join("%s => 1" % e for e in elems) + " >>>"
                c2 = "<<< " + ", ".join("%s => 1" % e for e in perm) + " >>>"
            else:
                c1 = "<< " + ", ".join(elems) + " >>"
                c2 = "<< " + ", ".join(perm) + " >>"
            w1, _, _ = R.run_text(walk.replace("{C}", c1))
            w2, _, _ = R.run_text(walk.replace("{C}", c2))
            ctx.count("walk_order_vs_literal_order")
            if w1[0] == "value" and w2[0] == "value" and w1 != w2:
                ctx.violation("C04:enumeration-order:depends-on-literal-order:%s" % ("map-keys" if kw else "set"),
                              "%s visits %s but %s visits %s" % (c1[:200], w1[1], c2[:200], w2[1]), {"c1": c1, "c2": c2})
        pre, _, _ = R.run_text("def l = unique(%s); [[a < b for b in l] for a in l]" % lst)
        if pre[0] != "value" or not strict_total(pre[1]):
            ctx.count("order_programs_skipped_no_total_order")
            continue
        real, rlog, o = R.run_text(src)
        ctx.count("order_programs")
        ctx.case(("order", src))
        if real[0] != "value":
            if real[0] in ("host", "hang", "syntax"):
                ctx.violation("C04:enumeration-order:escape-%s" % real[0], "%s -> %s %s" % (src[:500], real, core.safe_str(o.exc, 100)), {"src": src})
            else:
                ctx.count("order_programs_error")
            continue
        if real[1] != ("list", (("bool", True), ("bool", True), ("bool", True), ("bool", True))):
            which = ["not-ascending", "comprehension-differs", "list-differs", "members-differ"]
            bad = [w for w, v in zip(which, real[1][1]) if v != ("bool", True)]
            ctx.violation("C04:enumeration-order:%s%s:%s" % ("map-keys" if kw else "set", ":after-edits" if pre_edit else "", "+".join(bad)),
                          "%s -> %r" % (src[:700], real[1]), {"src": src})


def finalize(merged, tier):
    c = merged["counters"]
    reasons = []
    if c.get("harness_syntax_errors", 0):
        reasons.append("%d generated programs did not parse (harness defect)" % c["harness_syntax_errors"])
    for k in ("differential_comparisons", "comprehension_loop_pairs", "log_events", "order_programs", "order_programs_after_edits"):
        if c.get(k, 0) == 0:
            reasons.append("monitor counter %s is zero" % k)
    disc = {m: c.get("discriminates_" + m, 0) for m in sorted(set(MODES + COMP_MODES))}
    for m, n in disc.items():
        if n == 0:
            reasons.append("no program discriminates wrong-semantics mode %s" % m)
    return {"wrong_mode_discrimination": disc}, reasons
