"""C04 — conditionals, loops, comprehensions and early exits have structured semantics.

Deciding monitors: reference evaluator against result + event log (visited
iterations, evaluated conditions, chosen branches) of generated programs;
model-free agreement between every comprehension and its explicit-loop
expansion on the real interpreter; adequacy by wrong-semantics modes."""
from cklmon import core, differ
from cklgen import programs
from cklref import refvalue as rv

RULE = ("programs: loop nests <= 3 over lists, sets (ints/strings), maps (keys/values/entries, destructured pairs) and "
        "strings, `while` with logged condition, if/elif/else with logged conditions, break/continue/return planted at "
        "random statement positions (also inside do..finally inside loops and inside called functions); every "
        "comprehension form (list/set/map; single, product, also-for; with/without filter) paired with its explicit "
        "loop; a case is one program; non-trivial = some wrong-semantics mode (break exits all loops, continue as "
        "break, return leaves only the loop, condition tested once, unsorted set/map iteration, filter ignored, "
        "also-for stops at the shorter) changes its observable outcome; distinct by program text")
ASSUMPTIONS = [
    "for maps, comprehension/loop agreement on `values` is compared as a multiset (the loop walks by key, the comprehension sorts values)",
    "only explicit keys/values/entries are compared between comprehension and loop (the defaults differ by design)",
    "loop variables are never read after the loop",
]
MODES = ["break_all", "continue_as_break", "return_loop_only", "while_once", "unsorted_set", "finally_skipped_on_break"]
COMP_MODES = ["filter_ignored", "parallel_min", "unsorted_set"]
SHARD_TIMEOUT = {"quick": 300, "thorough": 3000}


def plan(tier, seed):
    n = 10 if tier == "quick" else 40
    return ([{"kind": "control", "n": 600 if tier == "quick" else 3500} for _ in range(n)]
            + [{"kind": "comprehensions", "n": 700 if tier == "quick" else 4000} for _ in range(n // 2)])


def multiset(av):
    if av[0] == "list":
        return sorted(repr(x) for x in av[1])
    return av


def run_shard(spec, ctx):
    R = differ.RealRunner(secure=True, legacy=True)
    r = ctx.rng
    if spec["kind"] == "control":
        for _ in range(spec["n"]):
            g = programs.Gen(r)
            differ.diff_check(ctx, R, g.control_program(), "C04", MODES, "control")
    else:
        for _ in range(spec["n"]):
            g = programs.Gen(r)
            comp, explicit, ms = g.comprehension_case()
            real, rlog, text = differ.diff_check(ctx, R, comp, "C04", COMP_MODES, "comprehension")
            text2 = differ.program_text(explicit)
            real2, rlog2, o2 = R.run_text(text2)
            ctx.count("comprehension_loop_pairs")
            if real[0] in ("value", "error") and real2[0] in ("value", "error"):
                same = differ.same_summary(real, real2)
                if not same and ms and real[0] == "value" and real2[0] == "value":
                    same = multiset(real[1]) == multiset(real2[1])
                if not same:
                    kind = comp[1][0][1]
                    mode = comp[1][0][4]
                    ctx.violation("C04:comprehension-vs-loop:%s:%s" % (kind, mode),
                                  "%s -> %r\nbut explicit loop %s -> %r" % (text[:600], real, text2[:800], real2), {"src": text, "loop": text2})
            elif real2[0] == "syntax":
                ctx.count("harness_syntax_errors")
                ctx.note("explicit loop does not parse: " + text2[:300])


def finalize(merged, tier):
    c = merged["counters"]
    reasons = []
    if c.get("harness_syntax_errors", 0):
        reasons.append("%d generated programs did not parse (harness defect)" % c["harness_syntax_errors"])
    for k in ("differential_comparisons", "comprehension_loop_pairs", "log_events"):
        if c.get(k, 0) == 0:
            reasons.append("monitor counter %s is zero" % k)
    disc = {m: c.get("discriminates_" + m, 0) for m in sorted(set(MODES + COMP_MODES))}
    for m, n in disc.items():
        if n == 0:
            reasons.append("no program discriminates wrong-semantics mode %s" % m)
    return {"wrong_mode_discrimination": disc}, reasons
