"""C04 — conditionals, loops, comprehensions and early exits have structured semantics.

Deciding monitors: reference evaluator against result + event log (visited
iterations, evaluated conditions, chosen branches) of generated programs;
model-free agreement between every comprehension and its explicit-loop
expansion on the real interpreter; adequacy by wrong-semantics modes."""
from cklmon import core, differ
from cklgen import programs
from cklref import refvalue as rv

RULE = ("programs: loop nests <= 3 over lists, sets (ints/strings), maps (keys/values/entries, destructured pairs) and "
        "strings, `while` with logged condition, if/elif/else with logged conditions, break/continue/return planted at "
        "random statement positions (also inside do..finally inside loops and inside called functions); every "
        "comprehension form (list/set/map; single, product, also-for; with/without filter) paired with its explicit "
        "loop; sets and map keys of mixed and nested kinds (booleans next to ints, sets of sets, lists, strings, NULL) "
        "whose visiting order must ascend under the language's own <; a case is one program; non-trivial = some wrong-semantics mode (break exits all loops, continue as "
        "break, return leaves only the loop, condition tested once, unsorted set/map iteration, filter ignored, "
        "also-for stops at the shorter) changes its observable outcome; distinct by program text")
ASSUMPTIONS = [
    "only explicit keys/values/entries are compared between comprehension and loop (the defaults differ by design)",
    "loop variables are never read after the loop",
]
MODES = ["break_all", "continue_as_break", "return_loop_only", "while_once", "unsorted_set", "finally_skipped_on_break"]
COMP_MODES = ["filter_ignored", "parallel_min", "unsorted_set"]
SHARD_TIMEOUT = {"quick": 300, "thorough": 3000}


def plan(tier, seed):
    n = 10 if tier == "quick" else 40
    return ([{"kind": "control", "n": 600 if tier == "quick" else 3500} for _ in range(n)]
            + [{"kind": "comprehensions", "n": 700 if tier == "quick" else 4000} for _ in range(n // 2)]
            + [{"kind": "order", "n": 500 if tier == "quick" else 4000} for _ in range(2 if tier == "quick" else 8)]
            + [{"kind": "returns", "legacy": True}, {"kind": "returns", "legacy": False}, {"kind": "fresh"}])


def multiset(av):
    if av[0] == "list":
        return sorted(repr(x) for x in av[1])
    return av


# (name, program with the function body {F}, the value the body computes)
RETURN_CALLBACKS = [
    ("direct-call", "(fn(x) {F})(5)", "x * 2"), ("named-function", "def f(x) {F}; [f(1), f(2)]", "x * 2"),
    ("sorted-cmp", "sorted([2, 1, 3, 1], cmp = fn(a, b) {F})", "compare(a, b)"), ("sorted-key", "sorted([13, 2, 11, 25], key = fn(a) {F})", "a % 10"),
    ("map_list", "map_list([1, 2], fn(x) {F})", "x * 2"), ("filter", "filter([1, 2, 3], fn(x) {F})", "x > 1"), ("reduce", "reduce([1, 2, 3], fn(a, b) {F})", "a * 10 + b"),
    ("for_each", "def acc = []; def h_(x) {F}; for_each([1, 2], fn(x) do def v_ = h_(x); append(acc, v_) end); acc", "x + 1"),
    ("for_each-callback-returns", "def acc = []; for_each([1, 2], fn(x) do append(acc, x); {F} end); acc", "x + 1"), ("grouped", "grouped([1, 3, 2, 4], fn(x) {F})", "x % 2"),
    ("find-key", "find([[1], [2], [3]], 4, key = fn(x) {F})", "x[0] * 2"), ("find_last-key", "find_last([[1], [2], [2]], 4, key = fn(x) {F})", "x[0] * 2"),
    ("apply", "apply(fn(x) {F}, [1])", "x + 1"), ("curry", "curry(fn(a, b) {F}, 1)(2)", "a - b"), ("min-key", "min([2, 1, 3], key = fn(x) {F})", "0 - x"),
    ("max-key", "max([2, 1, 3], key = fn(x) {F})", "0 - x"), ("any", "any([1, 2], fn(x) {F})", "x > 1"), ("all", "all([1, 2], fn(x) {F})", "x > 1"),
    ("unique-key", "unique([1, 2, 3, 4], fn(x) {F})", "x % 2"), ("sum-key", "sum([1, 2], fn(x) {F})", "x * 3"), ("compose", "compose(fn(x) {F}, fn(x) x + 1)(1)", "x * 5"),
    ("pipe", "[1, 2] !> map_list(fn(x) {F})", "x * 2"), ("method", "def o = <*v = 4, m = fn(self) {F}*>; o->m()", "self->v + 1"),
    ("to-string-member", "def o = <*v = 4, _str_ = fn(self) {F}*>; string(o)", "'obj' + string(self->v)"),
    ("to-string-member-in-list", "def o = <*v = 4, _str_ = fn(self) {F}*>; string([o])", "'obj' + string(self->v)"),
    ("process_lines", "def acc = []; process_lines(str_input('a\\nb'), fn(line) do append(acc, line); {F} end); acc", "line + '!'"),
    ("process_lines-result", "process_lines(str_input('a\\nb'), fn(line) {F})", "line + '!'"),
    ("grep-key", "grep(['a', 'b'], //a//, key = fn(x) {F})", "x + 'a'"), ("default-argument", "def g_(x) {F}; def f(a = g_(3)) a; f()", "x * 2"),
    ("interpolation", "def cb(x) {F}; s('<{cb(2)}>')", "x * 2"), ("eval", "def cb(x) {F}; eval('cb(2)')", "x * 2"),
    ("comprehension", "def cb(x) {F}; [cb(y) for y in [1, 2]]", "x * 2"), ("spread", "def cb(x) {F}; [...[cb(1), cb(2)]]", "x * 2"),
    ("map-literal-key", "def cb(x) {F}; <<<cb(1) => cb(2)>>>", "x * 2"), ("new", "def C = <*_init_ = fn(self, x) do self->v = ({F}) end*>; new(C, 3)->v", "x * 2"),
    ("nested-sorted", "sorted([[2, 1], [1, 4]], key = fn(l) sorted(l, cmp = fn(a, b) {F}))", "compare(a, b)"),
    ("sorted-key-and-cmp", "sorted([13, 2, 11], key = fn(a) a % 10, cmp = fn(a, b) {F})", "compare(b, a)"),
]
# bodies that compute E and leave by `return` from somewhere other than the last statement
RETURN_BODIES = [
    ("early-if", "do if TRUE then return ({E}); 'not reached' end"), ("skipped-if", "do if FALSE then return 'wrong'; {E} end"),
    ("from-for", "do for i_ in [1, 2] do return ({E}) end; 'not reached' end"), ("from-while", "do while TRUE do return ({E}) end; 'not reached' end"),
    ("from-nested-block", "do do do return ({E}) end end; 'not reached' end"), ("from-catch", "do do error 'x_' catch 'x_' return ({E}) end; 'not reached' end"),
    ("from-try-with-finally", "do do return ({E}) finally 0 end; 'not reached' end"), ("second-statement", "do def t_ = ({E}); return t_; 'not reached' end"),
    ("inner-function-returns", "do def in_() do return 'inner'; 'nr' end; in_(); {E} end"), ("trailing-return", "do return ({E}) end"),
    ("elif-branch", "do if FALSE then return 'a' elif TRUE then return ({E}) else return 'c'; 'not reached' end"),
]


# an exit written as the value of a definition or assignment leaves the function / loop there and then.  (Exits written
# inside other operand positions - call arguments, operator operands, literals, conditions - are handed on as marker
# values by this implementation; the statement fixes which construct an exit affects, not where one may be written, so
# those positions are not asserted: see DESIGN 10.6.)
EXIT_IN_OPERAND = [
    ("def-value", "def x_ = {X}"), ("assigned-value", "def x_ = 0; x_ = {X}"),
    ("def-value-after-calls", "g(1); def x_ = {X}"), ("block-statement", "do g(1); {X} end"),
]


def run_exit_in_operand(ctx):
    import ckl.functions
    it, out = core.new_interpreter(secure=True, legacy=True)
    for name, expr in EXIT_IN_OPERAND:
        for xname, x, want in (("return", "(do return 5 end)", "[5, []]"), ("return-in-if", "(do if TRUE then return 5; 6 end)", "[5, []]")):
            src = ("def acc = []; def g(x = 0) do append(acc, 'g ran'); x end; def g2(a, b) do append(acc, 'g2 ran'); a end; "
                   "def f() do %s; append(acc, 'statement after'); 'not returned' end; [f(), acc]" % expr.replace("{X}", x))
            o = core.observe(lambda: it.interpret(src, "c04exit", ckl.functions.Environment()), 500000)
            ctx.count("exit_in_operand_programs")
            ctx.case(("exit-in-operand", name, xname), nontrivial=True)
            got = core.safe_str(o.value, 200) if o.kind == "value" else "%s: %s" % (o.kind, core.safe_str(getattr(o.exc, "msg", o.exc), 120))
            if got != want.replace("[]", "['g ran']" if "g(1)" in expr else "[]"):
                ctx.violation("C04:exit-in-operand:%s" % name, "%s -> %s; `return 5` should leave f at once with 5" % (src, got), {"src": src})
        for xname, x in (("break", "(do break end)"), ("continue", "(do continue end)")):
            src = ("def acc = []; def g(x = 0) do append(acc, 'g ran'); x end; def g2(a, b) do append(acc, 'g2 ran'); a end; "
                   "for i in [1, 2] do %s; append(acc, 'statement after') end; acc" % expr.replace("{X}", x))
            if name == "return-value":
                continue
            o = core.observe(lambda: it.interpret(src, "c04exit", ckl.functions.Environment()), 500000)
            ctx.count("exit_in_operand_programs")
            ctx.case(("exit-in-operand", name, xname), nontrivial=True)
            got = core.safe_str(o.value, 200) if o.kind == "value" else "%s: %s" % (o.kind, core.safe_str(getattr(o.exc, "msg", o.exc), 120))
            pre = expr.split("{X}")[0]
            # what ran before the exit is fine; nothing after it may run, neither in the expression nor in the loop body
            ok = o.kind == "value" and "statement after" not in got and "g2 ran" not in got and got.count("g ran") <= (2 if xname == "continue" else 1) * pre.count("g(")
            want = "nothing after the exit runs"
            if not ok:
                ctx.violation("C04:exit-in-operand:%s" % name, "%s -> %s; `%s` should end the loop body at once" % (src, got, xname), {"src": src})


STRAY_EXITS = [
    ("called-in-loop-body", "def stop() {X}; def r = []; for i in [1, 2, 3] do stop(); append(r, i) end; r"),
    ("called-in-loop-body-conditionally", "def stop(x) do if x == 2 then {X}; x end; def r = []; for i in [1, 2, 3] do stop(i); append(r, i) end; r"),
    ("called-in-while-body", "def stop() {X}; def n = 0; while n < 3 do n += 1; stop() end; n"),
    ("callback-of-a-library-loop", "def r = []; for_each([1, 2, 3], fn(x) do if x == 2 then {X}; append(r, x) end); r"),
    ("callback-of-map_list", "map_list([1, 2, 3], fn(x) do if x == 2 then {X}; x end)"),
    ("method-called-in-loop", "def o = <*stop = fn(self) {X}*>; def r = []; for i in [1, 2] do o->stop(); append(r, i) end; r"),
    ("lambda-called-at-once-in-loop", "def r = []; for i in [1, 2] do (fn() {X})(); append(r, i) end; r"),
    ("outside-any-loop", "def f() do if TRUE then {X}; 1 end; [f()]"),
    ("in-comprehension-element", "def stop() {X}; [do stop(); x end for x in [1, 2]]"),
]


def run_returns(spec, ctx):
    """`return` leaves the innermost function with its value wherever that function was called from: directly, or by a
    library function that was handed it as a callback"""
    import ckl.functions
    legacy = spec["legacy"]
    it, out = core.new_interpreter(secure=True, legacy=legacy)
    pre = "" if legacy else "require List unqualified; require String unqualified; require Core unqualified; require IO unqualified; "

    def ev(src):
        out.output = ""
        o = core.observe(lambda: it.interpret(pre + src, "c04ret", ckl.functions.Environment()), 2000000)
        if o.kind == "value":
            return ("value", core.safe_str(o.value, 300))
        if o.kind == "rte":
            return ("rte", core.safe_str(getattr(o.exc, "value", None), 100))
        return (o.kind, core.safe_str(o.exc, 100))
    for name, form, e in RETURN_CALLBACKS:
        base = ev(form.replace("{F}", "(" + e + ")"))
        if base[0] != "value":
            ctx.count("return_forms_not_available")
            ctx.note("callback form not usable (%s): %s -> %s" % ("legacy" if legacy else "non-legacy", name, base))
            continue
        ctx.count("return_forms_usable")
        for bname, body in RETURN_BODIES:
            src = form.replace("{F}", body.replace("{E}", e))
            got = ev(src)
            ctx.count("return_programs")
            ctx.case(("return", legacy, name, bname), nontrivial=True)
            if got != base:
                ctx.violation("C04:return-from-callback:%s:%s" % (name, bname), "%s -> %s %s, but with the plain body (%s) -> %s" % (src, got[0], got[1], e, base[1]), {"src": src})
    # break / continue affect the innermost enclosing loop *of the same function*: written in a function body outside any
    # loop of that function they are an error - they never reach a loop of the caller
    for exit_ in ("break", "continue"):
        for name, tmpl in STRAY_EXITS:
            src = tmpl.replace("{X}", exit_)
            got = ev(src)
            ctx.count("stray_exit_programs")
            ctx.case(("stray-exit", legacy, name, exit_), nontrivial=True)
            if got[0] != "rte":
                ctx.violation("C04:exit-crosses-function:%s:%s" % (name, exit_), "%s -> %s %s; a %s outside any loop of its own function is an error" % (src, got[0], got[1], exit_), {"src": src})
    ctx.sample({"return_callbacks": len(RETURN_CALLBACKS), "bodies": len(RETURN_BODIES)})
    if legacy:
        run_exit_in_operand(ctx)


# A comprehension builds a value of its own, as the explicit loop with a fresh accumulator does: what is done to the
# result afterwards does not show in the source (nor in a second evaluation of the same comprehension), and the other
# way round. (form name, comprehension over the variable xs, the explicit loop as an expression)
FRESH_FORMS = [
    ("list-identity", "[x for x in {W}xs]", "(fn() do def acc = []; for x in {W}xs do append(acc, x) end; acc end)()"),
    ("list-filtered", "[x for x in {W}xs if x is not NULL]", "(fn() do def acc = []; for x in {W}xs do if x is not NULL then append(acc, x) end; acc end)()"),
    ("list-wrapped", "[[x] for x in {W}xs]", "(fn() do def acc = []; for x in {W}xs do append(acc, [x]) end; acc end)()"),
    ("set-identity", "<<x for x in {W}xs>>", "(fn() do def acc = <<>>; for x in {W}xs do append(acc, x) end; acc end)()"),
    ("map-identity", "<<<x => x for x in {W}xs>>>", "(fn() do def acc = <<<>>>; for x in {W}xs do put(acc, x, x) end; acc end)()"),
    ("list-parallel", "[x for x in {W}xs also for y in {W}xs]", "(fn() do def acc = []; for x in {W}xs do append(acc, x) end; acc end)()"),
]
# (maps and objects only with an explicit keys / values / entries: the defaults of comprehension and loop differ by design)
FRESH_SOURCES = [("list", "[1, 2, 3]", [""]), ("list-of-lists", "[[1], [2], [2]]", [""]), ("empty-list", "[]", [""]), ("set", "<<3, 1, 2>>", [""]),
                 ("empty-set", "<<>>", [""]), ("string", "'abc'", [""]), ("map", "<<<1 => 'a', 2 => 'b'>>>", ["keys ", "values ", "entries "]),
                 ("object", "<*a = 1, b = 2*>", ["keys ", "values "]), ("list-long", "range(40)", [""])]
FRESH_EDITS_RESULT = {"list": ["append(r, 99)", "insert_at(r, 0, 98)", "r[0] = 97", "delete_at(r, 0)", "r += 96", "remove(r, 2)"],
                      "set": ["append(r, 99)", "remove(r, 2)", "r += 96"], "map": ["put(r, 99, 1)", "r[98] = 1", "remove(r, 2)"]}
FRESH_EDITS_SOURCE = {"list": ["append(xs, 89)", "xs[0] = 87", "delete_at(xs, 0)"], "list-of-lists": ["append(xs, 89)", "xs[0] = 87", "append(xs[0], 5)"],
                      "empty-list": ["append(xs, 89)"], "set": ["append(xs, 89)", "remove(xs, 2)"], "empty-set": ["append(xs, 89)"], "string": ["xs[0] = 'z'"],
                      "map": ["put(xs, 89, 'z')", "remove(xs, 1)", "xs[1] = 'q'"], "object": ["xs->c = 3", "xs->a = 9"], "list-long": ["append(xs, 89)", "xs[39] = 0"]}


def run_fresh(spec, ctx):
    import ckl.functions
    for legacy in (True, False):
        it, out = core.new_interpreter(secure=True, legacy=legacy)
        pre = "" if legacy else "require List unqualified; require Set unqualified; require Map unqualified; require Core unqualified; "

        def ev(src):
            o = core.observe(lambda: it.interpret(pre + src, "c04fresh", ckl.functions.Environment()), 2000000)
            if o.kind == "value":
                return ("value", core.safe_str(o.value, 600))
            if o.kind == "rte":
                return ("rte", core.safe_str(getattr(o.exc, "value", None), 100))
            return (o.kind, core.safe_str(o.exc, 100))
        for fname, comp, loop in FRESH_FORMS:
            rkind = fname.split("-")[0]
            for sname, stext, whats in FRESH_SOURCES:
                for w in whats:
                    for er in FRESH_EDITS_RESULT[rkind] + ["1"]:
                        for es in FRESH_EDITS_SOURCE[sname] + ["1"]:
                            tmpl = ("def xs = %s; def r = {FORM}; def before = string(xs); do %s catch all 'edit failed' end; def mid = string(xs); def r2 = {FORM}; "
                                    "do %s catch all 'edit failed' end; [before == mid, xs, r, r2]") % (stext, er, es)
                            a = ev(tmpl.replace("{FORM}", comp.replace("{W}", w)))
                            b = ev(tmpl.replace("{FORM}", loop.replace("{W}", w)))
                            ctx.count("fresh_programs")
                            ctx.case(("fresh", legacy, fname, sname, w, er, es), nontrivial=True)
                            if b[0] == "syntax" or a[0] == "syntax":
                                ctx.count("harness_syntax_errors")
                                ctx.note("fresh-result program does not parse: " + tmpl[:200] + " " + comp + " " + repr((a, b)))
                                continue
                            if a != b:
                                ctx.violation("C04:comprehension-result-shared:%s:%s" % (fname, sname.split("-")[0]),
                                              "%s -> %s %s, but with the explicit loop -> %s %s" % (tmpl.replace("{FORM}", comp.replace("{W}", w)), a[0], a[1], b[0], b[1]),
                                              {"src": tmpl.replace("{FORM}", comp.replace("{W}", w))})
                            elif a[0] == "value" and a[1].startswith("[FALSE"):
                                ctx.violation("C04:comprehension-result-shared:source-changed:%s" % fname, "%s -> %s: an edit of the result changed the source" % (tmpl.replace("{FORM}", comp.replace("{W}", w)), a[1]),
                                              {"src": tmpl})
    ctx.sample({"fresh_forms": len(FRESH_FORMS), "fresh_sources": len(FRESH_SOURCES)})


def run_shard(spec, ctx):
    if spec["kind"] == "fresh":
        return run_fresh(spec, ctx)
    if spec["kind"] == "returns":
        return run_returns(spec, ctx)
    R = differ.RealRunner(secure=True, legacy=True)
    r = ctx.rng
    if spec["kind"] == "order":
        return run_order(spec, ctx)
    if spec["kind"] == "control":
        for _ in range(spec["n"]):
            g = programs.Gen(r)
            differ.diff_check(ctx, R, g.control_program(), "C04", MODES, "control")
    else:
        for _ in range(spec["n"]):
            g = programs.Gen(r)
            comp, explicit, ms = g.comprehension_case()
            real, rlog, text = differ.diff_check(ctx, R, comp, "C04", COMP_MODES, "comprehension")
            text2 = differ.program_text(explicit)
            real2, rlog2, o2 = R.run_text(text2)
            ctx.count("comprehension_loop_pairs")
            if real[0] in ("value", "error") and real2[0] in ("value", "error"):
                same = differ.same_summary(real, real2)
                if not same and ms and real[0] == "value" and real2[0] == "value":
                    same = multiset(real[1]) == multiset(real2[1])
                if not same:
                    kind = comp[1][0][1]
                    mode = comp[1][0][4]
                    ctx.violation("C04:comprehension-vs-loop:%s:%s" % (kind, mode),
                                  "%s -> %r\nbut explicit loop %s -> %r" % (text[:600], real, text2[:800], real2), {"src": text, "loop": text2})
            elif real2[0] == "syntax":
                ctx.count("harness_syntax_errors")
                ctx.note("explicit loop does not parse: " + text2[:300])


MIXED_ELEMS = ["TRUE", "FALSE", "0", "1", "2", "10", "-1", "1.5", "0.5", "'a'", "'b'", "'1'", "'TRUE'", "''", "NULL",
               "<<>>", "<<1>>", "<<2>>", "<<1, 2>>", "<<1, 2, 3>>", "<<'a'>>", "[1]", "[2]", "[1, 2]", "[]", "['a']",
               "<<<1 => 2>>>", "<<<>>>", "//a//", "date('20200101')", "date('20191231')", "<< <<1>> >>"]

ORDER_PROG = ("def prev = NULL; def first = TRUE; def ok = TRUE; def seen = []; "
              "for x in {KW}{C} do if not first then do if not (prev < x) then ok = FALSE end; first = FALSE; prev = x; append(seen, x) end; "
              "[ok, seen == [y for y in {KW}{C}], {EXTRA}, {MEMB}]")


def strict_total(matrix):
    try:
        m = [[c == ("bool", True) for c in row[1]] for row in matrix[1]]
    except Exception:  # noqa
        return False
    n = len(m)
    for i in range(n):
        if m[i][i]:
            return False
        for j in range(n):
            if i != j and m[i][j] == m[j][i]:
                return False
            for k in range(n):
                if m[i][j] and m[j][k] and not m[i][k]:
                    return False
    return True


def run_order(spec, ctx):
    """model-free: whatever the element kinds, a for loop must visit set elements / map keys in ascending order of the
    language's own <, and comprehension, list() and for must agree on that order"""
    import ckl.functions
    r = ctx.rng
    R = differ.RealRunner(secure=True, legacy=True)
    for _ in range(spec["n"]):
        n = r.randint(2, 6)
        elems = r.sample(MIXED_ELEMS, n)
        if r.random() < 0.5:
            kinds = r.choice([["TRUE", "FALSE", "0", "1", "2", "-1"], ["<<>>", "<<1>>", "<<2>>", "<<1, 2>>", "<<1, 2, 3>>", "<< <<1>> >>"],
                              ["'a'", "'1'", "1", "2", "'TRUE'", "TRUE"], ["[1]", "[2]", "[1, 2]", "[]", "<<1>>", "1"]])
            elems = r.sample(kinds, min(len(kinds), n))
        if r.random() < 0.6:
            coll, kw, extra = "<< " + ", ".join(elems) + " >>", "", "seen == list(<< %s >>)" % ", ".join(elems)
        else:
            coll, kw, extra = "<<< " + ", ".join("%s => %d" % (e, i) for i, e in enumerate(elems)) + " >>>", "keys ", "TRUE"
        lst_ = "[" + ", ".join(elems) + "]"
        memb = "length(seen) == length(unique(%s)) and length([e for e in %s if not (e in seen)]) == 0" % (lst_, lst_)
        pre_edit = ""
        if r.random() < 0.5:
            # the collection is walked and rendered once, then edited in place (members removed and added with no read
            # in between, often back to the same size), then walked again
            m = r.randint(0, min(2, n - 1))
            missing, keep = elems[:m], elems[m:]
            extras = r.sample(["987001", "'zq1'", "987002", "'Zq3'"], m if (m and r.random() < 0.6) else r.randint(1, 2))
            init = keep + extras
            r.shuffle(init)
            if not kw:
                pre_edit = "def h = << %s >>; for hx in h do hx end; string(h); [hy for hy in h]; " % ", ".join(init)
                edits = ["remove(h, %s)" % e for e in extras] + ["append(h, %s)" % e for e in missing]
                extra = "seen == list(h)"
            else:
                pre_edit = "def h = <<< %s >>>; for hx in keys h do hx end; string(h); [hy for hy in keys h]; " % ", ".join(
                    "%s => %d" % (e if not e[0].isalpha() else "identity(%s)" % e, i) for i, e in enumerate(init))
                edits = ["remove(h, %s)" % e for e in extras] + [r.choice(["h[%s] = 5", "put(h, %s, 5)"]) % e for e in missing]
            r.shuffle(edits)
            pre_edit += "; ".join(edits) + "; "
            coll = "h"
            ctx.count("order_programs_after_edits")
        src = pre_edit + ORDER_PROG.replace("{C}", coll).replace("{KW}", kw).replace("{EXTRA}", extra).replace("{MEMB}", memb)
        # precondition (so that nothing beyond the statement is demanded): on these very elements the language's <
        # must be a strict total order -- (across kinds it used to be cyclic: 10 < date < 3; repaired, and C12 now asserts it)
        lst = "[" + ", ".join(elems) + "]"
        # whatever the order is, it does not depend on how the collection was written down: the same elements in another
        # literal order are visited in the same sequence (checked even where `<` gives no total order on them)
        if not pre_edit:
            walk = "def seen = []; for x in %s{C} do append(seen, x) end; string(seen)" % kw
            perm = list(elems)
            r.shuffle(perm)
            if kw:
                c1 = "<<< " + ", ".join("%s => 1" % e for e in elems) + " >>>"
                c2 = "<<< " + ", ".join("%s => 1" % e for e in perm) + " >>>"
            else:
                c1 = "<< " + ", ".join(elems) + " >>"
                c2 = "<< " + ", ".join(perm) + " >>"
            w1, _, _ = R.run_text(walk.replace("{C}", c1))
            w2, _, _ = R.run_text(walk.replace("{C}", c2))
            ctx.count("walk_order_vs_literal_order")
            if w1[0] == "value" and w2[0] == "value" and w1 != w2:
                ctx.violation("C04:enumeration-order:depends-on-literal-order:%s" % ("map-keys" if kw else "set"),
                              "%s visits %s but %s visits %s" % (c1[:200], w1[1], c2[:200], w2[1]), {"c1": c1, "c2": c2})
        pre, _, _ = R.run_text("def l = unique(%s); [[a < b for b in l] for a in l]" % lst)
        if pre[0] != "value" or not strict_total(pre[1]):
            ctx.count("order_programs_skipped_no_total_order")
            continue
        real, rlog, o = R.run_text(src)
        ctx.count("order_programs")
        ctx.case(("order", src))
        if real[0] != "value":
            if real[0] in ("host", "hang", "syntax"):
                ctx.violation("C04:enumeration-order:escape-%s" % real[0], "%s -> %s %s" % (src[:500], real, core.safe_str(o.exc, 100)), {"src": src})
            else:
                ctx.count("order_programs_error")
            continue
        if real[1] != ("list", (("bool", True), ("bool", True), ("bool", True), ("bool", True))):
            which = ["not-ascending", "comprehension-differs", "list-differs", "members-differ"]
            bad = [w for w, v in zip(which, real[1][1]) if v != ("bool", True)]
            ctx.violation("C04:enumeration-order:%s%s:%s" % ("map-keys" if kw else "set", ":after-edits" if pre_edit else "", "+".join(bad)),
                          "%s -> %r" % (src[:700], real[1]), {"src": src})


def finalize(merged, tier):
    c = merged["counters"]
    reasons = []
    if c.get("harness_syntax_errors", 0):
        reasons.append("%d generated programs did not parse (harness defect)" % c["harness_syntax_errors"])
    for k in ("differential_comparisons", "comprehension_loop_pairs", "log_events", "order_programs", "order_programs_after_edits", "return_programs", "fresh_programs"):
        if c.get(k, 0) == 0:
            reasons.append("monitor counter %s is zero" % k)
    disc = {m: c.get("discriminates_" + m, 0) for m in sorted(set(MODES + COMP_MODES))}
    for m, n in disc.items():
        if n == 0:
            reasons.append("no program discriminates wrong-semantics mode %s" % m)
    return {"wrong_mode_discrimination": disc}, reasons
