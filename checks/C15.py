"""C15 — indexing, slicing and sub-sequence functions follow the sequence model.

Deciding monitor: reference sequence model (cklref.refseq) against the outcome
of interpreted expressions, exhaustively over small sequences x all small
indices, plus identities (s[0 to k] + s[k to *] == s, lengths)."""
import itertools

from cklmon import core
from cklmon.core import observe
from cklref import refseq as rs

RULE = ("exhaustive: every string over {a,b,c} and every list over {0,1,'a'} of length <= 4 (quick) / <= 6 "
        "(thorough) x every index in [-9,9] (single and pairs) x every part of length <= 2: s[i], "
        "s[i to j], s[i to *], substr, sublist, find/find_last with and without start, insert_at, "
        "delete_at, element assignment, identities; plus random longer sequences with indices to "
        "+-2^40; a case is one (operation, sequence, indices) tuple; non-trivial = sequence non-empty "
        "or index non-zero; distinct by tuple")
ASSUMPTIONS = [
    "negative `start` for find/find_last and empty parts are unspecified and not asserted",
    "element assignment on strings is not claimed (only lists)",
]
SYMS_S = "abc"
SYMS_L = [0, 1, "a"]
IDX = list(range(-9, 10))
SHARD_TIMEOUT = {"quick": 300, "thorough": 3000}


def plan(tier, seed):
    maxlen = 4 if tier == "quick" else 6
    nparts = 16 if tier == "quick" else 64
    specs = [{"kind": "exh", "maxlen": maxlen, "part": i, "of": nparts} for i in range(nparts)]
    specs += [{"kind": "random", "n": 1500 if tier == "quick" else 20000} for _ in range(4 if tier == "quick" else 8)]
    return specs


def src(v):
    if isinstance(v, str):
        return "'" + v + "'"
    if isinstance(v, list):
        return "[" + ", ".join(src(x) for x in v) + "]"
    return str(v)


def to_py(v):
    t = v.type()
    if t == "string":
        return v.value
    if t == "int":
        return v.value
    if t == "list":
        return [to_py(x) for x in v.value]
    if t == "null":
        return None
    if t == "boolean":
        return bool(v.value)
    return ("?", t, str(v))


def cls(i, n):
    if i < -n:
        return "i<-n"
    if i < 0:
        return "-n<=i<0"
    if i < n:
        return "0<=i<n"
    if i == n:
        return "i==n"
    return "i>n"


class Runner:
    def __init__(self, ctx):
        import ckl.functions
        self.ctx = ctx
        self.it, self.out = core.new_interpreter(secure=True, legacy=True)
        self.Env = ckl.functions.Environment

    def ev(self, text):
        env = self.Env()
        return observe(lambda: self.it.interpret(text, "c15", env), 500000 + 400 * len(text))

    def expect(self, text, want, key, case):
        ctx = self.ctx
        o = self.ev(text)
        ctx.count("evaluations")
        ctx.case(case)
        if o.kind in ("host", "hang", "syntax"):
            ctx.violation("C15:%s:escape-%s" % (key, type(o.exc).__name__ if o.exc else "hang"),
                          "%s -> %s %s" % (text, o.kind, core.safe_str(o.exc, 100)), {"src": text})
            return
        if o.kind == "rte":
            got = rs.ERR
        else:
            got = to_py(o.value)
        if got != want or (type(got) is not type(want)):
            ctx.violation("C15:" + key, "%s evaluated to %s, model says %r" % (
                text, "runtime error" if got is rs.ERR else core.safe_str(o.value, 80),
                "runtime error" if want is rs.ERR else want), {"src": text})


def seq_ops(R, s, tier_random=False, idx=IDX, r=None):
    """all operations on one sequence s (str or list)"""
    n = len(s)
    S = src(s)
    isstr = isinstance(s, str)
    k = "str" if isstr else "list"
    syms = SYMS_S if isstr else SYMS_L
    for i in idx:
        R.expect("%s[%d]" % (S, i), rs.deref(s, i), "deref:%s:%s" % (k, cls(i, n)), ("deref", S, i))
        R.expect("%s[%d to *]" % (S, i), rs.slice_(s, i), "slice-open:%s:%s" % (k, cls(i, n)), ("slo", S, i))
        fn = "substr" if isstr else "sublist"
        R.expect("%s(%s, %d)" % (fn, S, i), rs.slice_(s, i), "%s-open:%s" % (fn, cls(i, n)), (fn, S, i))
        # identity: s[0 to k] + s[k to *] == s
        R.expect("%s[0 to %d] + %s[%d to *] == %s" % (S, i, S, i, S), True, "identity-split:%s:%s" % (k, cls(i, n)), ("split", S, i))
        R.expect("length(%s[%d to *]) == %d" % (S, i, len(rs.slice_(s, i))), True, "identity-length:%s:%s" % (k, cls(i, n)), ("len", S, i))
        for j in idx:
            R.expect("%s[%d to %d]" % (S, i, j), rs.slice_(s, i, j), "slice:%s:start %s:end %s" % (k, cls(i, n), cls(j, n)), ("sl", S, i, j))
            R.expect("%s(%s, %d, %d)" % (fn, S, i, j), rs.slice_(s, i, j), "%s:start %s:end %s" % (fn, cls(i, n), cls(j, n)), (fn, S, i, j))
            if not isstr:
                # the run between the bounds is a value of its own: what is done to one result (an empty one included)
                # shows neither in the sequence nor in the next result of the same or another slice
                sl = rs.slice_(s, i, j)
                R.expect("def l = %s; def r_ = l[%d to %d]; append(r_, 'E'); insert_at(r_, 0, 'F'); [l[%d to %d], sublist(l, %d, %d), ['q'][1 to 0], l, r_]" % (S, i, j, i, j, i, j),
                         [sl, sl, [], s, ["F"] + sl + ["E"]], "slice-result-edited:start %s:end %s" % (cls(i, n), cls(j, n)), ("sl-ed", S, i, j))
        if not isstr:
            sl = rs.slice_(s, i)
            R.expect("def l = %s; def r_ = l[%d to *]; append(r_, 'E'); def q_ = sublist(l, %d); append(q_, 'G'); [l[%d to *], sublist(l, %d), l, r_, q_]" % (S, i, i, i, i),
                     [sl, sl, s, sl + ["E"], sl + ["G"]], "slice-open-result-edited:" + cls(i, n), ("slo-ed", S, i))
            R.expect("def l = %s; insert_at(l, %d, 'X'); l" % (S, i), rs.insert_at(s, i, "X"), "insert_at:" + cls(i, n), ("ins", S, i))
            R.expect("insert_at(%s, %d, 'X')" % (S, i), rs.insert_at(s, i, "X"), "insert_at-result:" + cls(i, n), ("insr", S, i))
            newl, removed = rs.delete_at(s, i)
            R.expect("def l = %s; delete_at(l, %d); l" % (S, i), newl, "delete_at:" + cls(i, n), ("del", S, i))
            R.expect("delete_at(%s, %d)" % (S, i), removed, "delete_at-result:" + cls(i, n), ("delr", S, i))
            R.expect("def l = %s; l[%d] = 'X'; l" % (S, i), rs.assign(s, i, "X"), "assign:" + cls(i, n), ("asg", S, i))
            # the same call site evaluated again (a helper called twice, a loop body): the index means the same each time
            twice = rs.insert_at(rs.insert_at(s, i, "P"), i, "Q")
            R.expect("def l = %s; def put_(l_, x) insert_at(l_, %d, x); put_(l, 'P'); put_(l, 'Q'); l" % (S, i), twice, "insert_at-same-site-twice:" + cls(i, n), ("ins2", S, i))
            R.expect("def l = %s; for x in ['P', 'Q'] do insert_at(l, %d, x) end; l" % (S, i), twice, "insert_at-in-loop:" + cls(i, n), ("ins2l", S, i))
            R.expect("def l = %s; def ix = %d; insert_at(l, ix, 'P'); insert_at(l, ix, 'Q'); [l, ix]" % (S, i), [twice, i], "insert_at-index-variable:" + cls(i, n), ("ins2v", S, i))
            d1, _r1 = rs.delete_at(s, i)
            d2, _r2 = rs.delete_at(d1, i)
            R.expect("def l = %s; for x in [1, 2] do delete_at(l, %d) end; l" % (S, i), d2, "delete_at-in-loop:" + cls(i, n), ("del2", S, i))
    if isstr:
        parts = [a for a in syms] + [a + b for a in syms for b in syms]
    else:
        parts = list(syms) + [2]
    for p in parts:
        P = src(p)
        pl = len(p) if isstr else 1
        w = rs.find(s, p)
        R.expect("find(%s, %s)" % (S, P), w, "find:%s:%s" % (k, "hit" if w >= 0 else "miss"), ("find", S, P))
        w = rs.find_last(s, p)
        tag = "miss" if w < 0 else ("match-at-end" if w + pl == n else "hit")
        R.expect("find_last(%s, %s)" % (S, P), w, "find_last:%s:%s" % (k, tag), ("findl", S, P))
        for st in idx:
            if st < 0:
                # left open: strings hand a negative start to the host's rfind (find_last('cc', 'c', start = -2) is 0),
                # lists answer -1; the statement fixes neither reading
                continue
            w = rs.find(s, p, st)
            R.expect("find(%s, %s, start = %d)" % (S, P, st), w, "find-start:%s:%s" % (k, cls(st, n)), ("finds", S, P, st))
            w = rs.find_last(s, p, st)
            R.expect("find_last(%s, %s, start = %d)" % (S, P, st), w, "find_last-start:%s:%s" % (k, cls(st, n)), ("findls", S, P, st))
    # concatenation identities
    for t in ([""] + list(syms) if isstr else [[], [0], [1, "a"]]):
        T = src(t)
        R.expect("length(%s + %s) == length(%s) + length(%s)" % (S, T, S, T), True, "identity-concat-length:" + k, ("cat", S, T))
        R.expect("(%s + %s)[%d to *] == %s" % (S, T, n, T), True, "identity-concat-suffix:" + k, ("cats", S, T))


def all_seqs(maxlen):
    out = []
    for n in range(maxlen + 1):
        for t in itertools.product(SYMS_S, repeat=n):
            out.append("".join(t))
        for t in itertools.product(SYMS_L, repeat=n):
            out.append(list(t))
    return out


def run_shard(spec, ctx):
    R = Runner(ctx)
    if spec["kind"] == "exh":
        seqs = all_seqs(spec["maxlen"])
        mine = [s for i, s in enumerate(seqs) if i % spec["of"] == spec["part"]]
        for s in mine:
            seq_ops(R, s)
            ctx.count("sequences")
        ctx.extras["seqs"] = len(mine)
        ctx.extras["total_seqs"] = len(seqs)
        if mine:
            ctx.sample({"sequence": src(mine[-1]), "ops": "all of deref/slice/substr|sublist/find/find_last/insert_at/delete_at/assign x indices -9..9"})
    else:
        r = ctx.rng
        for _ in range(spec["n"]):
            n = r.randint(5, 30)
            if r.random() < 0.15:
                n = r.choice([64, 65, 128, 129, 130, 256, 257, 1000])
                ctx.count("long_sequences")
            if r.random() < 0.5:
                # (a position is a code point: combining marks, astral characters, zero-width joiners count one each)
                alpha = "abcab " if r.random() < 0.7 else ["a", "b", "e\u0301", "\u0301", "\U0001f600", "\u05d1\u05b0", "o\u0308\u0304", "\u200d", " ", "\u00e9"]
                s = "".join(r.choice(alpha) for _ in range(n))
                n = len(s)
            else:
                s = [r.choice(SYMS_L + [2, "b"]) for _ in range(n)]
            big = [r.choice([1, -1]) * r.choice([n, n + 1, n - 1, 2 * n, 2**31, 2**40, r.randint(0, n)]) for _ in range(3)]
            S = src(s)
            k = "str" if isinstance(s, str) else "list"
            # length counts the positions that indexing and slicing address
            fn_ = "substr" if k == "str" else "sublist"
            R.expect("def q = %s; [length(q), q[0 to length(q)] == q, %s(q, 0, length(q)) == q, q[length(q) - 1] == q[-1], do q[length(q)] catch all 'out of range' end]" % (S, fn_),
                     [n, True, True, True, "out of range"], "length-vs-positions:" + k, ("len-pos", S))
            for i in big:
                R.expect("%s[%d]" % (S, i), rs.deref(s, i), "deref:%s:%s" % (k, cls(i, n)), ("deref", S, i))
                for j in big:
                    R.expect("%s[%d to %d]" % (S, i, j), rs.slice_(s, i, j), "slice:%s:start %s:end %s" % (k, cls(i, n), cls(j, n)), ("sl", S, i, j))
                    fn = "substr" if k == "str" else "sublist"
                    R.expect("%s(%s, %d, %d)" % (fn, S, i, j), rs.slice_(s, i, j), "%s:start %s:end %s" % (fn, cls(i, n), cls(j, n)), (fn, S, i, j))
            for st in (r.randint(0, n), r.randint(0, n + 2)):
                p = (s[r.randint(0, n - 1):][:r.randint(1, 3)]) if k == "str" else r.choice(s)
                R.expect("find(%s, %s, start = %d)" % (S, src(p), st), rs.find(s, p, st), "find-start:%s:%s" % (k, cls(st, n)), ("finds", S, src(p), st))
                R.expect("find_last(%s, %s, start = %d)" % (S, src(p), st), rs.find_last(s, p, st), "find_last-start:%s:%s" % (k, cls(st, n)), ("findls", S, src(p), st))
            if k == "str":
                p = s[r.randint(0, n - 1):][:r.randint(1, 3)]
                R.expect("find(%s, %s)" % (S, src(p)), rs.find(s, p), "find:str:hit", ("find", S, p))
                R.expect("find_last(%s, %s)" % (S, src(p)), rs.find_last(s, p), "find_last:str:random", ("findl", S, p))
            else:
                p = r.choice(s)
                R.expect("find(%s, %s)" % (S, src(p)), rs.find(s, p), "find:list:hit", ("find", S, src(p)))
                R.expect("find_last(%s, %s)" % (S, src(p)), rs.find_last(s, p), "find_last:list:random", ("findl", S, src(p)))
                # names of the calling scope are the caller's business: a variable, a parameter or a function called
                # identity / key / start / compare there does not change what find looks for
                R.expect("def pos_(items, identity) [find(items, identity), find_last(items, identity)]; pos_(%s, %s)" % (S, src(p)), [rs.find(s, p), rs.find_last(s, p)],
                         "find:caller-names:parameter", ("find-names-param", S, src(p)))
                R.expect("def identity(n_) 'shadowed'; def key = 1; def start = 99; def compare(a_, b_) 0; [find(%s, %s), find_last(%s, %s)]" % (S, src(p), S, src(p)),
                         [rs.find(s, p), rs.find_last(s, p)], "find:caller-names:definitions", ("find-names-defs", S, src(p)))
                # NULL is an element like any other
                sn = list(s)
                for _q in range(r.randint(0, 2)):
                    sn.insert(r.randrange(len(sn) + 1), None)
                SN = "[" + ", ".join("NULL" if x is None else src(x) for x in sn) + "]"
                wf = next((q for q, x in enumerate(sn) if x is None), -1)
                wl = next((q for q in reversed(range(len(sn))) if sn[q] is None), -1)
                R.expect("[find(%s, NULL), find_last(%s, NULL)]" % (SN, SN), [wf, wl], "find:list:null-part", ("find-null", SN))
            # what indexing, slicing and substr return are new values: editing them in place changes neither the
            # sequence nor what the same expression returns next time
            if k == "str":
                i = r.randrange(n)
                a, b = sorted([r.randrange(n), r.randrange(n)])
                b += 1
                R.expect("def s = %s; def c = s[%d]; c[0] = 'Q'; def t = s[%d to %d]; t[0] = 'QQ'; def u = substr(s, %d, %d); u[0] = ''; "
                         "[s, s[%d], %s[%d], s[%d to %d], substr(s, %d, %d)]" % (S, i, a, b, a, b, i, S, i, a, b, a, b),
                         [s, s[i], s[i], s[a:b], s[a:b]], "result-edited-in-place:str", ("resedit", S, i, a, b))
            else:
                a, b = sorted([r.randrange(n), r.randrange(n)])
                b += 1
                R.expect("def s = %s; def t = s[%d to %d]; t[0] = 'Q'; append(t, 'R'); def u = sublist(s, %d, %d); delete_at(u, 0); "
                         "[s, s[%d to %d], sublist(s, %d, %d)]" % (S, a, b, a, b, a, b, a, b),
                         [s, s[a:b], s[a:b]], "result-edited-in-place:list", ("resedit", S, a, b))
            # the sequence itself reached by in-place edits after it was indexed, sliced and searched
            from cklgen import history
            av = ("str", s) if k == "str" else ("list", tuple(("int", x) if isinstance(x, int) else ("str", x) for x in s))
            if n > 300:
                ctx.count("random_sequences", 0)
                continue        # (the priming reads of the history - sorting, rendering - are quadratic in the interpreter)
            st, tg = history.build(r, av, "hs", extra_primers=("hs[0]", "hs[1 to 3]", "find(hs, 'a')", "find_last(hs, 'a')", "hs[-1]"), allow_alias=False)
            pre = "; ".join(st) + "; "
            for tg_ in tg:
                ctx.count("edit:" + tg_)
            for i in big[:2] + [r.randrange(n), -r.randint(1, n)]:
                R.expect(pre + "hs[%d]" % i, rs.deref(s, i), "after-edits:deref:%s:%s" % (k, cls(i, n)), ("h-deref", S, i))
                j = r.choice(big + [r.randrange(n + 1)])
                R.expect(pre + "hs[%d to %d]" % (i, j), rs.slice_(s, i, j), "after-edits:slice:%s" % k, ("h-sl", S, i, j))
                fn = "substr" if k == "str" else "sublist"
                R.expect(pre + "%s(hs, %d, %d)" % (fn, i, j), rs.slice_(s, i, j), "after-edits:%s" % fn, ("h-" + fn, S, i, j))
            p = (s[r.randint(0, n - 1):][:r.randint(1, 3)]) if k == "str" else r.choice(s)
            R.expect(pre + "[find(hs, %s), find_last(hs, %s), length(hs)]" % (src(p), src(p)), [rs.find(s, p), rs.find_last(s, p), n],
                     "after-edits:find:%s" % k, ("h-find", S, src(p)))
            ctx.count("edited_sequences")
            # the sequence expression is evaluated once: an expression that yields another value each time it is
            # evaluated is indexed / sliced as the value of its one evaluation
            s2 = (s[::-1] + "q") if k == "str" else (list(reversed(s)) + ["q"])
            a, i = r.randint(0, n), r.randrange(n)
            b = r.randint(a, n)
            pre2 = "def cnt = 0; def nxt() do cnt += 1; [%s, %s][cnt - 1] end; " % (S, src(s2))
            R.expect(pre2 + "[nxt()[%d to *], cnt]" % a, [rs.slice_(s, a), 1], "evaluated-once:slice-open:" + k, ("once-slo", S, a))
            R.expect(pre2 + "[nxt()[%d to %d], cnt]" % (a, b), [rs.slice_(s, a, b), 1], "evaluated-once:slice:" + k, ("once-sl", S, a, b))
            R.expect(pre2 + "[nxt()[%d], cnt]" % i, [rs.deref(s, i), 1], "evaluated-once:deref:" + k, ("once-deref", S, i))
            R.expect(pre2 + "[nxt()[-1], nxt()[-1], cnt]", [s[-1], s2[-1], 2], "evaluated-once:two-calls:" + k, ("once-two", S))
            # find / find_last with a key function that itself searches (the outer search goes on with its own key)
            if k == "list":
                rows = [[r.choice(["x", "y", 0]) for _ in range(r.randint(1, 4))] for _ in range(r.randint(2, 5))]
                target = r.randint(0, 3)
                keys_ = [(row.index("x") if "x" in row else -1) for row in rows]
                want_f = next((j for j, kv in enumerate(keys_) if kv == target), -1)
                want_l = next((j for j in reversed(range(len(keys_))) if keys_[j] == target), -1)
                R.expect("find(%s, %d, key = fn(row) find(row, 'x'))" % (src(rows), target), want_f, "find:key-calls-find", ("find-reentrant", src(rows), target))
                R.expect("find_last(%s, %d, key = fn(row) find_last(row, 'x'))" % (src(rows), target),
                         next((j for j in reversed(range(len(rows))) if (max([q for q, e in enumerate(rows[j]) if e == "x"], default=-1)) == target), -1),
                         "find_last:key-calls-find_last", ("findl-reentrant", src(rows), target))
                R.expect("find(%s, %d, key = fn(row) find_last(row, 'x') - find_last(row, 'x') + find(row, 'x'))" % (src(rows), target), want_f,
                         "find:key-calls-both", ("find-reentrant2", src(rows), target))
            # elements that are different values with the same host payload (TRUE and 1, 'a' and //a//), equal numbers of
            # different kinds (1 and 1.0): the position is that of the first / last *equal* element
            puns = [("TRUE", ("bool", True)), ("FALSE", ("bool", False)), ("1", ("num", 1.0)), ("0", ("num", 0.0)), ("1.0", ("num", 1.0)), ("0.0", ("num", 0.0)),
                    ("'a'", ("str", "a")), ("//a//", ("pat", "a")), ("'1'", ("str", "1")), ("'TRUE'", ("str", "TRUE")), ("NULL", ("null",)), ("[1]", ("list", 1.0)),
                    ("[TRUE]", ("list", True)), ("//1//", ("pat", "1")), ("''", ("str", "")), ("[]", ("list",))]
            seq = [r.choice(puns) for _ in range(r.randint(2, 9))]
            part = r.choice(seq if r.random() < 0.7 else puns)

            def same(x, y):
                return x[1] == y[1] and type(x[1][-1]) is type(y[1][-1])
            L_ = "[" + ", ".join(x[0] for x in seq) + "]"
            wf = next((q for q, x in enumerate(seq) if same(x, part)), -1)
            wl = next((q for q in reversed(range(len(seq))) if same(seq[q], part)), -1)
            R.expect("[find(%s, %s), find_last(%s, %s)]" % (L_, part[0], L_, part[0]), [wf, wl], "find:list:same-payload-other-kind", ("find-pun", L_, part[0]))
            st = r.randint(0, len(seq))
            wfs = next((q for q, x in enumerate(seq) if q >= st and same(x, part)), -1)
            R.expect("find(%s, %s, start = %d)" % (L_, part[0], st), wfs, "find-start:list:same-payload-other-kind", ("find-pun-start", L_, part[0], st))
            # a key function is asked about the elements the search looks at: one that cannot answer for an element the
            # search never reaches (beyond the hit, before the start) does not make the search fail
            words = [r.choice(["ab", "cb", "xyz", "qb", "abc"]) for _ in range(r.randint(1, 4))]
            hit = r.randrange(len(words))
            short = ["", "a", ""]
            fwd = words[:hit + 1] + [r.choice(short) for _ in range(r.randint(1, 3))]
            target = words[hit][1]
            wf = next(q for q, w in enumerate(fwd) if w[1] == target)
            R.expect("find(%s, %s, key = fn(x) x[1])" % (src(fwd), src(target)), wf, "find:key-undefined-beyond-hit", ("find-partial-key", src(fwd), target))
            bwd = [r.choice(short) for _ in range(r.randint(1, 3))] + words[hit:]
            wl = max(q for q, w in enumerate(bwd) if len(w) > 1 and w[1] == target)
            R.expect("find_last(%s, %s, key = fn(x) x[1])" % (src(bwd), src(target)), wl, "find_last:key-undefined-before-hit", ("findl-partial-key", src(bwd), target))
            both = [r.choice(short)] + words + [r.choice(short)]
            wst = next((q for q, w in enumerate(both) if q >= 1 and len(w) > 1 and w[1] == target), -1)
            R.expect("find(%s, %s, key = fn(x) x[1], start = 1)" % (src(both), src(target)), wst, "find-start:key-undefined-before-start", ("find-partial-key-start", src(both), target))
        ctx.count("random_sequences", spec["n"])


def finalize(merged, tier):
    c = merged["counters"]
    reasons = []
    docs = [ex for spec, ex in merged["shard_docs"] if spec.get("kind") == "exh"]
    got = sum(ex.get("seqs", 0) for ex in docs)
    total = max([ex.get("total_seqs", 0) for ex in docs] or [0])
    extra = {"exhaustive": bool(total) and got == total,
             "exhaustive_space": "%d sequences (strings over {a,b,c}, lists over {0,1,'a'}, length <= %d) x indices -9..9 (single, pairs) x parts <= 2"
                                 % (total, 4 if tier == "quick" else 6)}
    if got != total or not total:
        reasons.append("exhaustive sequence sweep incomplete (%d of %d)" % (got, total))
    if c.get("evaluations", 0) == 0:
        reasons.append("no evaluations")
    return extra, reasons


def replay(rec):
    ctx = core.Ctx("C15", "quick", 0, 0, {})
    return {"violated": None, "note": "re-run the expression in rec['replay']['src'] by hand", "src": rec.get("replay", {}).get("src")}
