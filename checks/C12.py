"""C12 — results do not depend on hash seeds, process or construction order.

Deciding monitor: exact agreement of (stdout, rendered result, error value) of
the same program across (a) fresh processes with different PYTHONHASHSEED,
(b) in-process shuffles of the raw iteration order of every set and map (M7),
(c) permutations of the element order in its set and map literals."""
from cklmon import core, shuffle
from cklmon.core import observe
from cklgen import values as gv

RULE = ("programs build sets and maps of strings and mixed scalars and push them through every enumeration path (for, "
        "comprehensions x keys/values/entries, list/set/map/object conversion, spread into calls and list literals, "
        "destructuring def/assign/for, rendering, interpolation, set arithmetic, every collection-taking library function, "
        "seeded random/choice/sample); (a) one child per hash seed runs the whole batch, (b) 20 shuffles per program in "
        "process, (c) <= 6 permutations of literal element order; a case is one (program, perturbation); non-trivial = "
        "the program enumerates a set or map of >= 2 elements; distinct by program text + perturbation")
ASSUMPTIONS = [
    "objects are insertion-ordered by design and only claimed when built from literals",
    "time, timestamp and unseeded randomness are excluded",
    "(b) assumes the shuffling container subclasses are transparent to code that sorts before enumerating",
]
SHARD_TIMEOUT = {"quick": 400, "thorough": 3000}

STR_ELEMS = ["'a'", "'b'", "'ab'", "'B'", "''", "'z'", "'é'", "'10'", "'9'", "'a b'", "'caf\u00e9'", "'cafe\u0301'", "'\u212b'", "'\u00c5'", "'A\u030a'"]
MIX_ELEMS = ["1", "2", "10", "-3", "1.5", "0.5", "7", "100", "42"]
SET_ELEMS = ["<<1, 2>>", "<<3>>", "<<'ab', 'cd'>>", "<<'cd', 'ef'>>", "<<2, 5>>", "<<9>>", "<<>>", "<<8>>", "<<1>>", "<<'a'>>", "<<'b', 'a'>>", "<< <<1>> >>"]   # subset order is partial
LIST_ELEMS = ["[1]", "[1, 2]", "[2]", "['a']", "[]", "[[1]]", "[1.5]", "['a', 'b']"]
DEC_ELEMS = ["0.1", "0.2", "0.7", "0.3", "10000000000000000.0", "-10000000000000000.0", "1.1", "2.2", "3.3", "1"]      # sums that depend on the order of addition

# (name, program template); {S} a set literal, {S2} a second one, {M} a map literal, {L} list of the set elements
PATHS = [
    ("render-set", "string({S})"), ("render-map", "string({M})"), ("render-nested", "string([{S}, <<<1 => {S} >>>, {M}])"),
    ("interp-set", "def v = {S}; s('{v}')"), ("interp-map", "def v = {M}; s('x{v}y')"),
    ("for-set", "def acc = []; for x in {S} do append(acc, x) end; acc"),
    ("for-map-default", "def acc = []; for x in {M} do append(acc, x) end; acc"),
    ("for-map-keys", "def acc = []; for x in keys {M} do append(acc, x) end; acc"),
    ("for-map-values", "def acc = []; for x in values {M} do append(acc, x) end; acc"),
    ("for-map-entries", "def acc = []; for x in entries {M} do append(acc, x) end; acc"),
    ("for-destr-entries", "def acc = []; for [k, v] in entries {M} do append(acc, [v, k]) end; acc"),
    ("print-set", "for x in {S} do println(x) end"), ("print-map", "for k in keys {M} do print(k); print(',') end"),
    ("listcomp-set", "[x for x in {S}]"), ("listcomp-map", "[x for x in {M}]"), ("listcomp-keys", "[x for x in keys {M}]"),
    ("listcomp-values", "[x for x in values {M}]"), ("listcomp-entries", "[x for x in entries {M}]"),
    ("listcomp-product", "[[x, y] for x in {S} for y in {S2}]"), ("listcomp-parallel", "[[x, y] for x in {S} also for y in {S2}]"),
    ("setcomp", "<<[x] for x in {S} >>"), ("mapcomp", "<<<x => 1 for x in {S} >>>"), ("mapcomp-keys", "<<<k => k for k in keys {M} >>>"),
    ("list-of-set", "list({S})"), ("list-of-map", "list({M})"), ("set-of-map", "set({M})"), ("set-of-list", "set({L})"),
    ("object-of-map", "string(object({M}))"), ("map-of-pairs", "map([[x, 1] for x in {S}])"), ("object-keys", "[k for k in keys object({M})]"),
    ("spread-set-list", "def v = {S}; [...v]"), ("spread-set-call", "def v = {S}; (fn(args...) args...)(...v)"),
    ("spread-map-list", "def v = {M}; [...v]"), ("spread-map-call", "def v = {MS}; (fn(a = 0, b = 0, ab = 0, z = 0, rest...) [a, b, ab, z, rest...])(...v)"),
    ("spread-map-positional", "def v = {M}; (fn(args...) args...)(...v)"),
    ("destr-def-set", "def [p, q, r] = {S}; [p, q, r]"), ("destr-for-set", "def acc = []; for [p, q] in << {S}, {S2} >> do append(acc, [p, q]) end; acc"),
    ("set-union", "{S} + {S2}"), ("set-plus-list", "{S} + {L}"), ("list-plus-set", "{L} + {S}"), ("set-minus", "{S} - {S2}"),
    ("set-minus-list", "list({S} - {L})"), ("elem-plus-set", "list('q' + {S})"),
    ("sorted-set", "sorted({S})"), ("join-set", "join(list([string(x) for x in {S}]), '|')"), ("join-set-direct", "join([string(x) for x in {S}], ',')"),
    ("first", "first(list({S}))"), ("last", "last(list({S}))"), ("unique", "unique(list({S}) + list({S2}))"),
    ("union-fn", "union({S}, {S2})"), ("intersection-fn", "intersection({S}, {S2})"), ("diff-fn", "diff({S}, {S2})"),
    ("symmetric-diff-fn", "list(symmetric_diff({S}, {S2}))"), ("append-all", "append_all([], {S})"), ("append-all-set", "list(append_all(<<>>, {L}))"),
    ("enumerate-map", "enumerate({M})"), ("enumerate-list-of-set", "enumerate(list({S}))"), ("zip", "zip(list({S}), list({S2}))"),
    ("zip-map", "string(zip_map(list({S}), list({S2})))"), ("filter", "filter(list({S}), fn(x) TRUE)"), ("map-list", "map_list(list({S}), fn(x) [x])"),
    ("for-each", "def acc = []; for_each(list({S}), fn(x) append(acc, x)); acc"), ("reduce", "reduce([string(x) for x in {S}], fn(a, b) a + b)"),
    ("count", "count(list({S}), 'a')"), ("min-max", "[min([string(x) for x in {S}]), max([string(x) for x in {S}])]"),
    ("find", "find(list({S}), list({S})[0])"), ("in-set", "[x in {S2} for x in {S}]"), ("chunks", "chunks(list({S}), 2)"),
    ("pairs", "pairs(list({S}))"), ("grouped", "grouped(list({S}))"), ("reverse", "reverse_list(list({S}))"), ("flatten", "flatten([list({S}), list({S2})])"),
    ("permutations", "permutations(sublist(list({S}), 0, 3))"), ("length", "[length({S}), length({M})]"), ("remove", "def v = {S}; remove(v, list(v)[0]); v"),
    ("put", "def v = {M}; put(v, 'new', 0); v"), ("map-get", "[map_get({M}, k) for k in keys {M}]"), ("label-data", "string(label_data(list({S}), list({S2})))"),
    ("choice-seeded", "set_seed(7); [choice({S}), choice({S}), choice(list({S2}))]"), ("sample-seeded", "set_seed(11); sample({S}, 2)"),
    ("choices-seeded", "set_seed(3); choices({S}, 4)"), ("random-seeded", "set_seed(5); [random(10), random(10), random(1, 4)]"),
    ("error-value", "error {S}"), ("error-map", "error {M}"), ("catch-set", "do error {S} catch {S} 'caught' end"),
    ("set-as-key", "string(<<< {S} => 1, {S2} => 2 >>>)"), ("set-of-sets", "string(<< {S}, {S2} >>)"), ("equality", "[{S} == {S}, {M} == {M}, {S} == {S2}]"),
    ("new-object", "def o = <*a = 1*>; def n = new(<*x = {S} *>); string(n->x)"), ("sum", "sum([length(string(x)) for x in {S}])"),
    ("sorted-key-ties", "sorted({S}, key = fn(x) length(string(x)))"), ("sorted-cmp-all-equal", "sorted({S}, cmp = fn(a, b) 0)"),
    ("sorted-key-constant", "sorted({S}, key = fn(x) 1)"), ("sorted-key-ties-ints", "sorted(<< 16, 8, 0, 24, 3 >>, key = fn(x) x % 8)"),
    ("sorted-map-keys-ties", "sorted(set({M}), key = fn(x) 0)"), ("min-key-ties", "min(list({S}), key = fn(x) 0)"),
    ("grouped-set", "grouped(sorted({S}, key = fn(x) length(string(x))), key = fn(x) length(string(x)))"),
    # sets and maps handed directly to library functions written for lists (an error is a fine outcome, as long as it
    # is the same error in every process and for every construction order)
    ("direct-sum", "sum({S})"), ("direct-sum-map", "sum({M})"), ("direct-mean", "mean({S})"), ("direct-median", "median({S})"), ("direct-prod", "prod({S})"),
    ("direct-min", "min({S})"), ("direct-max", "max({S})"), ("direct-join", "join({S}, '|')"), ("direct-reverse", "reverse({S})"),
    ("direct-first", "first({S})"), ("direct-last", "last({S})"), ("direct-unique", "unique({S})"), ("direct-flatten", "flatten({S})"),
    ("direct-flatten-nested", "flatten([{S}, [{S2}]])"), ("direct-enumerate", "enumerate({S})"), ("direct-zip", "zip({S}, {S2})"),
    ("direct-filter", "filter({S}, fn(x) TRUE)"), ("direct-map-list", "map_list({S}, fn(x) [x])"), ("direct-reduce", "reduce({S}, fn(a, b) [a, b])"),
    ("direct-for-each", "def acc = []; for_each({S}, fn(x) append(acc, x)); acc"), ("direct-find", "find({S}, 'a')"), ("direct-chunks", "chunks({S}, 2)"),
    ("direct-pairs", "pairs({S})"), ("direct-grouped", "grouped({S})"), ("direct-any", "any({S}, fn(x) x == 'a')"), ("direct-count", "count({S}, 'a')"),
    ("direct-sublist", "sublist({S}, 0, 2)"), ("direct-index", "{S}[0]"), ("direct-slice", "{S}[0 to 2]"), ("direct-string-fns", "[upper(string({S})), length(string({M}))]"),
    ("direct-append-all-list", "append_all([0], {M})"), ("direct-s-format", "def v = {S}; s('{v#30}')"), ("direct-sprintf", "sprintf('{0} {1}', {S}, {M})"),
    ("direct-zip-map", "string(zip_map({S}, {S2}))"), ("direct-map-of-set", "string(map({S}))"), ("direct-sorted-map", "sorted({M})"),
    ("direct-label-data", "string(label_data({S}, {S2}))"), ("direct-interval-sum", "sum([x for x in {S}])"), ("direct-reduce-add", "reduce(list({S}), fn(a, b) a + b)"),
    ("wrong-named-args", "sorted({L}, kee = 1, reverse_ = 2, zz = 3)"), ("wrong-named-args-spread", "def f(a) a; f(...<<<'x' => 1, 'yy' => 2, 'b' => 3>>>)"),
    ("wrong-named-args-lambda", "(fn(p, q = 1) p)(1, zeta = 1, alpha = 2, mid = 3)"), ("missing-members", "def o = <*a = 1*>; [o->zz, o->yy]"),
    ("destr-assign-set", "def p = 0; def q = 0; [p, q] = {S}; [p, q]"),
    ("destr-for-values-sets", "def acc = []; for [p, q] in values <<<1 => {S}, 2 => {S2} >>> do append(acc, [p, q]) end; acc"),
    ("destr-for-keys-sets", "def acc = []; for [p, q] in keys <<< {S} => 1, {S2} => 2 >>> do append(acc, [p, q]) end; acc"),
    ("destr-for-member-sets", "def acc = []; for [p, q] in values <*a = {S}, b = {S2} *> do append(acc, [p, q]) end; acc"),
    ("direct-join-map", "join({M}, '|')"), ("direct-first-last-map", "[first({M}), last({M})]"), ("render-list-of-map", "string(list({M}))"),
    ("direct-reverse-map", "string(reverse({M}))"), ("direct-enumerate-map", "string(enumerate({M}))"), ("direct-unique-map", "string(unique({M}))"),
    ("seed-by-string", "set_seed('run-2024-A'); [random(1000), random(1000)]"), ("seed-by-date", "set_seed(date('20200101')); [random(1000), random(1000)]"),
    ("seed-by-element", "set_seed(first(list({S}))); [random(1000), random(1000)]"), ("seed-by-decimal", "set_seed(1.5); random(1000)"),
    ("seed-by-list", "set_seed(['a', 'b']); random(1000)"), ("seed-by-big-int", "set_seed(12345678901234567890123); [random(1000), random(1000)]"),
    # comprehensions whose result has no order of its own still walk their source in sorted order: the last of several
    # elements with one key wins, effects happen in walk order
    ("mapcomp-keys-collide", "<<<type(x) => x for x in {S} >>>"), ("mapcomp-keys-collide-len", "<<<length(string(x)) => x for x in {S} >>>"),
    ("setcomp-effects", "def acc = []; << do append(acc, x); 1 end for x in {S} >>; acc"), ("mapcomp-over-keys-collide", "<<<1 => k for k in keys {M} >>>"),
    ("mapcomp-over-values-collide", "<<<1 => v for v in values {M} >>>"), ("mapcomp-over-entries-collide", "<<<1 => e for e in entries {M} >>>"),
    ("setcomp-product-effects", "def acc = []; << do append(acc, [x, y]); 0 end for x in {S} for y in {S2} >>; acc"),
    ("mapcomp-effects", "def acc = []; <<<x => do append(acc, x); 1 end for x in {S} >>>; acc"),
    ("hidden-members", "[x->_h for x in {S}]"), ("hidden-members-for", "def acc = []; for x in {S} do append(acc, x->_h) end; acc"),
    ("hidden-members-list", "[x->_h for x in list({S})]"), ("hidden-members-sorted", "[x->_h for x in sorted({S})]"),
    ("type-checks", "[x is string for x in {S}]"), ("contains", "[contains({S}, 'a'), 'a' in {M}]"), ("if-empty", "[{S} is empty, {M} is not empty]"),
]


def plan(tier, seed):
    nseeds = 8 if tier == "quick" else 32
    specs = [{"kind": "hashseed", "hashseed": hs, "rounds": 3 if tier == "quick" else 12} for hs in range(1, nseeds + 1)]
    n = 8 if tier == "quick" else 32
    specs += [{"kind": "shuffle", "rounds": 2 if tier == "quick" else 14} for _ in range(n)]
    specs += [{"kind": "permute", "rounds": 3 if tier == "quick" else 16} for _ in range(n // 2)]
    specs += [{"kind": "agree", "rounds": 16 if tier == "quick" else 80} for _ in range(2 if tier == "quick" else 6)]
    return specs


PUN_ELEMS = ["TRUE", "1", "FALSE", "0", "'ab'", "//ab//", "2", "'1'", "'TRUE'", "//1//", "[1]", "[TRUE]"]   # host-type puns: True == 1, 'ab' vs //ab//


NUMBOOL_ELEMS = ["TRUE", "1", "FALSE", "0", "2", "-1", "3"]
STRPAT_ELEMS = ["'ab'", "//ab//", "'1'", "'TRUE'", "//1//", "//TRUE//", "'a'", "//z//"]
PUN_PAIRS = {"pun-numbool": [("TRUE", "1"), ("FALSE", "0")], "pun-strpat": [("'ab'", "//ab//"), ("'1'", "//1//"), ("'TRUE'", "//TRUE//")],
             "pun-mixed": [("TRUE", "1"), ("FALSE", "0"), ("'ab'", "//ab//"), ("[1]", "[TRUE]"), ("'1'", "//1//")]}
# objects whose text is the same (hidden members differ): still a definite enumeration order
OBJ_ELEMS = ["<*a = 1, _h = 'p'*>", "<*a = 1, _h = 'q'*>", "<*a = 1, _h = 'r'*>", "<*a = 1, _h = 1*>", "<*a = 1, _h = 2*>", "<*a = 2, _h = 'p'*>", "<*a = 1*>",
             "<*a = 1, _h = 'p', _g = 'zz'*>", "<*_h = 'only hidden'*>", "<*_h = 'other hidden'*>", "<*a = 1, _h = [1]*>", "<*a = 1, _h = [1.0, 2]*>"]
# kinds mixed so that the order within a kind (numeric, chronological, element-wise) and an order of texts disagree
CYCLIC_ELEMS = ["7", "3", "10", "-4", "2.5", "1000000000000000000000000000000.0", "18446744073709551617", "date('21000710165726')", "date('99991209211510')",
                "date('20200101')", "'2'", "'10'", "'20200101000000'", "//5//", "TRUE", "FALSE", "NULL", "[3]", "[10]", "['2']", "<<3>>", "<<<3 => 1>>>"]
POOLS = {"mixed-kinds": CYCLIC_ELEMS, "objs": OBJ_ELEMS, "str": STR_ELEMS, "mix": MIX_ELEMS, "dec": DEC_ELEMS, "set": SET_ELEMS, "list": LIST_ELEMS,
         "pun-numbool": NUMBOOL_ELEMS, "pun-strpat": STRPAT_ELEMS, "pun-mixed": PUN_ELEMS}
# every kind of pool is used in turn (string-like ones first: those are the ones a hash seed can reorder)
KIND_CYCLE = ["pun-strpat", "str", "objs", "mixed-kinds", "set", "pun-mixed", "list", "pun-numbool", "mix", "dec"]


NUMEQ_VALS = ["1", "1.0", "2", "2.0", "0", "0.0", "[1]", "[1.0]", "[[2]]", "[[2.0]]"]

# enumerations of one set that must all give the same sequence ("all enumerate them in sorted order")
AGREE_SET = [
    ("list", "list({S})"), ("comprehension", "[x for x in {S}]"), ("for", "def acc = []; for x in {S} do append(acc, x) end; acc"),
    ("spread", "def v = {S}; [...v]"), ("sorted", "sorted({S})"), ("append-all", "append_all([], {S})"),
    ("call-spread", "def v = {S}; (fn(args...) args...)(...v)"), ("filter", "filter({S}, fn(x) TRUE)"),
]
AGREE_SET_PREFIX = [
    ("def-destructuring", "def [p, q] = {S}; [p, q]"), ("assign-destructuring", "def p = 0; def q = 0; [p, q] = {S}; [p, q]"),
    ("for-destructuring-list", "def acc = []; for [p, q] in [{S}] do acc = [p, q] end; acc"),
    ("for-destructuring-values", "def acc = []; for [p, q] in values <<<1 => {S} >>> do acc = [p, q] end; acc"),
    ("for-destructuring-keys", "def acc = []; for [p, q] in keys <<< {S} => 1 >>> do acc = [p, q] end; acc"),
    ("for-destructuring-members", "def acc = []; for [p, q] in values <*a = {S} *> do acc = [p, q] end; acc"),
    ("first-two", "[first(list({S})), list({S})[1]]"),
]
AGREE_KEYS = [
    ("keys-comprehension", "[k for k in keys {M}]"), ("keys-for", "def acc = []; for k in keys {M} do append(acc, k) end; acc"),
    ("keys-set", "list(set({M}))"), ("keys-sorted", "sorted(set({M}))"), ("entries", "[e[0] for e in entries {M}]"),
    ("for-entries", "def acc = []; for [k, v] in entries {M} do append(acc, k) end; acc"), ("object-keys", "[k for k in keys {M}] == [k for k in keys {M}]"),
]


def gen_collections(r, idx=None):
    """element lists for S, S2, M (as source strings); idx picks the pool kind in turn"""
    kind = KIND_CYCLE[idx % len(KIND_CYCLE)] if idx is not None else r.choice(KIND_CYCLE)
    pool = POOLS[kind]
    a = r.sample(pool, r.randint(2, 5))
    b = r.sample(pool, r.randint(2, 4))
    if kind in PUN_PAIRS:
        # distinct values whose host payloads are equal, together in one collection
        for xs in (a, b):
            if r.random() < 0.8:
                for e in r.choice(PUN_PAIRS[kind]):
                    if e not in xs:
                        xs.append(e)
                r.shuffle(xs)
    if r.random() < 0.05:
        # collections beyond the size thresholds of any fast path
        big = r.choice(["int", "str", "set", "list"])
        n_ = r.choice([130, 200, 300])
        xs = r.sample(range(1000, 99999), n_)
        mk = {"int": lambda x: str(x), "str": lambda x: "'s%d'" % x, "set": lambda x: "<<%d, %d>>" % (x, x + 1 + x % 3), "list": lambda x: "[%d, %d]" % (x % 7, x)}[big]
        a = [mk(x) for x in xs]
        b = [mk(x) for x in xs[: n_ // 2]] + [mk(x + 100000) for x in xs[:5]]
    keys = r.sample(STR_ELEMS if r.random() < 0.7 else MIX_ELEMS, r.randint(2, 4))
    vals = [r.choice(pool + ["NULL", "[1]"]) for _ in keys]
    if r.random() < 0.35:
        # equal values that are told apart when rendered: an enumeration ordered by value must not fall back on insertion order
        vals = [r.choice(NUMEQ_VALS) for _ in keys]
        i_, j_ = r.sample(range(len(keys)), 2)
        vals[i_], vals[j_] = r.choice([("1", "1.0"), ("2", "2.0"), ("0", "0.0"), ("[1]", "[1.0]"), ("[[2]]", "[[2.0]]"), ("2.0", "2")])
    skeys = r.sample(["'a'", "'b'", "'ab'", "'z'"], r.randint(1, 4))
    svals = [str(r.randint(1, 9)) for _ in skeys]
    return {"a": a, "b": b, "keys": keys, "vals": vals, "skeys": skeys, "svals": svals}


def instantiate(template, col, r=None):
    def order(xs):
        xs = list(xs)
        if r is not None:
            r.shuffle(xs)
        return xs
    S = "<< " + ", ".join(order(col["a"])) + " >>"
    S2 = "<< " + ", ".join(order(col["b"])) + " >>"
    L = "[" + ", ".join(col["a"]) + "]"
    M = "<<< " + ", ".join("%s => %s" % kv for kv in order(list(zip(col["keys"], col["vals"])))) + " >>>"
    MS = "<<< " + ", ".join("%s => %s" % kv for kv in order(list(zip(col["skeys"], col["svals"])))) + " >>>"
    return template.replace("{S2}", S2).replace("{S}", S).replace("{L}", L).replace("{MS}", MS).replace("{M}", M)


class Runner:
    def __init__(self):
        import ckl.functions
        self.it, self.out = core.new_interpreter(secure=True, legacy=True)
        self.Env = ckl.functions.Environment

    def run(self, src):
        self.out.output = ""
        env = self.Env()
        o = observe(lambda: self.it.interpret(src, "c12", env), 2000000)
        if o.kind == "value":
            res = ("value", core.safe_str(o.value, 2000))
        elif o.kind == "rte":
            # ("the same ... error": value and message text)
            res = ("error", core.safe_str(getattr(o.exc, "value", None), 500) + " :: " + core.safe_str(getattr(o.exc, "msg", ""), 300))
        else:
            res = (o.kind, type(o.exc).__name__ if o.exc is not None else "")
            if o.kind == "hang":
                self.it, self.out = core.new_interpreter(secure=True, legacy=True)
        return res + (self.out.output,)


def batch(seed, rounds):
    """the program batch shared by all hash-seed shards (independent of the shard index)"""
    r = core.make_rng(seed, "C12-batch", 0)
    progs = []
    for i in range(rounds):
        col = gen_collections(r, i)
        for name, tmpl in PATHS:
            progs.append((name, instantiate(tmpl, col)))
    return progs


def check_total_order(ctx, R, elems, label):
    """"sorted order" exists only if the language's < is a strict total order on the very elements"""
    S = "[" + ", ".join(elems) + "]"
    o = observe(lambda: R.it.interpret("def l_ = %s; [[[x < y, x == y] for y in l_] for x in l_]" % S, "c12", R.Env()), 3000000)
    if o.kind != "value":
        ctx.count("order_relation_not_evaluable")
        return
    ctx.count("order_relation_checks")
    m = [[(bool(p.value[0].value), bool(p.value[1].value)) for p in row.value] for row in o.value.value]
    n_ = len(elems)
    if len(m) != n_:
        ctx.count("order_relation_not_evaluable")
        return
    bad = None
    for i_ in range(n_):
        for j_ in range(n_):
            lt, eq = m[i_][j_]
            if lt and (eq or m[j_][i_][0]):
                bad = "%s < %s together with %s" % (elems[i_], elems[j_], "==" if eq else "the reverse")
            if i_ != j_ and not eq and not lt and not m[j_][i_][0]:
                bad = "%s and %s are neither equal nor ordered" % (elems[i_], elems[j_])
            if lt:
                for k_ in range(n_):
                    if m[j_][k_][0] and not m[i_][k_][0]:
                        bad = "%s < %s < %s but not %s < %s" % (elems[i_], elems[j_], elems[k_], elems[i_], elems[k_])
    ctx.count("order_relation_triples", n_ ** 3)
    if bad:
        ctx.violation("C12:no-sorted-order:%s" % label, "the elements of %s have no sorted order: %s" % (S[:300], bad), {"src": S})


def run_shard(spec, ctx):
    kind = spec["kind"]
    r = ctx.rng
    if kind == "hashseed":
        R = Runner()
        outs = []
        for name, src in batch(ctx.seed, spec["rounds"]):
            res = R.run(src)
            outs.append(core.stable_hash(res))
            ctx.case((src, "hashseed", spec["hashseed"]))
            ctx.count("hashseed_runs")
            if res[0] in ("host", "hang", "syntax"):
                ctx.count("programs_not_evaluable")
        ctx.extras["each"] = outs
        ctx.extras["hashseed"] = spec["hashseed"]
        ctx.sample({"hashseed": spec["hashseed"], "programs": len(outs), "example": batch(ctx.seed, 1)[0][1]})
    elif kind == "shuffle":
        ok = shuffle.install()
        ctx.extras["shuffle_installed"] = ok
        R = Runner()
        for i in range(spec["rounds"]):
            col = gen_collections(r, ctx.shard * spec["rounds"] + i)
            ctx.count("pool_kind_" + KIND_CYCLE[(ctx.shard * spec["rounds"] + i) % len(KIND_CYCLE)])
            for name, tmpl in PATHS:
                src = instantiate(tmpl, col)
                shuffle.reseed(0)
                base = R.run(src)
                ctx.count("shuffle_programs")
                if base[0] == "syntax":
                    ctx.count("harness_syntax_errors")
                    ctx.note("template %s does not parse: %s" % (name, src[:200]))
                    continue
                for k in range(1, 20):
                    shuffle.reseed(k)
                    got = R.run(src)
                    ctx.count("shuffle_runs")
                    ctx.case((src, "shuffle", k))
                    if got != base:
                        ctx.violation("C12:iteration-order:" + name,
                                      "%s\n-> %r under one raw iteration order, %r under another" % (src[:600], base[:2], got[:2]), {"src": src})
                        break
        ctx.count("shuffled_set_iterations", shuffle.STATS["set_iters"])
        ctx.count("shuffled_dict_iterations", shuffle.STATS["dict_iters"])
    elif kind == "agree":
        R = Runner()
        for label, pool in sorted(POOLS.items()):
            # (objects of equal content but different member order are equal and yet differ in text: left out here)
            check_total_order(ctx, R, [e for e in pool], "whole-pool:" + label)
        for i in range(spec["rounds"]):
            col = gen_collections(r, ctx.shard * spec["rounds"] + i)
            S = "<< " + ", ".join(col["a"]) + " >>"
            M = "<<< " + ", ".join("%s => %s" % kv for kv in zip(col["keys"], col["vals"])) + " >>>"
            base = R.run("list(%s)" % S)
            two = R.run("sublist(list(%s), 0, 2)" % S)
            ctx.count("agree_collections")
            check_total_order(ctx, R, col["a"], KIND_CYCLE[(ctx.shard * spec["rounds"] + i) % len(KIND_CYCLE)])
            for group, want, forms in (("set", base, AGREE_SET), ("set-prefix", two, AGREE_SET_PREFIX)):
                if want[0] != "value":
                    continue
                for name, tmpl in forms:
                    src = tmpl.replace("{S}", S)
                    got = R.run(src)
                    ctx.count("agree_runs")
                    ctx.case((src, "agree"))
                    if got[:2] != want[:2]:
                        ctx.violation("C12:enumerations-agree:%s:%s" % (group, name), "%s -> %r, but list(..) of the same set is %r" % (src[:500], got[:2], base[:2]), {"src": src})
            kb = R.run("[k for k in keys %s]" % M)
            if kb[0] == "value":
                for name, tmpl in AGREE_KEYS[:-1]:
                    src = tmpl.replace("{M}", M)
                    got = R.run(src)
                    ctx.count("agree_runs")
                    ctx.case((src, "agree"))
                    if got[:2] != kb[:2]:
                        ctx.violation("C12:enumerations-agree:map-keys:%s" % name, "%s -> %r, but the keys comprehension gives %r" % (src[:500], got[:2], kb[:2]), {"src": src})
    else:
        R = Runner()
        for i in range(spec["rounds"]):
            col = gen_collections(r, ctx.shard * spec["rounds"] + i)
            ctx.count("pool_kind_" + KIND_CYCLE[(ctx.shard * spec["rounds"] + i) % len(KIND_CYCLE)])
            for name, tmpl in PATHS:
                base_src = instantiate(tmpl, col)
                base = R.run(base_src)
                for k in range(6):
                    src = instantiate(tmpl, col, r)
                    got = R.run(src)
                    ctx.count("permutation_runs")
                    ctx.case((src, "permute"))
                    if got != base:
                        ctx.violation("C12:construction-order:" + name,
                                      "%s -> %r\nbut with the literals' elements permuted: %s -> %r" % (base_src[:500], base[:2], src[:500], got[:2]),
                                      {"src": base_src, "permuted": src})
                        break


def finalize(merged, tier):
    c = merged["counters"]
    reasons = []
    viol = []
    hs = [(spec, ex) for spec, ex in merged["shard_docs"] if spec.get("kind") == "hashseed" and "each" in ex]
    extra = {"hash_seeds_compared": [ex["hashseed"] for spec, ex in hs]}
    if len(hs) < 2:
        reasons.append("fewer than two hash-seed shards reported")
    else:
        ref = hs[0][1]["each"]
        progs = batch(merged["seed"], hs[0][0]["rounds"])
        for spec, ex in hs[1:]:
            if ex["each"] != ref:
                idx = next((i for i, (a, b) in enumerate(zip(ref, ex["each"])) if a != b), -1)
                name, src = progs[idx] if 0 <= idx < len(progs) else ("?", "?")
                viol.append(("C12:hash-seed:" + name,
                             "%s gives different output under PYTHONHASHSEED=%s and =%s" % (src[:600], hs[0][1]["hashseed"], ex["hashseed"]),
                             {"src": src}))
    for k in ("hashseed_runs", "shuffle_runs", "permutation_runs", "shuffled_set_iterations", "shuffled_dict_iterations", "agree_runs", "order_relation_checks"):
        if c.get(k, 0) == 0:
            reasons.append("monitor counter %s is zero" % k)
    if c.get("harness_syntax_errors", 0):
        reasons.append("%d templates did not parse" % c["harness_syntax_errors"])
    if not all(ex.get("shuffle_installed", True) for spec, ex in merged["shard_docs"]):
        reasons.append("iteration-order perturbation could not be installed")
    extra["enumeration_paths"] = len(PATHS)
    return extra, reasons, viol
