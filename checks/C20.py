"""C20 — reported source lines are the lines where the reported construct starts.

Deciding monitor: the layout renderer's own placement record (which line each
token was put on) against Token.pos of the real scanner and against the
positions carried by syntax errors, runtime errors and stack-trace entries of
programs with exactly one planted fault; module faults; CLI `(Line ...)`."""
import os
import re
import subprocess
import sys

from cklmon import core
from cklmon.core import observe
from cklgen import syntax, layout

RULE = ("(1) token streams (grammar-derived programs and every token kind x following-character kind) rendered in "
        "random / LF / CRLF / tab / comment-after-every-token layouts, every token's pos.line and pos.filename "
        "compared with the renderer's record; (2) programs with one planted fault (undefined name, type error, "
        "explicit error, division by zero three calls deep, five syntax faults) whose own construct is kept on one "
        "line while everything else is laid out randomly; (3) the same faults inside user modules; (4) CLI output; "
        "a case is one rendered text; non-trivial = text spans > 1 line; distinct by text")
ASSUMPTIONS = ["columns are not claimed", "messages are not compared",
               "the faulty construct itself is kept on one line so that 'the line where it starts' is unambiguous"]
FNAME = "c20.ckl"
SHARD_TIMEOUT = {"quick": 300, "thorough": 3000}


def plan(tier, seed):
    n = 8 if tier == "quick" else 32
    return ([{"kind": "tokens", "n": 250 if tier == "quick" else 2500} for _ in range(n)]
            + [{"kind": "follow"}]
            + [{"kind": "faults", "n": 500 if tier == "quick" else 5000, "long_lines": i_ == 0} for i_ in range(n)]
            + [{"kind": "modules", "n": 60 if tier == "quick" else 500} for _ in range(2 if tier == "quick" else 8)]
            + [{"kind": "cli", "n": 6 if tier == "quick" else 30}])


def tok_kind(t):
    if t in syntax.KEYWORDS:
        return "keyword"
    if t in syntax.OPERATORS:
        return "operator"
    if t in syntax.INTERPUNCTION:
        return "interpunction"
    if t[:1] in "'\"":
        return "string-multiline" if "\n" in t else "string"
    if t.startswith("//"):
        return "pattern"
    if t in ("TRUE", "FALSE"):
        return "boolean"
    if t[:1].isdigit():
        return "decimal" if "." in t else "int"
    return "identifier"


def follow_kind(text, end):
    nxt = text[end:end + 2]
    if nxt == "":
        return "eof"
    if nxt.startswith("\r\n"):
        return "crlf"
    c = nxt[0]
    if c == "\n":
        return "lf"
    if c in " \t":
        return "blank"
    if c == "#":
        return "comment"
    if c in "()[],;":
        return "bracket"
    return "other"


def check_tokens(ctx, toks, text, lines, offsets=None):
    import ckl.lexer
    o = observe(lambda: ckl.lexer.Lexer(text, FNAME).scan(), 200000 + 3000 * len(text))
    ctx.case(text, nontrivial="\n" in text)
    if o.kind != "value":
        ctx.count("lexer_rejected")
        return
    got = o.value.tokens
    if len(got) != len(toks):
        ctx.count("token_streams_misaligned")
        return
    ctx.count("token_streams")
    # find end offsets of tokens for the following-character classification
    if offsets is not None:
        offs = [o_ + len(t) for o_, t in zip(offsets, toks)]
    else:
        offs = []
        p = 0
        for t in toks:
            i = text.find(t, p)
            offs.append(i + len(t))
            p = i + len(t)
    for t, g, ln, end in zip(toks, got, lines, offs):
        ctx.count("token_positions")
        k = tok_kind(t)
        if getattr(g.pos, "filename", None) != FNAME:
            ctx.violation("C20:token-filename:" + k, "token %r carries file name %r" % (t, g.pos.filename), {"text": text})
        if g.pos.line != ln:
            ctx.violation("C20:token-line:%s:%s" % (k, follow_kind(text, end)),
                          "token %r starts on line %d but is stamped line %r in %r" % (t, ln, g.pos.line, text[:200]), {"text": text})
            return


FOLLOW = [" ", "\t", "\n", "\r\n", " # c\n", "# c\r\n", "(", ")", ",", ";", "+", "=", ""]
KIND_SAMPLES = ["x", "longident", "a...", "if", "end", "+", "<=", "!>", "->", "(", "]", "<<", ">>>", "<*", "=>", "...",
                "1", "12_000", "0x1F", "0b101", "1.5", "'s'", "\"d\"", "''", "'multi\nline'", "\"two\r\nlines\"", "//a+//",
                "//x\ny//", "TRUE", "FALSE", "%=", "/", "/=", "*>", "<>", "!=", "==",
                # number-like words in every spelling a scanner might one day take for a number
                "1e3", "2.5E-3", "1.5e+10", "1.0e5", "7E2", "1_0.5_0", "0xFF_FF", "0b1_0", "1__0", "10_", "1.5e", "0x", "3.", "1.2.3", "1e+", "12abc"]


def run_follow(ctx):
    """every token kind x every following-character kind, on lines 1..3"""
    word_like = ("identifier", "int", "decimal", "string", "string-multiline", "pattern", "boolean", "keyword")
    for lead in ("", "\n", "# c\n\n"):
        base = 1 + lead.count("\n")
        for t in KIND_SAMPLES:
            for f in FOLLOW:
                if f == "":
                    text, toks, lines = lead + t, [t], [base]
                elif f.strip() == "" or f.strip().startswith("#"):
                    text, toks = lead + t + f + "z", [t, "z"]
                    lines = [base, base + t.count("\n") + f.count("\n")]
                else:
                    ok = layout.can_glue(t, f) or (f in "+=" and tok_kind(t) in word_like)
                    if not ok:
                        continue
                    ln = base + t.count("\n")
                    text, toks, lines = lead + t + f + " z", [t, f, "z"], [base, ln, ln]
                check_tokens(ctx, toks, text, lines)
    ctx.extras["follow_done"] = True


# ---------------------------------------------------------------------------
# planted faults
# ---------------------------------------------------------------------------
FILLERS = [
    ["def", "v1", "=", "1", "+", "2"], ["[", "1", ",", "2", ",", "3", "]"], ["if", "TRUE", "then", "1", "else", "2"],
    ["do", "1", ";", "2", ";", "end"], ["for", "i", "in", "[", "1", ",", "2", "]", "do", "i", "end"],
    ["def", "g", "(", "a", ",", "b", "=", "2", ")", "a", "+", "b"], ["'a string'"], ["<<", "1", ",", "2", ">>"],
    ["<<<", "'k'", "=>", "1", ">>>"], ["def", "s", "=", "'multi\nline'"], ["[", "x", "*", "2", "for", "x", "in", "[", "1", "]", "]"],
    ["while", "FALSE", "do", "1", "end"], ["fn", "(", "x", ")", "x"], ["1", "<", "2", "<", "3"], ["not", "FALSE"],
    ["do", "1", "catch", "all", "2", "finally", "3", "end"], ["def", "[", "p", ",", "q", "]", "=", "[", "1", ",", "2", "]"],
]


def build_program(r, fault_tokens, wrap=None, pre_defs=None, fault_together=True):
    """returns (tokens, keep_together, index of first fault token)"""
    toks = []
    keep = set()

    def add_stmt(st, together=False):
        start = len(toks)
        toks.extend(st)
        if together:
            for i in range(start, len(toks) - 1):
                keep.add(i)
        toks.append(";")
        return start
    for d in (pre_defs or []):
        add_stmt(d, together=True)
    for _ in range(r.randint(0, 4)):
        add_stmt(r.choice(FILLERS))
    if wrap == "block":
        toks.extend(["do"])
        for _ in range(r.randint(0, 2)):
            add_stmt(r.choice(FILLERS))
        fi = add_stmt(fault_tokens, together=fault_together)
        toks.extend(["end", ";"])
    elif wrap == "loop":
        toks.extend(["for", "k", "in", "[", "1", "]", "do"])
        fi = add_stmt(fault_tokens, together=True)
        toks.extend(["end", ";"])
    elif wrap == "if":
        toks.extend(["if", "TRUE", "then", "do"])
        fi = add_stmt(fault_tokens, together=True)
        toks.extend(["end", ";"])
    elif wrap == "lambda":
        toks.extend(["(", "fn", "(", ")", "do"])
        fi = add_stmt(fault_tokens, together=True)
        toks.extend(["end", ")", "(", ")", ";"])
    else:
        fi = add_stmt(fault_tokens, together=fault_together)
    for _ in range(r.randint(0, 3)):
        add_stmt(r.choice(FILLERS))
    if r.random() < 0.5:
        toks.pop()      # optional trailing semicolon
    return toks, keep, fi


# faults spread over several lines: the reported line is that of the offending token (index given), i.e. the operator
# whose application fails / the opening parenthesis of the failing call
SPREAD_FAULTS = [
    ("chain-sub", ["10", "-", "7", "-", "'x'"], 3), ("chain-add-sub", ["1", "+", "2", "-", "TRUE"], 3),
    ("chain-mul", ["2", "*", "3", "*", "'x'", "*", "4"], 3), ("chain-div-mod", ["8", "/", "2", "%", "0"], 3),
    ("chain-mixed", ["1", "+", "2", "*", "TRUE"], 3), ("chain-first", ["TRUE", "-", "1", "-", "2"], 1),
    ("chain-compare", ["1", "+", "1", "<", "2", "+", "NULL", "<", "'a'", "-", "1"], 9),
    ("call-args", ["length", "(", "1", ")"], 1),
    ("pipe-call", ["5", "!>", "length", "(", ")"], 2), ("pipe-call-named", ["5", "!>", "substr", "(", "startidx", "=", "1", ",", "endidx", "=", "2", ")"], 2),
    ("pipe-chain", ["[", "1", "]", "!>", "reverse_list", "(", ")", "!>", "substr", "(", "0", ")"], 8),
    ("method-call", ["<*", "a", "=", "1", "*>", "->", "nomethod", "(", "1", ",", "2", ")"], 5), ("nested-call", ["string", "(", "length", "(", "5", ")", ")"], 3),
    ("index-chain", ["[", "[", "1", "]", "]", "[", "0", "]", "[", "5", "]"], 8),
]

RUNTIME_FAULTS = [
    ("undefined-name", ["nosuchname"]),
    ("type-error", ["1", "+", "TRUE"]),
    ("explicit-error", ["error", "'boom'"]),
    ("index-out-of-bounds", ["[", "1", "]", "[", "5", "]"]),
    ("not-a-function", ["v0", "(", "1", ")"]),
    ("missing-argument", ["length", "(", ")"]),
    ("non-boolean-condition", ["if", "1", "then", "2"]),
    ("assign-undefined", ["nosuch", "=", "1"]),
    ("member-missing", ["<*", "a", "=", "1", "*>", "->", "nomethod", "(", ")"]),
]


def trace_lines(e):
    out = []
    for st in getattr(e, "stacktrace", []):
        m = re.search(r" ([^ ]*):(\d+):(-?\d+)$", str(st))
        out.append((m.group(1), int(m.group(2))) if m else (None, None))
    return out


def interpret_again(ctx, it, r, text, want_pos, want_trace, name):
    """the same program text once more on the same interpreter, under another file name and/or moved down by blank
    lines: positions are those of this text in this file, not of an earlier reading"""
    import ckl.functions
    k = r.choice([0, 0, 1, 2, 5])
    fname2 = r.choice([FNAME, "second.ckl", "dir/third.ckl"])
    if k == 0 and fname2 == FNAME:
        fname2 = "second.ckl"
    text2 = r.choice(["\n", "\r\n", " \n"]) * k + text + r.choice(["", "\n", "  "])
    env = ckl.functions.Environment()
    o = observe(lambda: it.interpret(text2, fname2, env), 500000)
    ctx.count("reinterpretations")
    ctx.case(("again", k, fname2, text), nontrivial=True)
    if o.kind != "rte":
        ctx.violation("C20:again:fault-not-raised:" + name, "%r (second reading) -> %s" % (text2[:300], o.kind), {"text": text2})
        return
    pos = o.exc.pos
    if pos is None or getattr(pos, "filename", None) != fname2:
        ctx.violation("C20:again:runtime-error-filename", "the text was read before as %s and now as %s: error position is %s" % (FNAME, fname2, pos), {"text": text2})
    elif pos.line != want_pos + k:
        ctx.violation("C20:again:runtime-error-line", "second reading moved down by %d lines: fault on line %d reported on line %r in %r" % (
            k, want_pos + k, pos.line, text2[:300]), {"text": text2})
    if want_trace is not None:
        tl = trace_lines(o.exc)
        if [ln for fn, ln in tl] != [w + k for w in want_trace]:
            ctx.violation("C20:again:stacktrace-lines", "second reading moved down by %d lines: call lines %r, stack trace says %r" % (
                k, [w + k for w in want_trace], tl), {"text": text2})
        elif any(fn != fname2 for fn, ln in tl):
            ctx.violation("C20:again:stacktrace-filename", "second reading as %s: stack trace names %r" % (fname2, tl), {"text": text2})


# (program text, line of the reported error, lines of the stack-trace entries innermost first)
FIXED_POSITIONS = [
    # an error raised by a handler is a new error: it is reported where it arises, not where the handled one arose
    ("do\n  [1][5]\ncatch all\n  [2][7]\nend", 4, []),
    ("do\n  error 'E'\ncatch 'E'\n  error 'E'\nend", 4, []),
    ("do\n  error 'A'\ncatch 'B' 0\ncatch 'A'\n\n  error 'A'\nend", 6, []),
    ("def work(x)\n  [x][3];\ndef tidy()\n  sublist([1], 'a', 'b');\ndo\n  work(1)\ncatch all\n  tidy()\nend", 4, [4, 8]),
    ("def work(x)\n  1 / x;\ndef tidy(y)\n\n  2 / y;\ndo\n  work(0)\ncatch 'ERROR'\n  tidy(0)\nend", 5, [5, 9]),
    ("do\n  1 / 0\nfinally\n\n  [1][9]\nend", 5, []),
    # every stack-trace entry carries its position, however much text its arguments make
    ("def render(a, b, c)\n  1 / 0;\n\nrender('%s', '%s',\n  '%s')" % ("x" * 70, "y" * 70, "z" * 70), 2, [2, 4]),
    ("def connect(a, b, c, d, e, f, g, h, i, j, k, l, m)\n  [a][b];\n\n\nconnect(1, 2, 3, 4, 5, 6, 7, 8, 9, 10, 11, 12, 13)", 2, [5]),
    ("def outer(t)\n  inner(t, t, t);\ndef inner(p, q, r_)\n  nosuch;\nouter([%s])" % ", ".join("'%s'" % ("w" * 9) for _ in range(30)), 4, [2, 5]),
    ("def f(m)\n  m['zz'];\nf(<<<%s>>>)" % ", ".join("'k%d' => '%s'" % (i, "v" * 12) for i in range(20)), 2, [3]),
]


def run_fixed_positions(ctx, it):
    import ckl.functions
    for text, want_line, want_trace in FIXED_POSITIONS:
        o = observe(lambda: it.interpret(text, FNAME, ckl.functions.Environment()), 500000)
        ctx.count("fixed_position_programs")
        ctx.case(("fixed-position", text), nontrivial=True)
        if o.kind != "rte":
            ctx.violation("C20:fixed:fault-not-raised", "%r -> %s %s" % (text[:200], o.kind, core.safe_str(o.exc, 100)), {"text": text})
            continue
        pos = o.exc.pos
        if pos is None or getattr(pos, "filename", None) != FNAME or pos.line != want_line:
            ctx.violation("C20:fixed:error-line", "%r: the failing construct starts on line %d, reported %s" % (text[:300], want_line, pos), {"text": text})
        tl = trace_lines(o.exc)
        if any(fn is None for fn, ln in tl):
            ctx.violation("C20:fixed:stacktrace-entry-without-position", "%r: stack trace %r" % (text[:200], [str(x)[-60:] for x in o.exc.stacktrace]), {"text": text})
        elif want_trace and [ln for fn, ln in tl] != want_trace:
            ctx.violation("C20:fixed:stacktrace-lines", "%r: calls on lines %r, stack trace says %r" % (text[:300], want_trace, tl), {"text": text})


def run_long_lines(ctx, it, r):
    """a fault that begins far to the right (columns beyond 2^16 and 2^17) on a very long line: still that line"""
    import ckl.functions
    import ckl.parser
    for cols in (66000, 140000):
        filler = "def big = [" + "1, " * (cols // 3) + "1]; "
        for name, ft in (("type-error", "1 + TRUE"), ("undefined-name", "nosuchname"), ("call", "def f(x) 1 / x; f(0)")):
            pre = r.randint(0, 3)
            text = "\n" * pre + "def v0 = 0;\n" + filler + ft + ";\n" + "v0\n"
            want = pre + 2
            env = ckl.functions.Environment()
            o = observe(lambda: it.interpret(text, FNAME, env), 40000000)
            ctx.count("long_line_programs")
            ctx.case(("long-line", cols, name, pre), nontrivial=True)
            if o.kind != "rte":
                ctx.violation("C20:long-line:fault-not-raised", "%d columns, %s -> %s %s" % (cols, name, o.kind, core.safe_str(o.exc, 100)), {"cols": cols})
                continue
            lines_seen = [o.exc.pos.line if o.exc.pos is not None else None] + [ln for fn, ln in trace_lines(o.exc)]
            if any(ln != want for ln in lines_seen):
                ctx.violation("C20:long-line:%s" % name, "a fault at column > %d of line %d is reported on lines %r" % (cols, want, lines_seen), {"cols": cols})
        text = "def v0 = 0;\n" + filler + "def = \n"
        o = observe(lambda: ckl.parser.parse_script(text, FNAME), 40000000)
        ctx.count("long_line_programs")
        if o.kind != "syntax" or o.exc.pos is None or o.exc.pos.line not in (2, 3):
            ctx.violation("C20:long-line:syntax", "syntax error at column > %d of line 2 -> %s at %r" % (cols, o.kind, getattr(o.exc, "pos", None)), {"cols": cols})


def run_faults(spec, ctx):
    import ckl.functions
    r = ctx.rng
    it, out = core.new_interpreter(secure=True, legacy=True)
    if spec.get("long_lines"):
        run_long_lines(ctx, it, r)
        run_fixed_positions(ctx, it)
    modes = ["random", "random", "random", "lf", "crlf", "comments", "tabs"]
    for i in range(spec["n"]):
        mode = r.choice(modes)
        kind = i % 3
        if kind == 0:
            off = 0
            if i % 2 == 0:
                name, ft = r.choice(RUNTIME_FAULTS)
                spread = False
            else:
                name, ft, off = r.choice(SPREAD_FAULTS)
                spread = True
            wrap = r.choice([None, None, "block", "loop", "if", "lambda"])
            toks, keep, fi = build_program(r, ft, wrap, pre_defs=[["def", "v0", "=", "0"]], fault_together=not spread)
            text, lines = layout.render(toks, r, mode, keep_together=keep)
            want = lines[fi + off]
            ctx.case(text, nontrivial="\n" in text)
            env = ckl.functions.Environment()
            o = observe(lambda: it.interpret(text, FNAME, env), 500000)
            ctx.count("runtime_fault_programs")
            if o.kind != "rte":
                ctx.violation("C20:runtime-fault-not-raised:" + name, "%r -> %s %s" % (text[:300], o.kind, core.safe_str(o.exc if o.exc else o.value, 100)), {"text": text})
                continue
            pos = o.exc.pos
            if pos is None or getattr(pos, "filename", None) != FNAME:
                ctx.violation("C20:runtime-error-filename:" + name, "error position is %r" % (pos,), {"text": text})
            elif pos.line != want:
                ctx.violation("C20:runtime-error-line:%s" % name, "fault on line %d reported on line %r in %r" % (want, pos.line, text[:300]), {"text": text})
            elif r.random() < 0.5:
                interpret_again(ctx, it, r, text, want, None, name)
        elif kind == 1:
            # division by zero three calls deep; each function body and each call on a known line
            defs = [["def", "f2", "(", "x", ")", "1", "/", "x"], ["def", "f1", "(", "x", ")", "f2", "(", "x", ")"]]
            r.shuffle(defs)
            toks, keep, fi = build_program(r, ["f1", "(", "0", ")"], r.choice([None, "block", "loop"]), pre_defs=defs)
            text, lines = layout.render(toks, r, mode, keep_together=keep)
            ctx.case(text, nontrivial="\n" in text)
            # locate lines: body of f2 ('/' token), call of f2 inside f1, call of f1
            idx_div = next(k for k, t in enumerate(toks) if t == "/")
            idx_f2call = next(k for k, t in enumerate(toks) if t == "f2" and toks[k - 1] == ")")
            want = [lines[idx_div], lines[idx_f2call], lines[fi]]
            env = ckl.functions.Environment()
            o = observe(lambda: it.interpret(text, FNAME, env), 500000)
            ctx.count("nested_call_programs")
            if o.kind != "rte":
                ctx.violation("C20:nested-fault-not-raised", "%r -> %s" % (text[:300], o.kind), {"text": text})
                continue
            if o.exc.pos is None or o.exc.pos.line != want[0] or o.exc.pos.filename != FNAME:
                ctx.violation("C20:runtime-error-line:nested-division", "fault on line %d reported at %r in %r" % (want[0], o.exc.pos, text[:300]), {"text": text})
            tl = trace_lines(o.exc)
            got = [ln for fn, ln in tl]
            files = [fn for fn, ln in tl]
            if got != want:
                ctx.violation("C20:stacktrace-lines", "call lines %r, stack trace says %r in %r" % (want, got, text[:300]), {"text": text})
            elif any(f != FNAME for f in files):
                ctx.violation("C20:stacktrace-filename", "stack trace names files %r" % (files,), {"text": text})
            elif r.random() < 0.5:
                interpret_again(ctx, it, r, text, want[0], want, "nested-division")
        else:
            sname, mk = r.choice(SYNTAX_FAULTS)
            ft, off = mk()
            toks, keep, fi = build_program(r, ft, None)
            if sname in ("unterminated-list", "dangling-operator"):
                toks = toks[:fi + len(ft)]       # the fault ends the input
            text, lines = layout.render(toks, r, mode, keep_together=keep, trail=sname not in ("unterminated-list", "dangling-operator") or r.random() < 0.5)
            want = lines[fi + off]
            ctx.case(text, nontrivial="\n" in text)
            import ckl.parser
            o = observe(lambda: ckl.parser.parse_script(text, FNAME), 200000 + 3000 * len(text))
            ctx.count("syntax_fault_programs")
            if o.kind != "syntax":
                ctx.violation("C20:syntax-fault-not-raised:" + sname, "%r -> %s" % (text[:300], o.kind), {"text": text})
                continue
            pos = o.exc.pos
            if pos is None or getattr(pos, "filename", None) != FNAME:
                ctx.violation("C20:syntax-error-filename:" + sname, "position %r" % (pos,), {"text": text})
            elif pos.line != want:
                ctx.violation("C20:syntax-error-line:" + sname, "offending token on line %d, reported line %r in %r" % (want, pos.line, text[:300]), {"text": text})
        ctx.sample_maybe({"text": text[:300]}, 0.004)


SYNTAX_FAULTS = [
    ("stray-paren", lambda: ([")", "1"], 0)),
    ("def-non-identifier", lambda: (["def", "5", "=", "1"], 1)),
    ("missing-then", lambda: (["if", "TRUE", "5"], 2)),
    ("unterminated-list", lambda: (["[", "1", ",", "2"], 3)),
    ("dangling-operator", lambda: (["1", "+"], 1)),
    ("redefine-keyword", lambda: (["def", "while", "=", "1"], 1)),
    ("rest-not-last", lambda: (["fn", "(", "a...", ",", "b", ")", "1"], 2)),
]


def run_modules(spec, ctx):
    import ckl.functions
    import ckl.values as V
    r = ctx.rng
    moddir = os.path.join(os.getcwd(), "mods")
    os.makedirs(moddir, exist_ok=True)
    for i in range(spec["n"]):
        it, out = core.new_interpreter(secure=True, legacy=True)
        mp = V.ValueList()
        mp.addItem(V.ValueString(moddir))
        it.base_environment.put("checkerlang_module_path", mp)
        # (names ending in letters of the file suffix, in digits, in an underscore; one of a single letter)
        name = "m%dx%d%s" % (ctx.shard, i, ["", "util", "stack", "deck", "ckl", "_", "lc", "k", "Mock", "cell"][(i // 3) % 10])
        mode = r.choice(["random", "lf", "crlf", "comments"])
        variant = i % 3
        # (the module is named after its file, whatever name the requirer binds it to)
        alias = r.choice([None, None, "al_", "x"])
        req = ["require", name] + (["as", alias] if alias else [])
        bound = alias or name
        if variant == 0:
            # fault at module top level (while loading)
            fname, ft = r.choice(RUNTIME_FAULTS[:3])
            toks, keep, fi = build_program(r, ft, None)
            mtext, mlines = layout.render(toks, r, mode, keep_together=keep)
            main_toks, mkeep, mfi = build_program(r, req, None)
        elif variant == 1:
            # fault inside a module function called from the main program
            body = [["def", "boom", "(", "x", ")", "1", "/", "x"]]
            toks, keep, fi = build_program(r, ["def", "ok", "=", "1"], None, pre_defs=body)
            mtext, mlines = layout.render(toks, r, mode, keep_together=keep)
            fi = next(k for k, t in enumerate(toks) if t == "/")
            main_toks, mkeep, mfi = build_program(r, [bound, "->", "boom", "(", "0", ")"], None, pre_defs=[req])
        else:
            # syntax fault inside the module
            sname, mk = r.choice(SYNTAX_FAULTS[:3])
            ft, off = mk()
            toks, keep, fi = build_program(r, ft, None)
            mtext, mlines = layout.render(toks, r, mode, keep_together=keep)
            fi = fi + off
            main_toks, mkeep, mfi = build_program(r, req, None)
        with open(os.path.join(moddir, name + ".ckl"), "w", newline="") as f:
            f.write(mtext)
        text, lines = layout.render(main_toks, r, r.choice(["random", "lf"]), keep_together=mkeep)
        env = ckl.functions.Environment()
        o = observe(lambda: it.interpret(text, FNAME, env), 800000)
        ctx.count("module_programs")
        ctx.case((text, mtext), nontrivial=True)
        want_file = "mod:" + name
        want_line = mlines[fi]
        if variant == 2:
            if o.kind != "syntax":
                ctx.violation("C20:module-syntax-fault-not-raised", "%r / module %r -> %s %s" % (text[:200], mtext[:200], o.kind, core.safe_str(o.exc, 80)), {"text": text, "module": mtext})
                continue
        elif o.kind != "rte":
            ctx.violation("C20:module-fault-not-raised", "%r / module %r -> %s %s" % (text[:200], mtext[:200], o.kind, core.safe_str(o.exc, 80)), {"text": text, "module": mtext})
            continue
        pos = o.exc.pos
        if pos is None or pos.filename != want_file:
            ctx.violation("C20:module-error-filename:%d" % variant, "expected file %s, error position is %r" % (want_file, pos), {"text": text, "module": mtext})
        elif pos.line != want_line:
            ctx.violation("C20:module-error-line:%d" % variant, "fault on module line %d reported on line %r; module %r" % (want_line, pos.line, mtext[:300]), {"text": text, "module": mtext})
        if variant == 1:
            tl = trace_lines(o.exc)
            if len(tl) < 2 or tl[-1] != (FNAME, lines[mfi]):
                ctx.violation("C20:module-call-stacktrace", "call on main line %d, stack trace %r" % (lines[mfi], tl), {"text": text, "module": mtext})


def run_cli(spec, ctx):
    r = ctx.rng
    for i in range(spec["n"]):
        name, ft = RUNTIME_FAULTS[i % 4]
        toks, keep, fi = build_program(r, ft, None, pre_defs=[["def", "v0", "=", "0"]])
        text, lines = layout.render(toks, r, r.choice(["random", "lf", "crlf"]), keep_together=keep)
        path = os.path.join(os.getcwd(), "cli%d.ckl" % i)
        with open(path, "w", newline="") as f:
            f.write(text)
        p = subprocess.run([sys.executable, "-B", "-m", "ckl.run", path], capture_output=True, text=True, timeout=60)
        ctx.count("cli_runs")
        ctx.case(("cli", text))
        m = re.search(r"\(Line (.*):(\d+):(-?\d+)\)", p.stdout)
        if not m:
            ctx.violation("C20:cli-no-line", "output %r for %r" % (p.stdout[:200] + p.stderr[-200:], text[:200]), {"text": text})
        elif m.group(1) != path or int(m.group(2)) != lines[fi]:
            ctx.violation("C20:cli-line:" + name, "fault on line %d of %s, CLI printed %r" % (lines[fi], path, m.group(0)), {"text": text})


def run_shard(spec, ctx):
    r = ctx.rng
    kind = spec["kind"]
    if kind == "tokens":
        g = syntax.SyntaxGen(r, max_depth=4)
        for i in range(spec["n"]):
            toks = g.program()
            toks = [t for t in toks if not t.startswith("#")][:160]
            mode = layout.MODES[i % len(layout.MODES)]
            text, lines = layout.render(toks, r, mode)
            check_tokens(ctx, toks, text, lines, list(layout.OFFSETS))
            ctx.sample_maybe({"mode": mode, "text": text[:200]}, 0.01)
    elif kind == "follow":
        run_follow(ctx)
    elif kind == "faults":
        run_faults(spec, ctx)
    elif kind == "modules":
        run_modules(spec, ctx)
    else:
        run_cli(spec, ctx)


def finalize(merged, tier):
    c = merged["counters"]
    reasons = []
    for k in ("token_positions", "runtime_fault_programs", "nested_call_programs", "syntax_fault_programs", "module_programs", "cli_runs", "reinterpretations", "long_line_programs"):
        if c.get(k, 0) == 0:
            reasons.append("monitor counter %s is zero" % k)
    if c.get("token_streams_misaligned", 0) + c.get("lexer_rejected", 0) > 0.2 * max(1, c.get("token_streams", 0)):
        reasons.append("too many token streams could not be aligned with the scanner's tokens")
    if not any(ex.get("follow_done") for spec, ex in merged["shard_docs"]):
        reasons.append("token-kind x follower sweep incomplete")
    return {}, reasons
