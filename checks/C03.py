"""C03 — names resolve lexically and calls bind arguments as declared.

Deciding monitors: reference evaluator (lexical mode) against result + event
log of generated programs; M4 scope-event invariants on every call frame,
assignment and def the programs perform; adequacy measured by wrong-semantics
modes (a program is non-trivial iff some wrong mode changes what it observes)."""
from cklmon import core, differ, envtrace
from cklgen import programs

RULE = ("programs: nested function definitions to 4 levels over a 5-name pool (collisions intended), closures returned "
        "and called after their frame died, mutation after capture, def inside blocks/branches, recursion and forward "
        "references, every call form (positional, named, mixed, defaults depending on earlier parameters and outer names, "
        "rest, list/map spread, pipeline, method calls along _proto_ chains) and every binding error; each program logs "
        "what every scope observes; a case is one program; non-trivial = at least one wrong-semantics mode (dynamic "
        "scoping, assignment creates binding, global def, shared frames, defaults at definition/in caller, positional "
        "before named, rest dropped, spread not expanded, pipeline last, no receiver, no prototype walk) changes its "
        "observable outcome; distinct by program text")
ASSUMPTIONS = [
    "loop variables are not part of this property (bound in the enclosing frame, removed after the loop); generated names never collide with them",
    "a block-level def binds in the function or top-level scope (no block scope), as the statement says",
    "messages are not compared, only result, error value and the event log",
]
MODES = ["dynamic_scope", "assign_creates", "def_global", "shared_param_frame", "defaults_at_def", "defaults_in_caller",
         "positional_first", "rest_dropped", "no_spread", "pipe_last", "no_receiver", "no_proto"]
SHARD_TIMEOUT = {"quick": 300, "thorough": 3000}


def plan(tier, seed):
    n = 12 if tier == "quick" else 48
    return [{"kind": "random", "n": 500 if tier == "quick" else 3200} for _ in range(n)] + [{"kind": "templates"}]


def run_shard(spec, ctx):
    import ckl.functions
    tr = envtrace.TRACE
    tr.install()
    R = differ.RealRunner(secure=True, legacy=True)
    orig_env = R.Env

    def make_env():
        e = orig_env()
        tr.new_program(e)
        return e
    R.Env = make_env
    r = ctx.rng
    if spec["kind"] == "templates":
        for t in programs.SCOPE_TEMPLATES:
            g = programs.Gen(r)
            prog = ("seq", t(g))
            differ.diff_check(ctx, R, prog, "C03", MODES, "template-" + t.__name__[2:])
            ctx.count("templates")
    else:
        for i in range(spec["n"]):
            g = programs.Gen(r)
            prog = g.scoping_program()
            differ.diff_check(ctx, R, prog, "C03", MODES, "scoping")
    tr.drain(ctx, "C03")


def finalize(merged, tier):
    c = merged["counters"]
    reasons = []
    if c.get("harness_syntax_errors", 0):
        reasons.append("%d generated programs did not parse (harness defect)" % c["harness_syntax_errors"])
    for k in ("differential_comparisons", "env_call_frames", "env_assignments", "env_defs", "templates"):
        if c.get(k, 0) == 0:
            reasons.append("monitor counter %s is zero" % k)
    disc = {m: c.get("discriminates_" + m, 0) for m in MODES}
    for m, n in disc.items():
        if n == 0:
            reasons.append("no program discriminates wrong-semantics mode %s" % m)
    hm = [ex.get("hooks_missing") for spec, ex in merged["shard_docs"] if ex.get("hooks_missing")]
    extra = {"wrong_mode_discrimination": disc, "hooks_missing": hm[0] if hm else []}
    return extra, reasons
