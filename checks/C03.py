"""C03 — names resolve lexically and calls bind arguments as declared.

Deciding monitors: reference evaluator (lexical mode) against result + event
log of generated programs; M4 scope-event invariants on every call frame,
assignment and def the programs perform; adequacy measured by wrong-semantics
modes (a program is non-trivial iff some wrong mode changes what it observes)."""
from cklmon import core, differ, envtrace
from cklgen import programs

RULE = ("programs: nested function definitions to 4 levels over a 5-name pool (collisions intended), closures returned "
        "and called after their frame died, mutation after capture, def inside blocks/branches, recursion and forward "
        "references, every call form (positional, named, mixed, defaults depending on earlier parameters and outer names, "
        "rest, list/map spread, pipeline, method calls along _proto_ chains) and every binding error; each program logs "
        "what every scope observes; a case is one program; non-trivial = at least one wrong-semantics mode (dynamic "
        "scoping, assignment creates binding, global def, shared frames, defaults at definition/in caller, positional "
        "before named, rest dropped, spread not expanded, pipeline last, no receiver, no prototype walk) changes its "
        "observable outcome; distinct by program text")
ASSUMPTIONS = [
    "loop variables are not part of this property (bound in the enclosing frame, removed after the loop); generated names never collide with them",
    "a block-level def binds in the function or top-level scope (no block scope), as the statement says",
    "messages are not compared, only result, error value and the event log",
]
MODES = ["dynamic_scope", "assign_creates", "def_global", "shared_param_frame", "defaults_at_def", "defaults_in_caller",
         "positional_first", "rest_dropped", "no_spread", "pipe_last", "no_receiver", "no_proto"]
SHARD_TIMEOUT = {"quick": 300, "thorough": 3000}


def plan(tier, seed):
    n = 12 if tier == "quick" else 48
    return ([{"kind": "random", "n": 500 if tier == "quick" else 3200} for _ in range(n)] + [{"kind": "templates"}]
            + [{"kind": "modscope", "n": 60 if tier == "quick" else 400} for _ in range(2 if tier == "quick" else 8)])


MOD_CALLS = [
    ("List", "List->rest([1, 2, 3])"), ("List", "List->reverse([1, 2, 3])"), ("List", "List->flatten([[1], [2, [3]]])"),
    ("List", "List->unique([1, 2, 1, 3])"), ("List", "List->first_n([1, 2, 3], 2)"), ("List", "List->last_n([1, 2, 3], 2)"),
    ("List", "List->map_list([1, 2], fn(v) v * 2)"), ("List", "List->filter([1, 2, 3], fn(v) v > 1)"),
    ("List", "List->reduce([1, 2, 3], fn(p, q) p + q)"), ("List", "List->prod([1, 2, 3])"), ("List", "List->grep(['ab', 'cd'], //a//)"),
    ("List", "List->grouped([1, 2, 3, 4])"), ("List", "List->permutations([1, 2, 3])"), ("List", "List->contains([1, 2], 2)"),
    ("List", "List->find_last([1, 2, 1], 1)"), ("List", "List->first([1, 2])"), ("List", "List->last([1, 2])"),
    ("Stat", "Stat->geometric_mean([1, 4])"), ("Stat", "Stat->harmonic_mean([1, 4])"), ("Bitwise", "Bitwise->bit_rotate_left_32(1, 3)"),
    ("Random", "do Random->set_seed(5); Random->choice([1, 2, 3]) end"), ("Random", "do Random->set_seed(7); Random->sample([1, 2, 3, 4], 2) end"),
    # a user module found through the module path (written by the shard)
    ("umod", "umod->probe()"), ("umod", "umod->uselen([1, 2, 3])"), ("umod", "umod->twice(4)"), ("umod", "umod->probe2()"),
    ("Set", "Set->union(<<1, 2>>, <<2, 3>>)"), ("Set", "Set->intersection(<<1, 2>>, <<2, 3>>)"), ("Set", "Set->diff(<<1, 2>>, <<2, 3>>)"),
    ("Set", "Set->symmetric_diff(<<1, 2>>, <<2, 3>>)"), ("Stat", "Stat->mean([1, 2, 6])"), ("Stat", "Stat->median([3, 1, 2])"),
    ("Stat", "Stat->median_low([3, 1, 2, 4])"), ("Stat", "Stat->median_high([3, 1, 2, 4])"), ("Bitwise", "Bitwise->bit_and(6, 3)"),
]
UMOD_SRC = ("def probe() do shadow_me catch all 'undefined' end;\ndef probe2() do [shadow_me, lst, result] catch all 'undefined' end;\n"
            "def uselen(x) length(x);\ndef twice(x) x * 2;\ndef _private_helper() 1;\n")
SHADOW_EXTRA = ["shadow_me", "x", "lst", "result", "i", "n", "acc", "a", "b", "l", "s", "fn_", "item", "idx", "value", "key", "list", "obj", "count", "size", "seta", "setb"]


def run_modscope(spec, ctx):
    """a module function's free names resolve in the module (and the base environment), never in the scope that
    happened to require the module first: whatever the requirer defines, or whatever function parameters and
    locals are in scope where the require runs, module functions return what they return without them.
    Non-legacy interpreters (modules are loaded on demand there); one fresh interpreter per program."""
    import ckl.functions
    r = ctx.rng
    import os
    import ckl.values as V
    moddir = os.path.join(os.getcwd(), "c03mods")
    os.makedirs(moddir, exist_ok=True)
    with open(os.path.join(moddir, "umod.ckl"), "w") as f:
        f.write(UMOD_SRC)
    base_it, _ = core.new_interpreter(secure=True, legacy=False)
    # (not the functions the operators of the requirer's own lambdas stand for: shadowing `greater` changes `v > 1`
    #  in the requirer's code, rightly)
    operator_fns = {"add", "sub", "mul", "div", "mod", "greater", "less", "equals", "not_equals", "greater_equals", "less_equals",
                    "is_not_null", "is_null", "identity"}
    names = sorted(n for n in base_it.base_environment.getSymbols() if n.isidentifier() and not n.startswith("checkerlang")
                   and n == n.lower() and n not in operator_fns)
    names = names + [n for n in SHADOW_EXTRA if n not in names]
    for _ in range(spec["n"]):
        mod, call = r.choice(MOD_CALLS)
        calls = [call] + [c for m, c in r.sample(MOD_CALLS, 3) if m == mod and c != call]
        body = "[%s]" % ", ".join(calls)
        outs = []
        shadows = r.sample(names, r.randint(3, 12))
        if mod == "umod" and "shadow_me" not in shadows:
            shadows.append("shadow_me")
        sh_defs = "; ".join((("def %s = 'mine'" % n) if r.random() < 0.4 else ("def %s(p_...) 'mine'" % n)) for n in shadows)
        params = ", ".join(r.sample([n for n in names if n not in ("fn_",)], r.randint(1, 4)))
        variants = [("plain", "require %s; %s" % (mod, body)),
                    ("requirer-top-level", "%s; require %s; %s" % (sh_defs, mod, body)),
                    ("requirer-defines-later", "require %s; %s; %s" % (mod, sh_defs, body)),
                    ("require-inside-function", "def loader_(%s) do require %s; %s end; loader_(%s)" % (
                        params, mod, body, ", ".join("'mine'" for _ in params.split(", ")))),
                    ("require-inside-function-with-locals", "def loader_() do %s; require %s; %s end; loader_()" % (sh_defs, mod, body))]
        path_in_session = r.random() < 0.5
        own_env = r.random() < 0.5      # run in an environment of the host's own, or directly in the session scope (as the CLI does)
        for tag, src in variants:
            it, out = core.new_interpreter(secure=True, legacy=False)
            env = ckl.functions.Environment()
            mp = V.ValueList()
            mp.addItem(V.ValueString(moddir))
            # the module path as an embedding host would set it (base scope) or as the command-line hosts do (session scope)
            (it.environment if path_in_session else it.base_environment).put("checkerlang_module_path", mp)
            if own_env:
                o = core.observe(lambda: it.interpret(src, "c03mod", env), 3000000)
            else:
                o = core.observe(lambda: it.interpret(src, "c03mod"), 3000000)
            outs.append((tag, src, o.kind, core.safe_str(o.value if o.kind == "value" else getattr(o.exc, "msg", o.exc), 300)))
            ctx.count("modscope_programs")
        ctx.case(("modscope", body, sh_defs, params), nontrivial=True)
        base = outs[0]
        if base[2] != "value":
            ctx.note("module call does not evaluate on its own: %s -> %s" % (base[1], base[3]))
            ctx.count("modscope_baseline_errors")
            continue
        for tag, src, kind, txt in outs[1:]:
            ctx.count("modscope_comparisons")
            if (kind, txt) != (base[2], base[3]):
                ctx.violation("C03:module-function-sees-requirer-scope:%s:%s" % (tag, mod),
                              "%s -> %s %s, but without the requirer's names: %s" % (src[:600], kind, txt, base[3]), {"src": src})
                break


def run_shard(spec, ctx):
    if spec["kind"] == "modscope":
        return run_modscope(spec, ctx)
    import ckl.functions
    tr = envtrace.TRACE
    tr.install()
    R = differ.RealRunner(secure=True, legacy=True)
    orig_env = R.Env

    def make_env():
        e = orig_env()
        tr.new_program(e)
        return e
    R.Env = make_env
    r = ctx.rng
    if spec["kind"] == "templates":
        for t in programs.SCOPE_TEMPLATES:
            g = programs.Gen(r)
            prog = ("seq", t(g))
            differ.diff_check(ctx, R, prog, "C03", MODES, "template-" + t.__name__[2:])
            ctx.count("templates")
    else:
        for i in range(spec["n"]):
            g = programs.Gen(r)
            prog = g.scoping_program()
            differ.diff_check(ctx, R, prog, "C03", MODES, "scoping")
    tr.drain(ctx, "C03")


def finalize(merged, tier):
    c = merged["counters"]
    reasons = []
    if c.get("harness_syntax_errors", 0):
        reasons.append("%d generated programs did not parse (harness defect)" % c["harness_syntax_errors"])
    for k in ("differential_comparisons", "env_call_frames", "env_assignments", "env_defs", "templates", "modscope_comparisons"):
        if c.get(k, 0) == 0:
            reasons.append("monitor counter %s is zero" % k)
    disc = {m: c.get("discriminates_" + m, 0) for m in MODES}
    for m, n in disc.items():
        if n == 0:
            reasons.append("no program discriminates wrong-semantics mode %s" % m)
    hm = [ex.get("hooks_missing") for spec, ex in merged["shard_docs"] if ex.get("hooks_missing")]
    extra = {"wrong_mode_discrimination": disc, "hooks_missing": hm[0] if hm else []}
    return extra, reasons
