"""C03 — names resolve lexically and calls bind arguments as declared.

Deciding monitors: reference evaluator (lexical mode) against result + event
log of generated programs; M4 scope-event invariants on every call frame,
assignment and def the programs perform; adequacy measured by wrong-semantics
modes (a program is non-trivial iff some wrong mode changes what it observes)."""
from cklmon import core, differ, envtrace
from cklmon.core import observe
from cklgen import programs

RULE = ("programs: nested function definitions to 4 levels over a 5-name pool (collisions intended), closures returned "
        "and called after their frame died, mutation after capture, def inside blocks/branches, recursion and forward "
        "references, every call form (positional, named, mixed, defaults depending on earlier parameters and outer names, "
        "rest, list/map spread, pipeline, method calls along _proto_ chains) and every binding error; each program logs "
        "what every scope observes; a case is one program; non-trivial = at least one wrong-semantics mode (dynamic "
        "scoping, assignment creates binding, global def, shared frames, defaults at definition/in caller, positional "
        "before named, rest dropped, spread not expanded, pipeline last, no receiver, no prototype walk) changes its "
        "observable outcome; distinct by program text")
ASSUMPTIONS = [
    "loop variables are not part of this property (bound in the enclosing frame, removed after the loop); generated names never collide with them",
    "a block-level def binds in the function or top-level scope (no block scope), as the statement says",
    "messages are not compared, only result, error value and the event log",
]
MODES = ["dynamic_scope", "assign_creates", "def_global", "shared_param_frame", "defaults_at_def", "defaults_in_caller",
         "positional_first", "rest_dropped", "no_spread", "pipe_last", "no_receiver", "no_proto"]
SHARD_TIMEOUT = {"quick": 300, "thorough": 3000}


def plan(tier, seed):
    n = 12 if tier == "quick" else 48
    return ([{"kind": "random", "n": 500 if tier == "quick" else 3200} for _ in range(n)] + [{"kind": "templates"}, {"kind": "places"}, {"kind": "escaping"}]
            + [{"kind": "modscope", "n": 60 if tier == "quick" else 400} for _ in range(2 if tier == "quick" else 8)])


MOD_CALLS = [
    ("List", "List->rest([1, 2, 3])"), ("List", "List->reverse([1, 2, 3])"), ("List", "List->flatten([[1], [2, [3]]])"),
    ("List", "List->unique([1, 2, 1, 3])"), ("List", "List->first_n([1, 2, 3], 2)"), ("List", "List->last_n([1, 2, 3], 2)"),
    ("List", "List->map_list([1, 2], fn(v) v * 2)"), ("List", "List->filter([1, 2, 3], fn(v) v > 1)"),
    ("List", "List->reduce([1, 2, 3], fn(p, q) p + q)"), ("List", "List->prod([1, 2, 3])"), ("List", "List->grep(['ab', 'cd'], //a//)"),
    ("List", "List->grouped([1, 2, 3, 4])"), ("List", "List->permutations([1, 2, 3])"), ("List", "List->contains([1, 2], 2)"),
    ("List", "List->find_last([1, 2, 1], 1)"), ("List", "List->first([1, 2])"), ("List", "List->last([1, 2])"),
    ("Stat", "Stat->geometric_mean([1, 4])"), ("Stat", "Stat->harmonic_mean([1, 4])"), ("Bitwise", "Bitwise->bit_rotate_left_32(1, 3)"),
    ("Random", "do Random->set_seed(5); Random->choice([1, 2, 3]) end"), ("Random", "do Random->set_seed(7); Random->sample([1, 2, 3, 4], 2) end"),
    # a user module found through the module path (written by the shard)
    ("umod", "umod->probe()"), ("umod", "umod->uselen([1, 2, 3])"), ("umod", "umod->twice(4)"), ("umod", "umod->probe2()"),
    ("Set", "Set->union(<<1, 2>>, <<2, 3>>)"), ("Set", "Set->intersection(<<1, 2>>, <<2, 3>>)"), ("Set", "Set->diff(<<1, 2>>, <<2, 3>>)"),
    ("Set", "Set->symmetric_diff(<<1, 2>>, <<2, 3>>)"), ("Stat", "Stat->mean([1, 2, 6])"), ("Stat", "Stat->median([3, 1, 2])"),
    ("Stat", "Stat->median_low([3, 1, 2, 4])"), ("Stat", "Stat->median_high([3, 1, 2, 4])"), ("Bitwise", "Bitwise->bit_and(6, 3)"),
]
UMOD_SRC = ("def probe() do shadow_me catch all 'undefined' end;\ndef probe2() do [shadow_me, lst, result] catch all 'undefined' end;\n"
            "def uselen(x) length(x);\ndef twice(x) x * 2;\ndef _private_helper() 1;\n")
SHADOW_EXTRA = ["shadow_me", "x", "lst", "result", "i", "n", "acc", "a", "b", "l", "s", "fn_", "item", "idx", "value", "key", "list", "obj", "count", "size", "seta", "setb"]


def run_modscope(spec, ctx):
    """a module function's free names resolve in the module (and the base environment), never in the scope that
    happened to require the module first: whatever the requirer defines, or whatever function parameters and
    locals are in scope where the require runs, module functions return what they return without them.
    Non-legacy interpreters (modules are loaded on demand there); one fresh interpreter per program."""
    import ckl.functions
    r = ctx.rng
    import os
    import ckl.values as V
    moddir = os.path.join(os.getcwd(), "c03mods")
    os.makedirs(moddir, exist_ok=True)
    with open(os.path.join(moddir, "umod.ckl"), "w") as f:
        f.write(UMOD_SRC)
    base_it, _ = core.new_interpreter(secure=True, legacy=False)
    # (not the functions the operators of the requirer's own lambdas stand for: shadowing `greater` changes `v > 1`
    #  in the requirer's code, rightly)
    operator_fns = {"add", "sub", "mul", "div", "mod", "greater", "less", "equals", "not_equals", "greater_equals", "less_equals",
                    "is_not_null", "is_null", "identity"}
    names = sorted(n for n in base_it.base_environment.getSymbols() if n.isidentifier() and not n.startswith("checkerlang")
                   and n == n.lower() and n not in operator_fns)
    names = names + [n for n in SHADOW_EXTRA if n not in names]
    for _ in range(spec["n"]):
        mod, call = r.choice(MOD_CALLS)
        calls = [call] + [c for m, c in r.sample(MOD_CALLS, 3) if m == mod and c != call]
        body = "[%s]" % ", ".join(calls)
        outs = []
        shadows = r.sample(names, r.randint(3, 12))
        if mod == "umod" and "shadow_me" not in shadows:
            shadows.append("shadow_me")
        sh_defs = "; ".join((("def %s = 'mine'" % n) if r.random() < 0.4 else ("def %s(p_...) 'mine'" % n)) for n in shadows)
        params = ", ".join(r.sample([n for n in names if n not in ("fn_",)], r.randint(1, 4)))
        variants = [("plain", "require %s; %s" % (mod, body)),
                    ("requirer-top-level", "%s; require %s; %s" % (sh_defs, mod, body)),
                    ("requirer-defines-later", "require %s; %s; %s" % (mod, sh_defs, body)),
                    ("require-inside-function", "def loader_(%s) do require %s; %s end; loader_(%s)" % (
                        params, mod, body, ", ".join("'mine'" for _ in params.split(", ")))),
                    ("require-inside-function-with-locals", "def loader_() do %s; require %s; %s end; loader_()" % (sh_defs, mod, body))]
        path_in_session = r.random() < 0.5
        own_env = r.random() < 0.5      # run in an environment of the host's own, or directly in the session scope (as the CLI does)
        for tag, src in variants:
            it, out = core.new_interpreter(secure=True, legacy=False)
            env = ckl.functions.Environment()
            mp = V.ValueList()
            mp.addItem(V.ValueString(moddir))
            # the module path as an embedding host would set it (base scope) or as the command-line hosts do (session scope)
            (it.environment if path_in_session else it.base_environment).put("checkerlang_module_path", mp)
            if own_env:
                o = core.observe(lambda: it.interpret(src, "c03mod", env), 3000000)
            else:
                o = core.observe(lambda: it.interpret(src, "c03mod"), 3000000)
            outs.append((tag, src, o.kind, core.safe_str(o.value if o.kind == "value" else getattr(o.exc, "msg", o.exc), 300)))
            ctx.count("modscope_programs")
        ctx.case(("modscope", body, sh_defs, params), nontrivial=True)
        base = outs[0]
        if base[2] != "value":
            ctx.note("module call does not evaluate on its own: %s -> %s" % (base[1], base[3]))
            ctx.count("modscope_baseline_errors")
            continue
        for tag, src, kind, txt in outs[1:]:
            ctx.count("modscope_comparisons")
            if (kind, txt) != (base[2], base[3]):
                ctx.violation("C03:module-function-sees-requirer-scope:%s:%s" % (tag, mod),
                              "%s -> %s %s, but without the requirer's names: %s" % (src[:600], kind, txt, base[3]), {"src": src})
                break


# ---- assignment through every kind of place, from every kind of scope -------------------------------------------
# (name, [(initial value, value afterwards)] x 2, statement); T is the assigned variable
PLACE_ASSIGNS = [
    ("plain", [("5", "6"), ("'p'", "6")], "T = 6"),
    ("compound-int", [("5", "7"), ("40", "42")], "T += 2"),
    ("compound-str", [("'ab'", "'abc'"), ("''", "'c'")], "T += 'c'"),
    ("compound-list", [("[1]", "[1, 2]"), ("[]", "[2]")], "T += [2]"),
    ("compound-mul", [("5", "15"), ("2", "6")], "T *= 3"),
    ("str-element", [("'abc'", "'aXc'"), ("'qrs'", "'qXs'")], "T[1] = 'X'"),
    ("str-element-negative", [("'abc'", "'abXY'"), ("'q'", "'XY'")], "T[-1] = 'XY'"),
    ("str-element-delete", [("'abc'", "'bc'"), ("'qr'", "'r'")], "T[0] = ''"),
    ("str-element-compound", [("'abc'", "'aZbc'"), ("'q'", "'qZ'")], "T[0] += 'Z'"),
    ("list-element", [("[1, 2, 3]", "[9, 2, 3]"), ("['q']", "[9]")], "T[0] = 9"),
    ("list-element-negative", [("[1, 2, 3]", "[1, 2, 9]"), ("['q']", "[9]")], "T[-1] = 9"),
    ("list-element-compound", [("[1, 2]", "[1, 10]"), ("[0, 3]", "[0, 15]")], "T[1] *= 5"),
    ("nested-element", [("[[1], [2]]", "[[1], [7]]"), ("[0, [5, 5]]", "[0, [7, 5]]")], "T[1][0] = 7"),
    ("map-entry", [("<<<'k' => 1>>>", "<<<'k' => 2>>>"), ("<<<'k' => 'q', 'j' => 0>>>", "<<<'k' => 2, 'j' => 0>>>")], "T['k'] = 2"),
    ("map-new-entry", [("<<<'k' => 1>>>", "<<<'k' => 1, 'n' => 5>>>"), ("<<<>>>", "<<<'n' => 5>>>")], "T['n'] = 5"),
    ("map-entry-compound", [("<<<'k' => 1>>>", "<<<'k' => 4>>>"), ("<<<'k' => 10, 'j' => 0>>>", "<<<'k' => 13, 'j' => 0>>>")], "T['k'] += 3"),
    ("member", [("<*x = 1*>", "<*x = 2*>"), ("<*x = 'q', y = 0*>", "<*x = 2, y = 0*>")], "T->x = 2"),
    ("member-by-index", [("<*x = 1*>", "<*x = 2*>"), ("<*x = 'q', y = 0*>", "<*x = 2, y = 0*>")], "T['x'] = 2"),
    ("member-compound", [("<*x = 1*>", "<*x = 6*>"), ("<*x = 10, y = 0*>", "<*x = 15, y = 0*>")], "T->x += 5"),
    ("nested-member", [("<*p = <*q = 1*>*>", "<*p = <*q = 2*>*>"), ("<*p = <*q = 'q', r = 0*>*>", "<*p = <*q = 2, r = 0*>*>")], "T->p->q = 2"),
    ("destructuring", [("1", "7"), ("'q'", "7")], "[T, U_] = [7, 8]"),
    ("destructuring-swap", [("1", "0"), ("'q'", "0")], "[T, U_] = [U_, T]"),
]
# (name, program around the statement {st}; {I1}/{I2} the two initial values; result [T, what the assigning scope reads
# back]; which of the two values the outer T / the read-back show afterwards: 'new1' = first value assigned, 'old1' =
# first value untouched, 'new2' = second value assigned)
PLACE_SCOPES = [
    ("same-scope", "def T = {I1}; {st}; [T, T]", "new1", "new1"),
    ("function", "def T = {I1}; def f() do {st}; T end; def back = f(); [T, back]", "new1", "new1"),
    ("nested-function", "def T = {I1}; def f() do def g() do {st}; T end; g() end; def back = f(); [T, back]", "new1", "new1"),
    ("closure-called-later", "def mk() do def T = {I1}; [fn() do {st}; T end, fn() T] end; def [set_, get_] = mk(); def back = set_(); [get_(), back]", "new1", "new1"),
    ("method", "def T = {I1}; def o_ = <*run = fn(self) do {st}; T end*>; def back = o_->run(); [T, back]", "new1", "new1"),
    ("loop-in-function", "def T = {I1}; def f() do for i_ in [1] do {st} end; T end; def back = f(); [T, back]", "new1", "new1"),
    ("while-in-function", "def T = {I1}; def f() do def n_ = 0; while n_ < 1 do n_ += 1; {st} end; T end; def back = f(); [T, back]", "new1", "new1"),
    ("block-in-function", "def T = {I1}; def f() do do {st} catch 'zz' NULL finally 0 end; T end; def back = f(); [T, back]", "new1", "new1"),
    ("if-in-function", "def T = {I1}; def f() do if TRUE then do {st} end; T end; def back = f(); [T, back]", "new1", "new1"),
    ("callback", "def T = {I1}; def back = NULL; def apply_(g_) g_(1); apply_(fn(x_) do {st}; back = T end); [T, back]", "new1", "new1"),
    ("lambda-called-at-once", "def T = {I1}; def back = (fn() do {st}; T end)(); [T, back]", "new1", "new1"),
    ("parameter-shadows", "def T = {I1}; def f(T) do {st}; T end; def back = f({I2}); [T, back]", "old1", "new2"),
    ("local-def-shadows", "def T = {I1}; def f() do def T = {I2}; {st}; T end; def back = f(); [T, back]", "old1", "new2"),
    ("default-shadows", "def T = {I1}; def f(T = {I2}) do {st}; T end; def back = f(); [T, back]", "old1", "new2"),
    ("caller-has-same-name", "def T = {I1}; def f() do {st}; T end; def caller() do def T = {I2}; [f(), T] end; def back = caller(); [T, back]", "new1", "caller"),
    ("twice", "def T = {I1}; def f() do {st}; T end; f(); def T2 = T; [T2 == T, T is not NULL]", "twice", "twice"),
]


def run_places(spec, ctx):
    import ckl.functions
    its = [core.new_interpreter(secure=True, legacy=True)[0], core.new_interpreter(secure=True, legacy=False)[0]]

    def ev(it, src):
        return observe(lambda: it.interpret(src, "c03", ckl.functions.Environment()), 400000)

    def text(o):
        return core.safe_str(o.value, 300) if o.kind == "value" else "%s: %s" % (o.kind, core.safe_str(getattr(o.exc, "msg", o.exc), 200))
    for aname, pairs, st in PLACE_ASSIGNS:
        (i1, n1), (i2, n2) = pairs
        for sname, tmpl, outer, back in PLACE_SCOPES:
            if sname == "twice":
                continue
            pre = "def U_ = 0; " if "U_" in st else ""
            if "U_" in st and sname == "closure-called-later":
                pre = "def U_ = 0; "
            src = pre + tmpl.replace("{st}", st).replace("{I1}", i1).replace("{I2}", i2)
            vals = {"new1": n1, "old1": i1, "new2": n2, "caller": "[%s, %s]" % (n1, i2)}
            want_src = "[%s, %s]" % (vals[outer], vals[back])
            for li, it in enumerate(its):
                w = ev(it, want_src)
                o = ev(it, src)
                ctx.count("place_programs")
                ctx.case(("place", aname, sname, li))
                if w.kind != "value":
                    ctx.count("harness_syntax_errors")
                    ctx.note("expected-value text does not evaluate: %s" % want_src)
                    continue
                if o.kind == "syntax":
                    ctx.count("harness_syntax_errors")
                    ctx.note("place program does not parse: %s" % src)
                    continue
                if o.kind != "value" or text(o) != text(w):
                    ctx.violation("C03:place-assignment:%s:%s" % (aname, sname),
                                  "%s -> %s; the nearest enclosing binding of T should end as %s" % (src, text(o), text(w)), {"src": src})
        # assignment never creates a binding: with no T anywhere the statement fails and leaves no T behind
        for sname, tmpl in (("function", "def f() do do {st}; 'no error' catch all 'error' end end; [f(), do T catch all 'undefined' end]"),
                            ("top-level", "def r_ = do {st}; 'no error' catch all 'error' end; [r_, do T catch all 'undefined' end]"),
                            ("closure", "def r_ = (fn() do {st}; 'no error' catch all 'error' end)(); [r_, do T catch all 'undefined' end]")):
            src = ("def U_ = 0; " if "U_" in st else "") + tmpl.replace("{st}", st)
            for li, it in enumerate(its):
                o = ev(it, src)
                ctx.count("place_programs")
                ctx.case(("place-undefined", aname, sname, li))
                if o.kind != "value" or text(o) != "['error', 'undefined']":
                    ctx.violation("C03:assignment-creates-binding:%s:%s" % (aname, sname), "%s -> %s; no T is defined, so this must fail and define nothing" % (src, text(o)), {"src": src})
    # a name is looked up in the scopes as they are at that moment: the same function body, loop body or closure body run
    # again under a scope of another shape (a local def made on some runs only) finds the nearest binding each time
    import itertools
    for L in range(1, 5):
        for seq in itertools.product((False, True), repeat=L):
            bs = "[" + ", ".join("TRUE" if b else "FALSE" for b in seq) + "]"
            seen_inner, loop_want = False, []
            for b in seq:
                seen_inner = seen_inner or b
                loop_want.append("'inner'" if seen_inner else "'outer'")
            cases = [
                ("call", "def x = 1; def f(shadow) do if shadow then do def x = 2; end; x end; [f(b) for b in %s]" % bs, "[" + ", ".join("2" if b else "1" for b in seq) + "]"),
                ("call-nested-read", "def x = 1; def f(shadow) do if shadow then do def x = 2; end; (fn() [x][0])() end; [f(b) for b in %s]" % bs, "[" + ", ".join("2" if b else "1" for b in seq) + "]"),
                ("loop", "def y = 'outer'; def g() do def seen = []; for b in %s do if b then do def y = 'inner'; end; append(seen, y) end; seen end; g()" % bs, "[" + ", ".join(loop_want) + "]"),
                ("closure", "def n = 100; def make(own) do if own then do def n = 0; end; fn() n + 1 end; def fs = [make(b) for b in %s]; [f() for f in fs] + [f() for f in fs]" % bs,
                 "[" + ", ".join(["1" if b else "101" for b in seq] * 2) + "]"),
                ("assign", "def z = 0; def h(own) do if own then do def z = 10; end; z += 1; z end; [[h(b) for b in %s], z]" % bs,
                 "[[" + ", ".join(("11" if b else str(k)) for b, k in zip(seq, itertools.accumulate(0 if b else 1 for b in seq))) + "], %d]" % sum(0 if b else 1 for b in seq)),
            ]
            for cname, src, want in cases:
                for li, it in enumerate(its):
                    o = ev(it, src)
                    ctx.count("place_programs")
                    ctx.count("scope_shape_programs")
                    ctx.case(("scope-shape", cname, seq, li), nontrivial=len(set(seq)) > 1)
                    if o.kind == "syntax":
                        ctx.count("harness_syntax_errors")
                        ctx.note("scope-shape program does not parse: %s" % src)
                    elif o.kind != "value" or text(o) != want:
                        ctx.violation("C03:lookup-under-another-scope-shape:%s" % cname, "%s -> %s, expected %s" % (src, text(o), want), {"src": src})
    # obj->m(a): the member is looked up along the prototype chain and the receiver goes first, whatever kind of object
    # the member is finally found on - a module used as a prototype included (Module->f(a) itself passes no receiver)
    for mod, calls in (("Type", ["is_object()", "is_list()", "is_string()"]), ("List", ["map_list(fn(k) k)", "filter(fn(k) k == 'n')"]), ("Core", ["identity()", "type()"])):
        for depth in range(0, 4):
            chain = mod
            for _ in range(depth):
                chain = "<*_proto_ = %s*>" % chain
            for c in calls:
                fname, rest = c.split("(", 1)
                direct = "%s->%s(o%s%s" % (mod, fname, ", " if rest != ")" else "", rest)
                src = "require %s; def o = <*_proto_ = %s, n = 7*>; [do o->%s catch e 'error: ' + string(e) end, do %s catch e 'error: ' + string(e) end]" % (mod, chain, c, direct)
                for li, it in enumerate(its):
                    o = ev(it, src)
                    ctx.count("place_programs")
                    ctx.count("module_prototype_programs")
                    ctx.case(("module-proto", mod, depth, c, li), nontrivial=True)
                    if o.kind != "value":
                        ctx.violation("C03:method-call-through-module-prototype:%s" % o.kind, "%s -> %s" % (src, text(o)), {"src": src})
                        continue
                    try:
                        a_, b_ = o.value.value[0], o.value.value[1]
                        same = core.safe_str(a_, 300) == core.safe_str(b_, 300)
                    except Exception:  # noqa
                        same = False
                    if not same:
                        ctx.violation("C03:method-call-through-module-prototype:%s" % fname, "%s -> %s: o->f(..) and %s differ (the receiver goes first)" % (src, text(o), direct), {"src": src})
    ctx.sample({"place_assignments": len(PLACE_ASSIGNS), "scopes": len(PLACE_SCOPES)})


def run_shard(spec, ctx):
    if spec["kind"] == "places":
        return run_places(spec, ctx)
    if spec["kind"] == "escaping":
        # a function sees the scope it was created in for as long as it lives - also after the interpret call that
        # created it (in an environment supplied by the host) has returned
        from cklmon import sessions
        return sessions.run_escaping(ctx, "C03")
    if spec["kind"] == "modscope":
        return run_modscope(spec, ctx)
    import ckl.functions
    tr = envtrace.TRACE
    tr.install()
    R = differ.RealRunner(secure=True, legacy=True)
    orig_env = R.Env

    def make_env():
        e = orig_env()
        tr.new_program(e)
        return e
    R.Env = make_env
    r = ctx.rng
    if spec["kind"] == "templates":
        for t in programs.SCOPE_TEMPLATES:
            g = programs.Gen(r)
            prog = ("seq", t(g))
            differ.diff_check(ctx, R, prog, "C03", MODES, "template-" + t.__name__[2:])
            ctx.count("templates")
    else:
        for i in range(spec["n"]):
            g = programs.Gen(r)
            prog = g.scoping_program()
            differ.diff_check(ctx, R, prog, "C03", MODES, "scoping")
    tr.drain(ctx, "C03")


def finalize(merged, tier):
    c = merged["counters"]
    reasons = []
    if c.get("harness_syntax_errors", 0):
        reasons.append("%d generated programs did not parse (harness defect)" % c["harness_syntax_errors"])
    for k in ("differential_comparisons", "env_call_frames", "env_assignments", "env_defs", "templates", "modscope_comparisons", "place_programs"):
        if c.get(k, 0) == 0:
            reasons.append("monitor counter %s is zero" % k)
    disc = {m: c.get("discriminates_" + m, 0) for m in MODES}
    for m, n in disc.items():
        if n == 0:
            reasons.append("no program discriminates wrong-semantics mode %s" % m)
    hm = [ex.get("hooks_missing") for spec, ex in merged["shard_docs"] if ex.get("hooks_missing")]
    extra = {"wrong_mode_discrimination": disc, "hooks_missing": hm[0] if hm else []}
    return extra, reasons
