"""C14 — program meaning is independent of layout, comments and literal spelling.

Deciding monitor (model-free): every generated program is rendered canonically
and in >= 10 other ways (separator choice at every token boundary, LF/CRLF/tab/
comment-after-every-token layouts, redundant parentheses, optional trailing
semicolons, decimal/hex/binary/underscored ints, both quote styles with
equivalent escapes, != vs <>); all renderings must give the same result, event
log, output text and error value on the real interpreter."""
from cklmon import core, differ
from cklgen import programs, render, layout, exprs as ge
from cklref import refexpr as rx

RULE = ("programs of the C02-C05 generators (operator trees, scoping, control flow, comprehensions, error handling) x "
        ">= 10 renderings each, always including all-LF, all-CRLF, tabs-only, comment after every token, dense, "
        "respelled literals, redundant parentheses and trailing semicolons; a case is one (program, rendering) pair; "
        "non-trivial = the rendering differs from the canonical text in more than whitespace-between-tokens; distinct "
        "by rendered text")
ASSUMPTIONS = [
    "only token-preserving changes: whitespace is kept wherever two tokens would fuse; parentheses only around pure "
    "expressions at expression positions; trailing ; only where the grammar allows it",
    "positions and messages are not compared",
]
SHARD_TIMEOUT = {"quick": 300, "thorough": 3000}
FIXED_MODES = ["lf", "crlf", "tabs", "comments", "dense", "spaces"]


def plan(tier, seed):
    n = 12 if tier == "quick" else 48
    return [{"kind": "programs", "n": 220 if tier == "quick" else 1000} for _ in range(n)]


TINY = [
    [("deffn", "twice", [("x", None, False)], ("bin", "*", programs.I(2), programs.V("x")))],
    [("def", "n", programs.I(5))],
    [("fn", [("x", None, False)], programs.V("x"))],
    [programs.I(1)], [programs.S("s")], [("list", [programs.I(1), programs.I(2)])],
    [("for", ["i"], None, ("lit", ("list", (("int", 1), ("int", 2)))), ("seq", [programs.V("i")]))],
    [("if", [(programs.B(True), programs.I(1))], None)],
    [("deffn", "noarg", [], programs.S("v"))],
    [("def", "f", ("fn", [], programs.I(3)))],
    [("deffn", "a", [], programs.I(1)), ("deffn", "b", [], programs.I(2))],
    [("def", "m", programs.I(1)), ("deffn", "last", [("p", programs.I(2), False)], programs.V("p"))],
]


def gen_program(r, i):
    g = programs.Gen(r)
    if i % 11 == 10:
        # programs of one or two statements: what the whole script evaluates to, whatever follows its last statement
        return "tiny", ("seq", list(r.choice(TINY)))
    k = i % 5
    if k == 0:
        return "scoping", g.scoping_program()
    if k == 1:
        return "control", g.control_program()
    if k == 2:
        return "errors", g.error_program()
    if k == 3:
        return "comprehension", g.comprehension_case()[0]
    eg = ge.ExprGen(r, max_depth=r.choice([2, 3, 4]), ill_typed=0.03)
    stmts = []
    for j in range(r.randint(1, 3)):
        t = eg.any(0)
        if ge.size(t) > 30:
            t = eg.lit_int()
        stmts.append(programs.LOG("e%d" % j, convert_expr(t)))
    stmts.append(("call", programs.V("println"), [("pos", programs.S("out: é 'q' \"d\" # not a comment"))]))
    stmts.append(programs.LOG("odd-chars", programs.S(r.choice(["a\x0cb", "x\x0by", "p\x85q", "l\u2028s", "r\r\nn", "fs\x1cgs\x1d", "t\tt"]))))
    # characters with a compatibility decomposition (a normalisation of the source would rewrite them, an escape not)
    stmts.append(programs.LOG("compat-chars", programs.S(r.choice(["\xbd cup", "5 \xb5m", "m\xb2", "a\xa0b", "\xaa\xba\xb9\xb3", "\xbc\xbe", "\xb4\xa8\xb8"]))))
    # backslashes next to letters that are escape letters, and ints that need more than 64 bits (any spelling)
    stmts.append(programs.LOG("backslashes", programs.S(r.choice(["C:\\temp\\new", "a\\nb", "\\x41", "\\\\n", "tab\\there", "\\", "q\\'r", "\\r\\n"]))))
    stmts.append(programs.LOG("wide-ints", ("list", [programs.I(r.choice([2**64, 2**64 + 1, 2**80, 2**63, 2**100 + 5, 18446744073709551615])), programs.I(r.choice([2**31, 2**32, 2**53 + 1]))])))
    # what a program can read back about its own definitions: no trace of comments or layout in it
    stmts.append(("deffn", "helper_", [("x", None, False), ("y", programs.I(2), False)], ("bin", "*", programs.V("x"), programs.V("y"))))
    stmts.append(("def", "lam_", ("fn", [("p", None, False)], programs.V("p"))))
    stmts.append(programs.LOG("reflect", ("list", [programs.CALL("info", programs.V("helper_")), programs.CALL("string", programs.V("helper_")), programs.CALL("info", programs.V("lam_")),
                                                   programs.CALL("string", programs.V("lam_")), programs.CALL("info", programs.V("log")), programs.CALL("helper_", programs.I(3))])))
    # a program may define a function with the name an operator stands for: both spellings of the operator mean it
    if r.random() < 0.3:
        stmts.append(("deffn", "not_equals", [("a", None, False), ("b", None, False)], ("list", [programs.S("user-defined"), programs.V("a"), programs.V("b")])))
        stmts.append(programs.LOG("shadowed-not-equals", ("list", [("chain", [programs.I(1), programs.I(2)], ["!="]), ("chain", [programs.S("a"), programs.S("a")], ["!="])])))
    # string literals whose text is a word of the language, as operands of the word operators
    kw = r.choice(["not", "in", "is", "and", "or", "empty", "zero", "to", "end", "do", "then", "keys", "all", "TRUE", "NULL", "string", "with"])
    stmts.append(("def", "kw_", programs.S(kw)))
    stmts.append(programs.LOG("keyword-like-strings", ("list", [("chain", [programs.V("kw_"), programs.S(kw)], ["is"]), ("chain", [programs.V("kw_"), programs.S(kw)], ["=="]),
                                                               ("in", programs.S(kw), ("list", [programs.S(kw)])), ("chain", [programs.S(kw), programs.V("kw_")], ["!="]),
                                                               ("not", ("chain", [programs.V("kw_"), programs.S("x" + kw)], ["is"]))])))
    return "operators", ("seq", stmts)


def convert_expr(t):
    """refexpr tree -> refeval AST (same shapes except tick)"""
    k = t[0]
    if k == "tick":
        return convert_expr(t[2])
    if k == "bin":
        return ("bin", t[1], convert_expr(t[2]), convert_expr(t[3]))
    if k in ("neg", "not"):
        return (k, convert_expr(t[1]))
    if k == "pos":
        return convert_expr(t[1])
    if k == "chain":
        return ("chain", [convert_expr(x) for x in t[1]], list(t[2]))
    if k in ("and", "or"):
        return (k, [convert_expr(x) for x in t[1]])
    if k in ("in", "notin"):
        return (k, convert_expr(t[1]), convert_expr(t[2]))
    return t


REJECTED = ["(1 + ", "(a + ) * 2", "(1; 2;)", "((((((((((", "((((((((((1 +", "[1, 2", "[[[[", "<<1, 2", "<<<1 =>", "do 1", "do do do",
            "def = 3", "if then", "fn(", "1 +", "for x in", "x[", "f(1, ", "{", "'\\x", "0x", "<*a = ", "(((1)) + ((2)", "while do", "1 )", "]",
            "def f(a, = 1) a", "\"abc\\", "(fn(x) (x", "[x for x in (", "((((((((((((((((((((((((((((((", "- - (", "not (not (", "1 is (", "a->(", "%s" % ("(" * 50)]


RAW_SCRIPTS = ["def twice(x) 2 * x", "def n = 5", "fn(x) x", "1", "'s'", "[1, 2]", "for i in [1, 2] do i end", "if TRUE then 1", "def noarg() 'v'", "def f = fn() 3",
               "def a() 1; def b() 2", "def m = 1; def last(p = 2) p", "def class K do def a = 1 end", "do 1 end", "def [p, q] = [1, 2]", "def g(x) do x end",
               "require Math", "x = 1", "error 'e'", "NULL", "def h(a, b...) b..."]
RAW_ENDINGS = [";", " ;", ";\n", "\n;", " # c\n", "; # done", "\r\n;\r\n", "\n", "\t", " ;\n\n", "\n# c\n;"]


def run_raw_scripts(ctx, R):
    """whole scripts of one or two statements: what follows the last statement (an optional semicolon, blanks, a comment,
    line breaks) changes neither the result nor the error"""
    for script in RAW_SCRIPTS:
        base, blog, o = R.run_text(script)
        for end in RAW_ENDINGS:
            got, glog, o2 = R.run_text(script + end)
            ctx.count("raw_script_renderings")
            ctx.case(script + end, nontrivial=True)
            if not differ.same_summary(got, base):
                ctx.violation("C14:raw-script:ending", "%r -> %r, but %r -> %r" % (script, base, script + end, got), {"canonical": script, "rendering": script + end})
                break


def run_shard(spec, ctx):
    R = differ.RealRunner(secure=True, legacy=True)
    r = ctx.rng
    if ctx.shard == 0:
        run_raw_scripts(ctx, R)
    for i in range(spec["n"]):
        if i % 3 == 1:
            # scripts the parser rejects half way, between the checked ones: nothing of them may linger
            for _ in range(4):
                bad = r.choice(REJECTED)
                R.run_text(bad)
                ctx.count("rejected_scripts_between")
        family, prog = gen_program(r, i)
        canon = render.Renderer().program(prog)
        text0 = " ".join(canon)
        base, blog, o = R.run_text(text0)
        bout = R.out.output
        ctx.count("programs")
        if base[0] == "syntax":
            # a harness defect - unless the same tokens with redundant parentheses are accepted: then parentheses decide
            accepted = None
            for _try in range(4):
                rd = render.Renderer(style=r, paren_p=0.8, semi_p=0.0)
                alt = " ".join(rd.program(prog))
                got, glog, o2 = R.run_text(alt)
                if got[0] != "syntax":
                    accepted = alt
                    break
            if accepted is not None:
                ctx.violation("C14:%s:parentheses-decide-acceptance" % family, "canonical %r is rejected (%s) but %r is accepted" % (
                    text0[:500], core.safe_str(o.exc, 80), accepted[:500]), {"canonical": text0, "rendering": accepted})
                continue
            ctx.count("harness_syntax_errors")
            ctx.note("canonical rendering does not parse: %s :: %s" % (core.safe_str(o.exc, 80), text0[:300]))
            continue
        if base[0] in ("host", "hang"):
            ctx.violation("C14:%s:canonical-escape-%s" % (family, base[1] or "hang"), text0[:600], {"src": text0})
            continue
        ctx.count("baseline_" + base[0])
        modes = FIXED_MODES + ["random"] * 5 + ["spaces"]
        for j, mode in enumerate(modes):
            styled = j >= 2
            # (the last rendering parenthesises nearly every expression)
            rd = render.Renderer(style=r, paren_p=(0.7 if j == len(modes) - 1 else 0.12) if styled else 0.0, semi_p=0.4 if styled else 0.0)
            toks = rd.program(prog)
            spelled = j % 2 == 1 or mode == "random"
            if spelled:
                toks = render.respell(toks, r)
            text, lines = layout.render(toks, r, mode)
            got, glog, o2 = R.run_text(text)
            gout = R.out.output
            ctx.count("renderings")
            ctx.case(text, nontrivial=styled or spelled or mode in ("comments", "crlf"))
            same = differ.same_summary(got, base) and differ.same_log(glog, blog) and gout == bout
            if not same:
                what = "result" if not differ.same_summary(got, base) else ("log" if not differ.same_log(glog, blog) else "output")
                cls = layout_class(mode, styled, spelled, got)
                ctx.violation("C14:%s:%s:%s" % (family, cls, what),
                              "canonical %r -> %r\nrendering %r -> %r %s" % (text0[:500], base, text[:700], got, core.safe_str(o2.exc, 80) if o2.exc else ""),
                              {"canonical": text0, "rendering": text})
                break
        ctx.sample_maybe({"family": family, "canonical": text0[:200], "a_rendering": text[:200]}, 0.004)


def layout_class(mode, styled, spelled, got):
    if got[0] == "syntax":
        return "rendering-rejected(%s%s%s)" % (mode, "+style" if styled else "", "+spell" if spelled else "")
    return "%s%s%s" % (mode, "+style" if styled else "", "+spell" if spelled else "")


def finalize(merged, tier):
    c = merged["counters"]
    reasons = []
    if c.get("harness_syntax_errors", 0):
        reasons.append("%d canonical renderings did not parse (harness defect)" % c["harness_syntax_errors"])
    if c.get("renderings", 0) == 0 or c.get("baseline_value", 0) == 0 or c.get("baseline_error", 0) == 0:
        reasons.append("no renderings, or no value / no error baselines")
    return {}, reasons
