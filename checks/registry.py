"""Which properties are claimed in MANIFEST.json (bin/mkmanifest reads this).

A property is listed in CLAIMED only once both tiers of its check have run
silent on the current tree."""

HOOK_COMMITS = []

NOTES = ("Runtime-monitoring verification of checkerlang-py. ./bin/check <id> --tier quick|thorough; "
         "exit 0 held / 1 VIOLATION / 2 INCONCLUSIVE (never folded into the others). Seeds via VERIF_SEED. "
         "Every verdict is 'held on the executions observed'; see DESIGN.md for oracles, workloads and limits. "
         "known_findings.json lists recorded findings (by mechanism) and the fix: commits made in /repo.")

_TB = ("trusted base: the harness (lib/cklmon, lib/cklgen) and the reference models in lib/cklref (written from the "
       "property statements, independent of ckl); CPython 3.12 sys.monitoring for the logical step clock")

CLAIMED = {
    "C01": {
        "technique": "runtime monitoring: boundary observer + sys.monitoring step clock around parse_script over generated hostile texts; same-text re-parse and cross-hash-seed process comparison",
        "text": ("Every generated source text (exhaustive token strings <= 2 over the full token alphabet, <= 3 over a reduced one, "
                 "grammar-derived programs with all prefixes/deletions and sampled insertions, character noise, nesting <= 40) must "
                 "parse to a node tree or a CklSyntaxError with message, file name and line >= 1, within 20000+3000/char logical "
                 "steps, identically on a second parse and under other hash seeds. Held on ~2*10^5 (quick) / ~3*10^6 (thorough) "
                 "observed parses; says nothing about texts not generated."),
        "note": _TB + "; nesting deeper than 40 is out of scope; messages/columns are not compared",
    },
    "C02": {
        "technique": "runtime monitoring: differential oracle over interpreted expressions (flat vs fully parenthesised rendering, chain vs conjunction, reference expression semantics, exact-integer laws, predicate negation), exhaustive over operator pairs",
        "text": ("For every ordered pair of binary operators over 17 typed/ill-typed operand triples, every unary/binary combination, "
                 "every `is [not]` predicate form x 32 pool values, plus random typed trees to depth 5 with tick() probes: the "
                 "interpreter's outcome must agree between the flat and the parenthesised text, with the reference semantics "
                 "(value, kind, error, short-circuit order), and with exact integer laws up to 10^30. Exploration with an "
                 "exhaustive operator-pair core."),
        "note": _TB + "; % on negative operands only by law; mixed-kind ordering and membership-next-to-arithmetic not asserted",
    },
    "C06": {
        "technique": "runtime monitoring: reference-equality oracle (exact rationals, structural) on all pairs/triples of adversarial value pools at the ckl.values API and through programs, plus always-on law wrappers on every __eq__/__hash__ call",
        "text": ("All ordered pairs of a ~130..220-value adversarial pool per shard (numerics around 2^53/2^63/10^30, 1 vs 1.0, "
                 "nested containers, twins built in other orders) are compared with the reference equality; every real-equal "
                 "pair must hash equal; every (a==b, b==c) triple must give a==c; sets/maps built in every insertion order of "
                 "<= 5 elements must have one element per equality class and answer membership/lookup/removal for every "
                 "representative; the same through interpreted ==, !=, in, m[k], remove, set/list difference."),
        "note": _TB + "; NaN/inf excluded; functions/streams/nodes are not data",
    },
    "C07": {
        "technique": "runtime monitoring: reference total-order oracle on all same-kind pairs/triples of adversarial pools, derived operators, compare/min/max programs, postconditions on sorted() (ordered, stable permutation) and on set/map-key enumeration",
        "text": ("Irreflexivity, asymmetry, transitivity, trichotomy and agreement with the reference order on all pairs/triples of "
                 "pools of numbers, strings over an alphabet straddling the quote character, booleans, dates and lists; "
                 "<=, >, >=, compare, less/greater, min, max consistent with <; sorted() output an ordered stable permutation "
                 "(witnessed by [key, tag] pairs and 1 vs 1.0) with and without key/cmp; set and map keys enumerated ascending."),
        "note": _TB + "; mixed-kind comparison (text fallback) deliberately not asserted",
    },
    "C08": {
        "technique": "runtime monitoring: closed-loop oracle str(v) -> interpret -> v' (equal, same type, same text), rendering agreement across construction orders, numeral/quote shape predicates, invariant hook on every ValueInt construction",
        "text": ("Data values to depth 3 over an adversarial alphabet, an exhaustive decimal magnitude ladder (every exponent "
                 "-324..308 x 5 mantissas x sign) and powers of two: the rendering is identical for differently ordered "
                 "constructions, ints render as integer numerals, decimals with a fractional part, strings re-lex to one token, "
                 "and the rendered text evaluates back to an equal value of the same type with the same text. One recorded "
                 "finding: patterns whose text cannot be spelled as a //..// literal."),
        "note": _TB + "; dates/functions/objects are not data literals; sets mixing 1 and 1.0 excluded from the canonical-text clause",
    },
    "C13": {
        "technique": "runtime monitoring: boundary observer + step clock (two-stage budget) over the exhaustive forms x pool and callees x pool-tuples matrix; outcome classes value / runtime error with language value / host exception / hang",
        "text": ("~100 operator/indexing/slicing/iteration/spread/destructuring/predicate forms and every function of the legacy "
                 "environment (thorough: also the non-legacy environment and all 14 modules via Module->f) are called with all "
                 "tuples of a 28-value pool up to arity 2 (quick; sampled triples) / 3 (thorough), plus named arguments; every "
                 "execution must end as a value or a CklRuntimeError carrying a language value within the step budget; a few "
                 "CLI runs confirm the host survives. No expected values, so no model can be wrong."),
        "note": _TB + "; pool magnitudes < 2^31; a case over 300k steps is re-run under 150M steps before it is called a hang",
    },
}

UNCLAIMED = {}
