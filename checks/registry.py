"""Which properties are claimed in MANIFEST.json (bin/mkmanifest reads this).

A property is listed in CLAIMED only once both tiers of its check have run
silent on the current tree."""

HOOK_COMMITS = []

NOTES = ("Runtime-monitoring verification of checkerlang-py. ./bin/check <id> --tier quick|thorough; "
         "exit 0 held / 1 VIOLATION / 2 INCONCLUSIVE (never folded into the others). Seeds via VERIF_SEED. "
         "Every verdict is 'held on the executions observed'; see DESIGN.md for oracles, workloads and limits. "
         "known_findings.json lists recorded findings (by mechanism) and the fix: commits made in /repo.")

_TB = ("trusted base: the harness (lib/cklmon, lib/cklgen) and the reference models in lib/cklref (written from the "
       "property statements, independent of ckl); CPython 3.12 sys.monitoring for the logical step clock")

CLAIMED = {
    "C01": {
        "technique": "runtime monitoring: boundary observer + sys.monitoring step clock around parse_script over generated hostile texts; same-text re-parse and cross-hash-seed process comparison",
        "text": ("Every generated source text (exhaustive token strings <= 2 over the full token alphabet, <= 3 over a reduced one, "
                 "grammar-derived programs with all prefixes/deletions and sampled insertions, character noise incl. Unicode digits, 31 kinds of nesting to depth 40 and in steps to 3000, single tokens to 20000 characters) must "
                 "parse to a node tree or a CklSyntaxError with message, file name and line >= 1, within 20000+3000/char logical "
                 "steps, identically on a second parse and under other hash seeds. Held on ~2*10^5 (quick) / ~3*10^6 (thorough) "
                 "observed parses; says nothing about texts not generated."),
        "note": _TB + "; messages/columns are not compared",
    },
    "C02": {
        "technique": "runtime monitoring: differential oracle over interpreted expressions (flat vs fully parenthesised rendering, chain vs conjunction, reference expression semantics, exact-integer laws, predicate negation), exhaustive over operator pairs",
        "text": ("For every ordered pair of binary operators over 17 typed/ill-typed operand triples, every unary/binary combination, "
                 "every `is [not]` predicate form x 32 pool values, plus random typed trees to depth 5 with tick() probes: the "
                 "interpreter's outcome must agree between the flat and the parenthesised text, with the reference semantics "
                 "(value, kind, error, short-circuit order), and with exact integer laws up to 10^30. The same trees with "
                 "literals turned into variables are evaluated as one function body over successive argument tuples and over "
                 "operands reached by in-place edits; single-operator chains of 65-120 operands stay left-associative. Exploration with an "
                 "exhaustive operator-pair core."),
        "note": _TB + "; % on negative operands only by law; which way values of different kinds compare (kinds first, in the order their texts begin) and membership-next-to-arithmetic not asserted",
    },
    "C06": {
        "technique": "runtime monitoring: reference-equality oracle (exact rationals, structural) on all pairs/triples of adversarial value pools at the ckl.values API and through programs, plus always-on law wrappers on every __eq__/__hash__ call",
        "text": ("All ordered pairs of a ~130..220-value adversarial pool per shard (numerics around 2^53/2^63/10^30, 1 vs 1.0, "
                 "nested containers, twins built in other orders) are compared with the reference equality; every real-equal "
                 "pair must hash equal; every (a==b, b==c) triple must give a==c; sets/maps built in every insertion order of "
                 "<= 5 elements must have one element per equality class and answer membership/lookup/removal for every "
                 "representative; the same through interpreted ==, !=, in, m[k], remove, set/list difference."),
        "note": _TB + "; NaN/inf excluded; functions/streams/nodes are not data",
    },
    "C07": {
        "technique": "runtime monitoring: reference total-order oracle on all same-kind pairs/triples of adversarial pools, derived operators, compare/min/max programs, postconditions on sorted() (ordered, stable permutation) and on set/map-key enumeration",
        "text": ("Irreflexivity, asymmetry, transitivity, trichotomy and agreement with the reference order on all pairs/triples of "
                 "pools of numbers, strings over an alphabet straddling the quote character, booleans, dates and lists; "
                 "<=, >, >=, compare, less/greater, min, max consistent with <; sorted() output an ordered stable permutation "
                 "(witnessed by [key, tag] pairs and 1 vs 1.0) with and without key/cmp; set and map keys enumerated ascending."),
        "note": _TB + "; which way values of different kinds compare is not asserted here (C12 asserts that the order across kinds is a strict total one)",
    },
    "C08": {
        "technique": "runtime monitoring: closed-loop oracle str(v) -> interpret -> v' (equal, same type, same text), rendering agreement across construction orders, numeral/quote shape predicates, invariant hook on every ValueInt construction",
        "text": ("Data values to depth 3 over an adversarial alphabet, an exhaustive decimal magnitude ladder (every exponent "
                 "-324..308 x 5 mantissas x sign) and powers of two: the rendering is identical for differently ordered "
                 "constructions, ints render as integer numerals, decimals with a fractional part, strings re-lex to one token, "
                 "and the rendered text evaluates back to an equal value of the same type with the same text. One recorded "
                 "finding: patterns whose text cannot be spelled as a //..// literal."),
        "note": _TB + "; dates/functions/objects are not data literals; sets mixing 1 and 1.0 excluded from the canonical-text clause",
    },
    "C13": {
        "technique": "runtime monitoring: boundary observer + step clock (two-stage budget) over the exhaustive forms x pool and callees x pool-tuples matrix; outcome classes value / runtime error with language value / host exception / hang",
        "text": ("~100 operator/indexing/slicing/iteration/spread/destructuring/predicate forms and every function of the legacy "
                 "environment (thorough: also the non-legacy environment and all 14 modules via Module->f) are called with all "
                 "tuples of a 28-value pool up to arity 2 (quick; sampled triples) / 3 (thorough), plus named arguments; every "
                 "execution must end as a value or a CklRuntimeError carrying a language value within the step budget; a few "
                 "CLI runs confirm the host survives. No expected values, so no model can be wrong."),
        "note": _TB + "; pool magnitudes < 2^31; a case over 300k steps is re-run under 150M steps before it is called a hang",
    },
}

CLAIMED.update({
    "C03": {
        "technique": "runtime monitoring: reference-evaluator differential on result + in-program event log of generated scoping/binding programs; online scope-event invariants (hooks on Environment.newEnv, FuncLambda.execute, NodeAssign, NodeDef); adequacy by wrong-semantics modes",
        "text": ("Generated programs (nested definitions to 4 levels over a colliding 5-name pool, closures outliving their frame, "
                 "mutation after capture, def in blocks/branches, recursion, forward references, every call form and every binding "
                 "error, method calls along prototype chains) must give the reference evaluator's result and event log; every call "
                 "frame observed must be a fresh child of the function's defining scope, no assignment may create a binding. A "
                 "program counts only if one of 12 wrong semantics (dynamic scoping, global def, shared frames, ...) would change "
                 "what it observes; every wrong mode must be discriminated in every run. Metamorphic shard in non-legacy mode: "
                 "whatever names the requirer defines or has in scope where `require` runs, module functions return what they "
                 "return without them."),
        "note": _TB + "; the reference evaluator (lib/cklref/refeval.py) is the oracle; loop variables are outside this property",
    },
    "C04": {
        "technique": "runtime monitoring: reference-evaluator differential on the event log of visited iterations, evaluated conditions and chosen branches; model-free comprehension-vs-explicit-loop agreement on the real interpreter; adequacy by wrong-semantics modes",
        "text": ("Loop nests <= 3 over lists, sets, maps (keys/values/entries, destructured) and strings with break/continue/return "
                 "planted at random positions (also through finally parts and called functions), while with logged conditions, "
                 "if/elif/else with logged conditions must match the reference log; every comprehension form must yield the "
                 "elements of its explicit loop. Nine wrong semantics (break exits all loops, continue as break, return leaves "
                 "only the loop, condition tested once, unsorted iteration, filter ignored, also-for stops short, ...) must each "
                 "be discriminated by some program of the run."),
        "note": _TB,
    },
    "C05": {
        "technique": "runtime monitoring: offline exactly-once checker over the in-program event log (every block activation followed by exactly one finally run), reference-evaluator differential for handler choice / block value / error value, CLI children",
        "text": ("Nests <= 4 of do/catch/finally inside functions and loops with `error v` for every data kind (1 vs 1.0, [1] vs "
                 "[1.0], sets, maps, NULL) and runtime errors at every statement position, several catch clauses, raising catch "
                 "expressions, raising handlers and finally parts, exits by return/break/continue through finally: the log must "
                 "show exactly one finally per activation (model-free) and equal the reference log and outcome. Eight wrong "
                 "semantics must each be discriminated in every run. Errors raised inside functions that ~28 library functions "
                 "and evaluation forms call back, x 12 error values, in both interpreter flavours: matching catch, other "
                 "catches passed, finally once, value at the host; errors passing through calls holding unrenderable arguments."),
        "note": _TB + "; control statements directly inside a finally part: only exactly-once and containment",
    },
    "C09": {
        "technique": "runtime monitoring: sys.addaudithook + stat-family wrappers armed around secure-mode programs (forbidden events recorded and blocked), canary tree diff, reachability walk classified by what each native does in a non-secure calibration run, strace -f syscall cross-check of a secure CLI child",
        "text": ("In secure interpreters (legacy and not): bind_native for every name the binder knows and every Func* class name "
                 "with and without alias, then use of whatever got bound; every function reachable by name or through any "
                 "bundled module called with all tuples (arity <= 2/3) of canary paths and commands; 28 syntactic ways to define "
                 "or shadow checkerlang_secure_mode x 9 re-binding attempts executed where the shadow is live; hostile user "
                 "modules. No forbidden audit/stat event, no canary change, flag still TRUE, `run` undefined, no OS-touching "
                 "native reachable. Thorough adds an strace run: no syscall on the canary, no execve."),
        "note": _TB + "; a channel invisible to audit events, stat wrappers and strace would go unnoticed; get_env/stdin/clock are outside the statement",
    },
    "C10": {
        "technique": "runtime monitoring: reference session model against the outcome of every interpret call of exhaustively enumerated command histories (one interpreter, two interleaved interpreters, caller-supplied environment) plus a probe sequence; the same model against the printed output of the interactive host ckl.repl fed random histories in a child process",
        "text": ("All histories of length <= 3 (quick) / <= 4 (thorough) over 18 commands on one interpreter, all histories <= 2 / <= 3 "
                 "over two interleaved interpreters, all histories <= 2 with one host environment passed to every call, random "
                 "histories to length 30, random histories through the REPL; after each, 19 probes (bindings, function, module state, load log). Every call outcome "
                 "and probe must equal the reference session: definitions before a failure persist, nothing after it exists, "
                 "failed requires leave no residue, interpreters do not see each other."),
        "note": _TB + "; messages are not compared, only value / error value / syntax error",
    },
    "C11": {
        "technique": "runtime monitoring: reference module model against ls() differences around every require, module-object members, values read through every imported name, a load log written by module top-level code, shared counters and blindness probes compiled into generated modules",
        "text": ("Random acyclic graphs of <= 5 user modules (public/underscore definitions, functions, state, colliding names, "
                 "requires between modules in every form) and importer programs of 2..6 requires (plain, as, import [a, b as c] "
                 "incl. underscore/missing names, unqualified, string/variable specs, repeated, inside functions): each require "
                 "must bind exactly the predicted names, each module's top level must run once, all importers share one "
                 "instance, module code must not see importer variables; cyclic graphs must raise."),
        "note": _TB + "; names a module itself imported count as its public symbols",
    },
    "C12": {
        "technique": "runtime monitoring: output agreement of each program across child processes with different PYTHONHASHSEED, across 20 in-process shuffles of the raw iteration order of every set/map (container subclasses injected into ValueSet/ValueMap), and across permutations of literal element order",
        "text": ("~100 enumeration paths (for, comprehensions x keys/values/entries, conversions, spread into calls and list literals, "
                 "destructuring, rendering, interpolation, set arithmetic, every collection-taking library function, seeded "
                 "random/choice/sample) x generated sets/maps of strings and mixed scalars: (stdout, result, error value) must "
                 "be identical under 8/32 hash seeds, 20 raw-order shuffles and 6 literal permutations."),
        "note": _TB + "; the shuffle makes every raw iteration visibly random, the seed sweep is the ground-truth confirmation",
    },
    "C14": {
        "technique": "runtime monitoring: model-free agreement of result, event log, output and error value between the canonical rendering of each generated program and >= 10 token-preserving re-renderings (layout, comments, CR/LF, redundant parentheses, trailing semicolons, literal spellings)",
        "text": ("Programs of the C02-C05 generators x 11 renderings each (all-LF, all-CRLF, tabs, comment after every token, dense, "
                 "5 random; hex/binary/underscored ints, both quote styles with equivalent escapes, != vs <>, redundant "
                 "parentheses around pure expressions, optional trailing semicolons) must all behave like the canonical text."),
        "note": _TB + "; only token-preserving changes are made; positions/messages not compared",
    },
    "C15": {
        "technique": "runtime monitoring: reference sequence model against interpreted expressions, exhaustive over all sequences <= 4/6 over 3 symbols x all indices -9..9 (single and pairs) x all parts <= 2, plus identities and random long sequences with indices to 2^40",
        "text": ("Every string over {a,b,c} and list over {0,1,'a'} of length <= 4 (quick, 242 sequences) / <= 6 (thorough, 2186) with "
                 "every index and index pair in [-9,9]: s[i], s[i to j], s[i to *], substr, sublist, find/find_last with and "
                 "without start, insert_at, delete_at, element assignment and the split/length/concatenation identities must "
                 "equal the model (element or runtime error; clamped, never wrapping runs)."),
        "note": _TB + "; negative start for find/find_last and empty parts not asserted",
    },
    "C16": {
        "technique": "runtime monitoring: argument-snapshot monitor wrapped around ckl.nodes.invoke (content + container identity before/after every library call) on the C13 call matrix and operator forms; heap-model differential for alias programs; independence probes for ~55 constructing operations",
        "text": ("Every library callee x pool tuples and every operator/indexing form x pool with each argument snapshotted around "
                 "the call: only append/append_all/insert_at/delete_at/remove/put may change an argument, and only their "
                 "target; random alias programs (3..5 variables sharing lists/sets/maps/objects, nesting, mutation through "
                 "variables, parameters, closures, paths) must end in the reference heap's state; mutating the result of each "
                 "constructing operation must not change its inputs and vice versa."),
        "note": _TB + "; same-type conversions, identity and selectors return their argument by design; streams are identity-only",
    },
    "C17": {
        "technique": "runtime monitoring: reference calendar (datetime.date.toordinal) against to_oa_date/to_date on every calendar day 0001..9999 (thorough, exhaustive) and through interpreted date arithmetic; icontract postcondition on the real to_date active throughout",
        "text": ("Every day 0001-01-01..9999-12-31 (thorough: all 3 652 059; quick: every 1 Jan, 31 Dec, 28/29 Feb, 1 Mar + stride): "
                 "day number == ordinal difference, to_date inverts it, consecutive days differ by 1; int/decimal/date "
                 "conversions inverse, (d+n)-n == d, (d+n)-d == n for boundary days x 26 offsets; 20k-200k random times of day "
                 "round-trip to the second."),
        "note": _TB + "; results outside 0001-01-01..9999-12-31 are not representable and not asserted; dates before the year 1000 are compared with ==, not by their text",
    },
    "C18": {
        "technique": "runtime monitoring: host-string oracles and mutual-consistency laws over interpreted calls on adversarial strings; template model for s()/sprintf()",
        "text": ("Strings to length 12 over separators, regex metacharacters, both quotes, backslash, TAB/LF/CR, braces, non-ASCII: "
                 "split/join inverse both ways with escaped separators, replace == host replace, reverse involution, "
                 "upper/lower/trim idempotent, contains <=> find >= 0 <=> in <=> host containment, starts_with/ends_with vs "
                 "substr, length additivity, chr/ord, words/lines, and s()/sprintf() templates with hostile argument text."),
        "note": _TB + "; Python str semantics are the definition of case mapping and trimming",
    },
    "C19": {
        "technique": "runtime monitoring: host-language reference definitions (set algebra under reference equality, textbook list functions, statistics by sorted index, exact integers, 32-bit words) against interpreted calls; permutation invariance over every permutation of lists <= 5",
        "text": ("union/intersection/diff/symmetric_diff, unique (first representative, by type), reverse, flatten, zip, enumerate, "
                 "range/interval, chunks, pairs, grouped, filter, map_list, reduce, sum, prod on random collections with "
                 "duplicates and 1 next to 1.0, in the legacy environment and module-qualified; mean/median/median_low/"
                 "median_high/min/max over all permutations; pow/gcd/lcm/abs/sign to 2^80; bitwise functions on 20 boundary "
                 "words x counts 0..40."),
        "note": _TB + "; sign of gcd/lcm not fixed; chunks of an empty sequence not asserted",
    },
    "C20": {
        "technique": "runtime monitoring: the layout renderer's own placement record (line of every token) against Token.pos of the real scanner and the positions carried by syntax errors, runtime errors and stack-trace entries of programs with one planted fault; module faults; CLI output",
        "text": ("Grammar-derived token streams in 7 layouts and every token kind x follower kind: every token's line and file name; "
                 "programs with exactly one planted fault (9 runtime faults at 5 nesting shapes, a division by zero three calls "
                 "deep with stack trace, 7 syntax faults) whose construct is on one line while the rest is laid out randomly; "
                 "the same inside user modules (mod:<name> + module line); CLI (Line ...)."),
        "note": _TB + "; columns and messages are not claimed",
    },
})

UNCLAIMED = {}

# workloads added while validating against independently written breaking changes (DESIGN 10.5, rounds 6-8)
_ADDED = {
    "C01": " Also: every text over the characters numbers are written with to length 5/6; program text inside error messages written with format-active characters; all two-character continuations of \\x. A syntax error's line lies inside the text and moves down with it when the same text is parsed further down (far position first).",
    "C02": " Also: compound assignment through every kind of place; operands beyond the range of a double (10^1000) in the exactness laws.",
    "C03": " Also: 22 assignment forms x 15 scopes (the nearest enclosing binding, and only that one, changes; with no binding the statement fails and defines nothing); defaults with effects for parameters that were passed; functions that outlive the interpret call (and the host environment) they were made in. Lookups under scopes of another shape: conditional local defs over all call / loop / closure sequences of length <= 4; method calls whose member is found on a module at the end of a prototype chain (depth 0..3).",
    "C04": " Also: return from 11 body shapes in functions handed to 37 callback-taking forms; loop variables that have the name of a variable of the same scope; strings with combining marks as loop sources. A comprehension's result is a value of its own: 6 forms x 9 sources x every in-place edit of result and source, compared with the explicit loop.",
    "C05": " Also: errors raised by module code in 9 require forms; handlers and finally parts inside a recursive function around the recursive call itself. Blocks with an empty body (finally and handlers still behave).",
    "C06": " Also: the same value along up to 14 construction routes (literals, parse_json, eval of its text, library assembly, edit sequences, documented defs), every pair interchangeable under 14 observations.",
    "C07": " Also: ints beyond the range of a double next to the largest doubles; years with fewer than four digits.",
    "C08": " Also: values produced by conversions of host data and by library calls (payload types, numeral grammar, round trip), and values that hold one container object more than once.",
    "C09": " Also: every value handed back to a secure program is walked for OS-touching function values; first use in a fresh process with the monitor armed while the interpreter is built; flag attempts in the interpreter's own scope. Both command-line hosts with the secure switch in 10 spellings/positions, a fresh child each: every attempt refused, canary unchanged.",
    "C10": " Also: function definitions after the failure point of a failing call; loops over a session variable's name; functions made under a host environment and used by later calls. Two interpreters of one process (16 mode pairs, fresh and used) reach no common list/set/map/object from their scopes, and in-place edits of what one was born with do not show in the other.",
    "C11": " Also: module names that end in the characters of the extension, with and without .ckl in all four combinations. One require site given another module name each time (all sequences <= 4 over 3 modules x 4 forms x loop/function); one interpreter called from host scopes of 5 shapes in sampled orders.",
    "C12": " Also: all enumeration forms of one set agree with list(); the language's < is a strict total order on every generated collection and on whole pools (mixed kinds, objects with equal text); non-int seeds.",
    "C13": " Also: every call made must return a value of the language (wrapper on invoke); a sample of calls as whole one-expression programs; containers that hold themselves; _proto_ circles entered from outside.",
    "C15": " Also: elements with the same host payload but another kind; key functions undefined beyond the hit; strings with combining marks; length against addressed positions; the same insert_at / delete_at call site evaluated again. Slice results edited in place (empty ones included) leave the sequence and later slices as they were.",
    "C16": " Also: the operands of every operator / indexing / iteration form snapshotted directly before and after; new() on a three-level class chain. Every probe's result edited in each way it takes, next to values built before and after by the same expression; index-like argument triples for every 3-ary callee.",
    "C17": " Domain 0001-01-01..9999-12-31 (3 652 059 days).",
    "C18": " Also: placeholders laid out with blanks, tabs and line breaks.",
    "C19": " Also: NULL, booleans and mixed kinds as elements of the set operations; gcd / lcm to 2^400 and on neighbouring Fibonacci numbers.",
    "C20": " Also: number-like words among the token samples; modules first loaded under an alias keep their own name. Module names ending in letters of the file suffix.",
}
for _k, _v in _ADDED.items():
    CLAIMED[_k]["text"] = CLAIMED[_k]["text"] + _v
