"""Which properties are claimed in MANIFEST.json (bin/mkmanifest reads this).

A property is listed in CLAIMED only once both tiers of its check have run
silent on the current tree."""

HOOK_COMMITS = []

NOTES = ("Runtime-monitoring verification of checkerlang-py. ./bin/check <id> --tier quick|thorough; "
         "exit 0 held / 1 VIOLATION / 2 INCONCLUSIVE. Seeds via VERIF_SEED. See DESIGN.md.")

CLAIMED = {}

UNCLAIMED = {}
