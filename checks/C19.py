"""C19 — collection and numeric library functions satisfy their defining laws.

Deciding monitor: host-language reference definitions (set algebra under the
reference equality, textbook list functions, statistics by sorted index, exact
integer arithmetic, 32-bit words) against the outcome of interpreted calls,
and permutation invariance of the statistics."""
import itertools
import math

from cklmon import core
from cklmon.core import observe
from cklgen import values as gv
from cklref import refvalue as rv

RULE = ("random lists/sets of <= 8 ints, dyadic decimals and short strings with duplicates and 1 next to 1.0; "
        "every permutation of lists <= 5 for the statistics; ints up to 2^400 and neighbouring Fibonacci numbers up to F(651) for gcd/lcm/abs/sign; all 32-bit "
        "boundary words x shift/rotate counts 0..40 for the bitwise functions; both the legacy environment and "
        "module-qualified calls (List->reverse, Set->union, ...); a case is one (function, arguments) tuple; "
        "non-trivial = non-empty collection or non-zero number; distinct by tuple")
ASSUMPTIONS = [
    "sign of gcd/lcm for negative arguments is not fixed (absolute values compared)",
    "bit_shift_left is checked only where the result fits 32 bits; pow with a negative int exponent is excluded",
    "chunks of an empty list/string is not asserted (the definition does not say [] or [[]])",
    "decimals are dyadic so that float sums are order-independent",
]
SHARD_TIMEOUT = {"quick": 300, "thorough": 3000}
WORDS = [0, 1, 2, 3, 0x7F, 0x80, 0xFF, 0x100, 0x7FFF, 0x8000, 0xFFFF, 0x10000, 0x7FFFFFFF, 0x80000000,
         0xFFFFFFFE, 0xFFFFFFFF, 0x12345678, 0xDEADBEEF, 0xAAAAAAAA, 0x55555555]


def plan(tier, seed):
    n = 8 if tier == "quick" else 32
    return ([{"kind": "collections", "n": 500 if tier == "quick" else 4000} for _ in range(n)]
            + [{"kind": "stats", "n": 60 if tier == "quick" else 600} for _ in range(n // 2)]
            + [{"kind": "numeric", "n": 1500 if tier == "quick" else 20000} for _ in range(n // 4)]
            + [{"kind": "histories", "n": 300 if tier == "quick" else 3000} for _ in range(2 if tier == "quick" else 8)]
            + [{"kind": "bits"}]
            + [{"kind": "qualified", "modules": [m], "sample": 40 if tier == "quick" else None} for m in (["List", "Set", "Stat", "Math"], ["Bitwise", "Core", "Type", "Predicate"])][0:2])


def gen_elem(r, kind):
    if kind == "int":
        return ("int", r.randint(0, 4))
    if kind == "dec":
        return ("dec", r.randint(-8, 8) / 4.0)
    if kind == "str":
        return ("str", r.choice(["a", "b", "ab", "", "c"]))
    if kind == "mix":
        return r.choice([("int", 1), ("dec", 1.0), ("int", 2), ("dec", 2.0), ("dec", 0.5), ("int", 0)])
    if kind == "eqlist":
        # equal values with different spellings, nested: [1] == [1.0], [0.0] == [-0.0]
        return r.choice([("list", (("int", 1),)), ("list", (("dec", 1.0),)), ("list", (("dec", 0.0),)), ("list", (("dec", -0.0),)), ("list", (("int", 0),)),
                         ("list", (("list", (("int", 2),)),)), ("list", (("list", (("dec", 2.0),)),)), ("list", (("int", 1), ("int", 2))), ("list", (("dec", 1.0), ("int", 2)))])
    if kind == "obj":
        # equal objects are distinct values that compare equal (also: lists of them, maps)
        return r.choice([("obj", (("a", ("int", r.randint(0, 2))),)), ("obj", (("a", ("int", 1)), ("b", ("str", "x")))), ("obj", ()),
                         ("map", ((("str", "a"), ("int", r.randint(0, 2))),)), ("list", (("obj", (("a", ("int", r.randint(0, 1))),)),))])
    if kind == "odd":
        # NULL, booleans and values of different kinds are elements like any other
        return r.choice([rv.NULL, rv.NULL, ("bool", True), ("bool", False), ("int", 1), ("int", 0), ("str", "a"), ("str", ""), ("str", "NULL"), ("dec", 1.0),
                         ("list", (rv.NULL,)), ("list", ())])
    raise ValueError(kind)


def gen_list(r, kind=None, maxlen=8, minlen=0):
    kind = kind or r.choice(["int", "int", "dec", "str", "mix"])
    n = r.randint(minlen, maxlen)
    if maxlen == 8 and r.random() < 0.04:
        n = r.choice([17, 33, 65, 100, 129, 200, 400])        # beyond the thresholds of size-dependent paths
        if kind == "int":
            return [("int", r.randint(0, 60)) for _ in range(n)]
        if kind == "str":
            return [("str", "s%d" % r.randint(0, 60)) for _ in range(n)]
    return [gen_elem(r, kind) for _ in range(n)]


def L(items):
    return ("list", tuple(items))


def SET(items):
    return ("set", tuple(rv.dedupe(items)))


def src(av, r=None):
    return gv.to_source(av, r, r)


class Runner:
    def __init__(self, ctx):
        import ckl.functions
        self.ctx = ctx
        self.it, self.out = core.new_interpreter(secure=True, legacy=True)
        self.it2, self.out2 = core.new_interpreter(secure=True, legacy=False)
        self.Env = ckl.functions.Environment

    def ev(self, text, modern=False):
        env = self.Env()
        it = self.it2 if modern else self.it
        return observe(lambda: it.interpret(text, "c19", env), 1500000)

    def expect(self, text, want, key, case, exact_kinds=True, modern=False):
        """want: abstract value or the string 'ERR'"""
        ctx = self.ctx
        o = self.ev(text, modern)
        ctx.count("evaluations")
        ctx.case(case)
        if o.kind in ("host", "hang", "syntax"):
            ctx.violation("C19:%s:escape" % key, "%s -> %s %s" % (text, o.kind, core.safe_str(o.exc, 100)), {"src": text})
            return None
        if o.kind == "rte":
            if want != "ERR":
                ctx.violation("C19:%s:raises" % key, "%s -> %s, definition says %s" % (text, core.safe_str(o.exc, 100), short(want)), {"src": text})
            return None
        if want == "ERR":
            ctx.violation("C19:%s:no-error" % key, "%s evaluated to %s, definition says error" % (text, core.safe_str(o.value, 80)), {"src": text})
            return None
        try:
            got = gv.abstract(o.value)
        except gv.NotData:
            got = ("?", o.value.type())
        ok = rv.ref_eq(got, want) if got[0] != "?" else False
        if ok and exact_kinds and not same_kinds(got, want):
            ok = False
        if not ok:
            ctx.violation("C19:" + key, "%s evaluated to %s, definition says %s" % (text, core.safe_str(o.value, 100), short(want)), {"src": text})
        return got


def short(av):
    try:
        return gv.to_source(av)[:120]
    except Exception:  # noqa
        return repr(av)[:120]


def same_kinds(a, b):
    if a[0] != b[0]:
        return False
    if a[0] == "list":
        return len(a[1]) == len(b[1]) and all(same_kinds(x, y) for x, y in zip(a[1], b[1]))
    return True


def run_collections(spec, ctx):
    R = Runner(ctx)
    r = ctx.rng
    for i in range(spec["n"]):
        kind = r.choice(["int", "int", "dec", "str", "mix", "obj", "eqlist", "odd"])
        a, b = gen_list(r, kind), gen_list(r, kind)
        ctx.count("element_kind:" + kind)
        as_set = r.random() < 0.5
        b_as_set = r.random() < 0.5
        A = src(SET(a) if as_set else L(a), r)
        B = src(SET(b) if b_as_set else L(b), r)
        # set algebra (reference: classes under ref_eq)
        inter = [x for x in rv.dedupe(a) if rv.member(x, b)]
        diffab = [x for x in rv.dedupe(a) if not rv.member(x, b)]
        diffba = [x for x in rv.dedupe(b) if not rv.member(x, a)]
        modern = (i % 4 == 0)
        pre = "require Set; " if modern else ""
        q = "Set->" if modern else ""
        R.expect("%s%sunion(%s, %s)" % (pre, q, A, B), SET(a + b), "union", ("union", A, B), exact_kinds=False, modern=modern)
        R.expect("%s%sintersection(%s, %s)" % (pre, q, A, B), SET(inter), "intersection", ("inter", A, B), exact_kinds=False, modern=modern)
        R.expect("%s%sdiff(%s, %s)" % (pre, q, A, B), SET(diffab), "diff", ("diff", A, B), exact_kinds=False, modern=modern)
        R.expect("%s%ssymmetric_diff(%s, %s)" % (pre, q, A, B), SET(diffab + diffba), "symmetric_diff", ("symd", A, B), exact_kinds=False, modern=modern)
        # the operands held in variables and used for all four in turn: each call sees them as they were
        R.expect("%sdef sa = %s; def sb = %s; [%sunion(sa, sb), %sintersection(sa, sb), %sdiff(sa, sb), %ssymmetric_diff(sa, sb), %sunion(sa, sb), sa, sb]" % (
            "require Set; " if modern else "", A, B, q, q, q, q, q),
            L([SET(a + b), SET(inter), SET(diffab), SET(diffab + diffba), SET(a + b), SET(a) if as_set else L(a), SET(b) if b_as_set else L(b)]),
            "set-algebra:operands-reused", ("reused", A, B), exact_kinds=False, modern=modern)
        # list utilities
        la = src(L(a), r)
        lb = src(L(b), r)
        pre = "require List; " if modern else ""
        q = "List->" if modern else ""
        R.expect("%s%sunique(%s)" % (pre, q, la), L(rv.dedupe(a)), "unique", ("unique", la), modern=modern)
        R.expect("%s%s(%s)" % (pre, "List->reverse" if modern else "reverse_list", la), L(list(reversed(a))), "reverse", ("reverse", la), modern=modern)
        nested = [L(gen_list(r, kind, 3)) if r.random() < 0.4 else gen_elem(r, kind) for _ in range(r.randint(0, 5))]
        if r.random() < 0.3 and nested:
            # elements that are neither lists nor scalars of the list's kind stay elements: sets, maps, NULL, nested-nested lists
            nested[r.randrange(len(nested))] = r.choice([rv.NULL, SET(gen_list(r, kind, 3)), ("map", ((("int", 1), ("int", 2)),)),
                                                         L([L(gen_list(r, kind, 2))]), ("str", "ab"), ("bool", True)])
        flat = []
        for x in nested:
            if x[0] == "list":
                flat.extend(x[1])
            else:
                flat.append(x)
        R.expect("%s%sflatten(%s)" % (pre, q, src(L(nested), r)), L(flat), "flatten", ("flatten", src(L(nested))), modern=modern)
        R.expect("zip(%s, %s)" % (la, lb), L([L([x, y]) for x, y in zip(a, b)]), "zip", ("zip", la, lb))
        R.expect("enumerate(%s)" % la, L([L([("int", j), x]) for j, x in enumerate(a)]), "enumerate", ("enum", la))
        if a:
            n = r.randint(1, 4)
            R.expect("chunks(%s, %d)" % (la, n), L([L(a[j:j + n]) for j in range(0, len(a), n)]), "chunks", ("chunks", la, n))
        R.expect("pairs(%s)" % la, L([L([x, y]) for x, y in zip(a, a[1:])]), "pairs", ("pairs", la))
        groups = []
        for x in a:
            if groups and rv.ref_eq(groups[-1][0], x):
                groups[-1].append(x)
            else:
                groups.append([x])
        R.expect("%s%sgrouped(%s)" % (pre, q, la), L([L(g) for g in groups]), "grouped", ("grouped", la), modern=modern)
        if kind in ("int", "dec", "mix"):
            thr = r.choice([0, 1, 2])
            R.expect("%s%sfilter(%s, fn(x) x > %d)" % (pre, q, la, thr), L([x for x in a if rv.num(x) > thr]), "filter", ("filter", la, thr), modern=modern)
            R.expect("%s%smap_list(%s, fn(x) x * 2)" % (pre, q, la), L([dbl(x) for x in a]), "map_list", ("map", la), modern=modern)
            if a:
                R.expect("%s%sreduce(%s, fn(p, q) p - q)" % (pre, q, la), fold(a, lambda p, q_: sub(p, q_)), "reduce", ("reduce", la), modern=modern)
                R.expect("%s%sprod(%s)" % (pre, q, la), fold(a, mul), "prod", ("prod", la), modern=modern)
            R.expect("sum(%s)" % la, fold([("int", 0)] + a, add), "sum", ("sum", la))
            if a and r.random() < 0.3:
                # NULL is an element like any other: the folding function sees it, and what it returns is the accumulator
                an = list(a)
                an.insert(r.randrange(len(an) + 1), rv.NULL)
                lan = src(L(an), r)

                def pair(p_, q_):
                    return L([p_, q_])
                R.expect("%s%sreduce(%s, fn(p, q) [p, q])" % (pre, q, lan), fold(an, pair), "reduce:null-element", ("reduce-null", lan), modern=modern)
                R.expect("%s%sreduce(%s, fn(p, q) if q == 2 then NULL else [p, q])" % (pre, q, la),
                         fold(a, lambda p_, q_: rv.NULL if rv.ref_eq(q_, ("int", 2)) else L([p_, q_])), "reduce:null-result", ("reduce-nullres", la), modern=modern)
                R.expect("%s%sprod(%s)" % (pre, q, lan), rv.NULL, "prod:null-element", ("prod-null", lan), modern=modern)
    # ranges
    for _ in range(40):
        x, y, st = r.randint(-5, 8), r.randint(-5, 8), r.choice([1, 1, 2, 3, -1, -2])
        R.expect("range(%d)" % max(x, 0), L([("int", k) for k in range(max(x, 0))]), "range1", ("range", x))
        R.expect("range(%d, %d)" % (x, y), L([("int", k) for k in range(x, y)]), "range2", ("range", x, y))
        R.expect("range(%d, %d, %d)" % (x, y, st), L([("int", k) for k in range(x, y, st)]), "range3", ("range", x, y, st))
        R.expect("interval(%d, %d)" % (x, y), L([("int", k) for k in range(x, y + 1)]), "interval", ("interval", x, y))
    ctx.sample({"example": "symmetric_diff(<<1, 2.0>>, [2, 3])"})


def add(p, q):
    if p[0] == "int" and q[0] == "int":
        return ("int", p[1] + q[1])
    return ("dec", float(p[1]) + float(q[1]))


def sub(p, q):
    if p[0] == "int" and q[0] == "int":
        return ("int", p[1] - q[1])
    return ("dec", float(p[1]) - float(q[1]))


def mul(p, q):
    if p[0] == "int" and q[0] == "int":
        return ("int", p[1] * q[1])
    return ("dec", float(p[1]) * float(q[1]))


def dbl(x):
    return mul(x, ("int", 2))


def fold(items, f):
    acc = items[0]
    for x in items[1:]:
        acc = f(acc, x)
    return acc


def run_stats(spec, ctx):
    R = Runner(ctx)
    r = ctx.rng
    for _ in range(spec["n"]):
        kind = r.choice(["int", "dec", "int"])
        n = r.randint(1, 5)
        a = [("int", r.randint(-6, 9)) if kind == "int" else ("dec", r.randint(-16, 16) / 4.0) for _ in range(n)]
        srt = sorted(a, key=lambda x: x[1])
        total = fold(a, add)
        want_mean = ("dec", float(total[1]) / n)
        if n % 2 == 1:
            want_median = srt[n // 2]
        else:
            want_median = ("dec", (float(srt[n // 2 - 1][1]) + float(srt[n // 2][1])) / 2.0)
        want_low = srt[(n - 1) // 2]
        want_high = srt[n // 2]
        perms = list(itertools.permutations(a))
        if len(perms) > 24:
            perms = r.sample(perms, 24)
        for p in perms:
            lp = src(L(list(p)))
            R.expect("mean(%s)" % lp, want_mean, "mean", ("mean", lp))
            R.expect("median(%s)" % lp, want_median, "median", ("median", lp))
            R.expect("median_low(%s)" % lp, want_low, "median_low", ("median_low", lp))
            R.expect("median_high(%s)" % lp, want_high, "median_high", ("median_high", lp))
            R.expect("min(%s)" % lp, srt[0], "min-list", ("min", lp), exact_kinds=True)
            R.expect("max(%s)" % lp, srt[-1], "max-list", ("max", lp), exact_kinds=True)
        # the same functions through the module object in a non-legacy interpreter
        lp = src(L(list(a)))
        for fn, want in (("mean", want_mean), ("median", want_median), ("median_low", want_low), ("median_high", want_high)):
            R.expect("require Stat; Stat->%s(%s)" % (fn, lp), want, fn + ":qualified", (fn + "-q", lp), modern=True)
        # geometric and harmonic mean of positive numbers, both flavours, all permutations agree (to rounding)
        pos = [("int", abs(x[1]) + 1) if x[0] == "int" else ("dec", abs(x[1]) + 0.5) for x in a]
        gm = math.exp(sum(math.log(float(x[1])) for x in pos) / n)
        hm = n / sum(1.0 / float(x[1]) for x in pos)
        for p in perms[:6]:
            pp = [("int", abs(x[1]) + 1) if x[0] == "int" else ("dec", abs(x[1]) + 0.5) for x in p]
            lpp = src(L(pp))
            for text, want, modern in (("geometric_mean(%s)" % lpp, gm, False), ("harmonic_mean(%s)" % lpp, hm, False),
                                       ("require Stat; Stat->geometric_mean(%s)" % lpp, gm, True), ("require Stat; Stat->harmonic_mean(%s)" % lpp, hm, True)):
                o = R.ev(text, modern)
                ctx.count("evaluations")
                ctx.case(("approx", text))
                key = text.split("(")[0].replace("require Stat; Stat->", "") + (":qualified" if modern else "")
                if o.kind != "value" or o.value.type() not in ("decimal", "int"):
                    ctx.violation("C19:%s:raises" % key, "%s -> %s" % (text, core.safe_str(o.exc if o.kind != "value" else o.value, 100)), {"src": text})
                elif abs(float(o.value.value) - want) > 1e-9 * max(1.0, abs(want)):
                    ctx.violation("C19:" + key, "%s evaluated to %s, definition says %r" % (text, o.value, want), {"src": text})
        ctx.count("permutation_groups")
    ctx.sample({"example": "median_low([3, 1, 2]) over all permutations"})


def run_numeric(spec, ctx):
    R = Runner(ctx)
    r = ctx.rng
    mags = [3, 10, 100, 2**16, 2**31, 2**53, 2**64, 2**80, 2**128, 2**200, 2**400]
    fib = [0, 1]
    while len(fib) < 700:
        fib.append(fib[-1] + fib[-2])
    for i in range(spec["n"]):
        a = r.choice([1, -1]) * r.randint(0, r.choice(mags))
        b = r.choice([1, -1]) * r.randint(0, r.choice(mags))
        if i % 9 == 1:
            # neighbouring Fibonacci numbers: the longest run of Euclid's algorithm for their size
            j = r.choice([10, 50, 90, 140, 200, 300, 450, 650])
            f = r.randint(1, 5)
            a, b = r.choice([(fib[j] * f, fib[j + 1] * f), (fib[j + 1] * f, fib[j] * f)])
            ctx.count("euclid_worst_cases")
        k = i % 6
        if k == 0:
            x, y = r.randint(-12, 12), r.randint(0, 45)
            if i % 12 == 0:
                x, y = r.choice([(3, 40), (2, 64), (10, 30), (7, 23), (-3, 39), (2, 100), (0, 0), (1, 1000)])
            R.expect("pow(%d, %d)" % (x, y), ("int", x ** y), "pow-int", ("pow", x, y))
        elif k == 1:
            o = R.ev("gcd(%d, %d)" % (a, b))
            ctx.count("evaluations")
            ctx.case(("gcd", a, b))
            if o.kind != "value" or o.value.type() != "int" or abs(o.value.value) != math.gcd(a, b):
                ctx.violation("C19:gcd", "gcd(%d, %d) -> %s, |gcd| should be %d" % (a, b, core.safe_str(o.value if o.kind == "value" else o.exc), math.gcd(a, b)), {})
        elif k == 2:
            if a == 0 or b == 0:
                continue
            o = R.ev("lcm(%d, %d)" % (a, b))
            ctx.count("evaluations")
            ctx.case(("lcm", a, b))
            want = abs(a * b) // math.gcd(a, b)
            if o.kind != "value" or o.value.type() != "int" or abs(o.value.value) != want:
                ctx.violation("C19:lcm", "lcm(%d, %d) -> %s, |lcm| should be %d" % (a, b, core.safe_str(o.value if o.kind == "value" else o.exc), want), {})
        elif k == 3:
            R.expect("abs(%d)" % a, ("int", abs(a)), "abs-int", ("abs", a))
            d = r.randint(-40, 40) / 8.0
            R.expect("abs(%s)" % gv.dec_literal(d), ("dec", abs(d)), "abs-dec", ("abs", d))
        elif k == 4:
            R.expect("sign(%d)" % a, ("int", (a > 0) - (a < 0)), "sign-int", ("sign", a))
            d = r.randint(-40, 40) / 8.0
            R.expect("sign(%s)" % gv.dec_literal(d), ("int", (d > 0) - (d < 0)), "sign-dec", ("sign", d))
        else:
            x, y = r.randint(0, 2**32 - 1), r.randint(0, 2**32 - 1)
            R.expect("bit_and(%d, %d)" % (x, y), ("int", x & y), "bit_and", ("and", x, y))
            R.expect("bit_or(%d, %d)" % (x, y), ("int", x | y), "bit_or", ("or", x, y))
            R.expect("bit_xor(%d, %d)" % (x, y), ("int", x ^ y), "bit_xor", ("xor", x, y))
            R.expect("bit_not(%d)" % x, ("int", ~x & 0xFFFFFFFF), "bit_not", ("not", x))


def rotl(a, n):
    n %= 32
    return ((a << n) | (a >> (32 - n))) & 0xFFFFFFFF


def rotr(a, n):
    n %= 32
    return ((a >> n) | (a << (32 - n))) & 0xFFFFFFFF


def run_bits(spec, ctx):
    R = Runner(ctx)
    for a in WORDS:
        R.expect("bit_not(%d)" % a, ("int", ~a & 0xFFFFFFFF), "bit_not", ("not", a))
        for b in WORDS:
            R.expect("bit_and(%d, %d)" % (a, b), ("int", a & b), "bit_and", ("and", a, b))
            R.expect("bit_or_32(%d, %d)" % (a, b), ("int", a | b), "bit_or", ("or", a, b))
            R.expect("bit_xor(%d, %d)" % (a, b), ("int", a ^ b), "bit_xor", ("xor", a, b))
        for n in range(0, 41):
            R.expect("bit_rotate_left(%d, %d)" % (a, n), ("int", rotl(a, n)), "bit_rotate_left:%s" % ("n<32" if n < 32 else "n>=32"), ("rotl", a, n))
            R.expect("bit_rotate_right(%d, %d)" % (a, n), ("int", rotr(a, n)), "bit_rotate_right:%s" % ("n<32" if n < 32 else "n>=32"), ("rotr", a, n))
            R.expect("bit_shift_right(%d, %d)" % (a, n), ("int", a >> n), "bit_shift_right", ("shr", a, n))
            if (a << n) < 2**32:
                R.expect("bit_shift_left(%d, %d)" % (a, n), ("int", a << n), "bit_shift_left", ("shl", a, n))
    ctx.extras["bits_done"] = True
    ctx.sample({"example": "bit_rotate_left(0x80000000, 1) == 1"})


def run_histories(spec, ctx):
    """set functions on sets that were read, then edited (same size or not), then used: the functions must see the
    set as it is now"""
    R = Runner(ctx)
    r = ctx.rng
    for _ in range(spec["n"]):
        items = r.sample(range(1, 12), r.randint(2, 5))
        other = r.sample(range(1, 12), r.randint(1, 4))
        cur = list(items)
        steps = ["def s = << %s >>" % ", ".join(map(str, items)), "def t = << %s >>" % ", ".join(map(str, other))]
        steps.append(r.choice(["union(s, <<>>)", "string(s)", "[x for x in s]", "list(s)", "for x in s do x end", "length(s)", "intersection(s, t)"]))
        for _k in range(r.randint(1, 4)):
            if cur and r.random() < 0.5:
                x = r.choice(cur)
                cur.remove(x)
                steps.append("remove(s, %d)" % x)
            else:
                x = r.choice([v for v in range(1, 14) if v not in cur])
                cur.append(x)
                steps.append(r.choice(["append(s, %d)", "s !> append(%d)"]) % x)
            if r.random() < 0.3:
                steps.append(r.choice(["string(s)", "list(s)", "diff(s, t)"]))
        pre = "; ".join(steps) + "; "
        A, B = [("int", v) for v in cur], [("int", v) for v in other]
        R.expect(pre + "union(s, t)", SET(A + B), "history:union", ("hist-union", pre), exact_kinds=False)
        R.expect(pre + "intersection(s, t)", SET([x for x in A if rv.member(x, B)]), "history:intersection", ("hist-inter", pre), exact_kinds=False)
        R.expect(pre + "diff(s, t)", SET([x for x in A if not rv.member(x, B)]), "history:diff", ("hist-diff", pre), exact_kinds=False)
        R.expect(pre + "symmetric_diff(t, s)", SET([x for x in A if not rv.member(x, B)] + [x for x in B if not rv.member(x, A)]),
                 "history:symmetric_diff", ("hist-symd", pre), exact_kinds=False)
        R.expect(pre + "sorted(s)", L(sorted(A, key=lambda v: v[1])), "history:sorted", ("hist-sorted", pre))
        R.expect(pre + "[sum(list(s)), length(s), min(list(s)), max(list(s))]" if cur else pre + "[sum(list(s)), length(s)]",
                 L([("int", sum(cur)), ("int", len(cur))] + ([("int", min(cur)), ("int", max(cur))] if cur else [])),
                 "history:aggregate", ("hist-agg", pre))
        ctx.count("history_programs")
    ctx.sample({"history": pre + "diff(s, t)"})


def run_shard(spec, ctx):
    if spec["kind"] == "qualified":
        from cklmon import matrix
        return matrix.unbound_names_in_modules(ctx, "C19", spec["modules"][0], sample=spec.get("sample"))
    if spec["kind"] == "histories":
        return run_histories(spec, ctx)
    {"collections": run_collections, "stats": run_stats, "numeric": run_numeric, "bits": run_bits}[spec["kind"]](spec, ctx)


def finalize(merged, tier):
    c = merged["counters"]
    reasons = []
    if c.get("history_programs", 0) == 0:
        reasons.append("no set-history programs")
    if c.get("qualified_calls", 0) == 0:
        reasons.append("no module-qualified calls in a non-legacy interpreter")
    if c.get("evaluations", 0) == 0 or c.get("permutation_groups", 0) == 0:
        reasons.append("no evaluations / permutation groups")
    if not any(ex.get("bits_done") for spec, ex in merged["shard_docs"]):
        reasons.append("bitwise sweep incomplete")
    extra = {"exhaustive_subspace": "%d boundary words x counts 0..40 for shifts/rotates; all word pairs for and/or/xor" % len(WORDS)}
    return extra, reasons
