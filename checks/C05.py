"""C05 — errors reach the nearest matching handler and finally runs exactly once.

Deciding monitors: (a) model-free offline checker over the in-program event
log: every activation of a block (logged 'B<id> enter') is followed by exactly
one run of its finally part before the next activation / the end; (b) reference
evaluator agreement on handler choice, block value, statements not run after
the failing one, and the error value leaving interpret; (c) CLI children."""
import os
import subprocess
import sys

from cklmon import core, differ
from cklgen import programs

RULE = ("programs: nests <= 4 of do/catch/finally inside functions and loops; `error v` for v of every data kind "
        "(incl. 1 vs 1.0, [1] vs [1.0], sets, maps, NULL, '' and 'ERROR') and runtime errors (undefined name, division by "
        "zero, bad call) at every statement position; several catch clauses, catch all, catch expressions that raise; "
        "handlers and finally parts that raise; exits by return/break/continue through finally parts; a case is one "
        "program; non-trivial = some wrong-semantics mode (finally skipped on error/return/break, finally twice, finally "
        "also in the handler, first catch always wins, matching by text, block continues after the error) changes its "
        "observable outcome; distinct by program text")
ASSUMPTIONS = [
    "control statements written directly in a finally part: only the exactly-once count and containment are asserted",
    "messages are not compared, only error values",
]
MODES = ["finally_skipped_on_error", "finally_skipped_on_return", "finally_skipped_on_break", "finally_twice",
         "finally_in_handler", "first_catch_wins", "catch_by_text", "continue_after_error"]
SHARD_TIMEOUT = {"quick": 300, "thorough": 3000}


def plan(tier, seed):
    n = 12 if tier == "quick" else 48
    return [{"kind": "errors", "n": 500 if tier == "quick" else 3200} for _ in range(n)] + [{"kind": "cli"}]


def finally_exactly_once(rlog):
    """offline checker over the event log; returns None or a description"""
    open_blocks = {}      # block id -> pending activations not yet finalised
    for tag, val in rlog:
        if tag[0] != "str":
            continue
        t = tag[1]
        if val == ("str", "enter") and t.startswith("B"):
            if open_blocks.get(t, 0) > 0:
                # re-entered before its finally ran: only legal if the block has no finally part
                pass
            open_blocks[t] = open_blocks.get(t, 0) + 1
        elif t.startswith("FB") and val == ("str", "finally"):
            b = t[1:]
            if open_blocks.get(b, 0) <= 0:
                return "finally of %s ran without a pending activation (ran twice?)" % b
            open_blocks[b] -= 1
    return open_blocks


def blocks_with_finally(prog, out=None):
    if out is None:
        out = set()
    if isinstance(prog, tuple):
        if prog and prog[0] == "block":
            stmts, catches, fin = prog[1], prog[2], prog[3]
            bid = None
            if stmts and stmts[0][0] == "call" and stmts[0][2][1][1] == ("lit", ("str", "enter")):
                bid = stmts[0][2][0][1][1][1]
            if bid and any(f[0] == "call" and f[2][0][1] == ("lit", ("str", "F" + bid)) for f in fin):
                out.add(bid)
        for x in prog:
            blocks_with_finally(x, out)
    elif isinstance(prog, list):
        for x in prog:
            blocks_with_finally(x, out)
    return out


def run_shard(spec, ctx):
    if spec["kind"] == "cli":
        return run_cli(ctx)
    R = differ.RealRunner(secure=True, legacy=True)
    r = ctx.rng
    for _ in range(spec["n"]):
        g = programs.Gen(r)
        prog = g.error_program()
        real, rlog, text = differ.diff_check(ctx, R, prog, "C05", MODES, "errors")
        if real[0] not in ("value", "error"):
            continue
        res = finally_exactly_once(rlog)
        ctx.count("finally_log_checks")
        if isinstance(res, str):
            ctx.violation("C05:finally-not-exactly-once:extra", "%s\n-> %s" % (text[:1500], res), {"src": text})
        else:
            withfin = blocks_with_finally(prog)
            pending = {b: n for b, n in res.items() if n > 0 and b in withfin}
            ctx.count("block_activations", sum(1 for t, v in rlog if v == ("str", "enter")))
            if pending:
                ctx.violation("C05:finally-not-exactly-once:missing", "%s\n-> blocks left without running finally: %r" % (text[:1500], pending), {"src": text})


def run_cli(ctx):
    cases = [("error 'boom'", "boom"), ("error 12", "12"), ("do error 'inner' finally println('fin') end", "inner"),
             ("def f() error [1, 2]; f()", "[1, 2]"), ("1 / 0", "ERROR"), ("nosuch", "ERROR")]
    for i, (src, want) in enumerate(cases):
        path = os.path.join(os.getcwd(), "c05_%d.ckl" % i)
        with open(path, "w") as f:
            f.write(src)
        p = subprocess.run([sys.executable, "-B", "-m", "ckl.run", path], capture_output=True, text=True, timeout=60)
        ctx.count("cli_runs")
        ctx.case(("cli", src))
        lines = [l for l in p.stdout.splitlines() if "(Line" in l]
        if "Traceback" in p.stderr or p.returncode != 0:
            ctx.violation("C05:cli-traceback", "%r: exit %d, %s" % (src, p.returncode, p.stderr[-200:]), {"src": src})
        elif not lines or not lines[0].startswith(want + ":"):
            ctx.violation("C05:cli-error-value", "%r printed %r, expected the error value %r first" % (src, p.stdout[:200], want), {"src": src})
        if "fin" in src and "fin\n" not in p.stdout:
            ctx.violation("C05:cli-finally", "%r: finally output missing: %r" % (src, p.stdout[:200]), {"src": src})


def finalize(merged, tier):
    c = merged["counters"]
    reasons = []
    if c.get("harness_syntax_errors", 0):
        reasons.append("%d generated programs did not parse (harness defect)" % c["harness_syntax_errors"])
    for k in ("differential_comparisons", "finally_log_checks", "block_activations", "cli_runs"):
        if c.get(k, 0) == 0:
            reasons.append("monitor counter %s is zero" % k)
    disc = {m: c.get("discriminates_" + m, 0) for m in MODES}
    for m, n in disc.items():
        if n == 0:
            reasons.append("no program discriminates wrong-semantics mode %s" % m)
    return {"wrong_mode_discrimination": disc}, reasons
