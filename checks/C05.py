"""C05 — errors reach the nearest matching handler and finally runs exactly once.

Deciding monitors: (a) model-free offline checker over the in-program event
log: every activation of a block (logged 'B<id> enter') is followed by exactly
one run of its finally part before the next activation / the end; (b) reference
evaluator agreement on handler choice, block value, statements not run after
the failing one, and the error value leaving interpret; (c) CLI children."""
import os
import subprocess
import sys

from cklmon import core, differ
from cklgen import programs

RULE = ("programs: nests <= 4 of do/catch/finally inside functions and loops; `error v` for v of every data kind "
        "(incl. 1 vs 1.0, [1] vs [1.0], sets, maps, NULL, '' and 'ERROR') and runtime errors (undefined name, division by "
        "zero, bad call) at every statement position; several catch clauses, catch all, catch expressions that raise; "
        "handlers and finally parts that raise; exits by return/break/continue through finally parts; a case is one "
        "program; non-trivial = some wrong-semantics mode (finally skipped on error/return/break, finally twice, finally "
        "also in the handler, first catch always wins, matching by text, block continues after the error) changes its "
        "observable outcome; distinct by program text")
ASSUMPTIONS = [
    "control statements written directly in a finally part: only the exactly-once count and containment are asserted",
    "messages are not compared, only error values",
]
MODES = ["finally_skipped_on_error", "finally_skipped_on_return", "finally_skipped_on_break", "finally_twice",
         "finally_in_handler", "first_catch_wins", "catch_by_text", "continue_after_error"]
SHARD_TIMEOUT = {"quick": 300, "thorough": 3000}


def plan(tier, seed):
    n = 12 if tier == "quick" else 48
    return ([{"kind": "errors", "n": 500 if tier == "quick" else 3200} for _ in range(n)] + [{"kind": "cli"}]
            + [{"kind": "callbacks", "legacy": lg} for lg in (True, False)])


def finally_exactly_once(rlog):
    """offline checker over the event log; returns None or a description"""
    open_blocks = {}      # block id -> pending activations not yet finalised
    for tag, val in rlog:
        if tag[0] != "str":
            continue
        t = tag[1]
        if val == ("str", "enter") and t.startswith("B"):
            if open_blocks.get(t, 0) > 0:
                # re-entered before its finally ran: only legal if the block has no finally part
                pass
            open_blocks[t] = open_blocks.get(t, 0) + 1
        elif t.startswith("FB") and val == ("str", "finally"):
            b = t[1:]
            if open_blocks.get(b, 0) <= 0:
                return "finally of %s ran without a pending activation (ran twice?)" % b
            open_blocks[b] -= 1
    return open_blocks


def blocks_with_finally(prog, out=None):
    if out is None:
        out = set()
    if isinstance(prog, tuple):
        if prog and prog[0] == "block":
            stmts, catches, fin = prog[1], prog[2], prog[3]
            bid = None
            if stmts and stmts[0][0] == "call" and stmts[0][2][1][1] == ("lit", ("str", "enter")):
                bid = stmts[0][2][0][1][1][1]
            if bid and any(f[0] == "call" and f[2][0][1] == ("lit", ("str", "F" + bid)) for f in fin):
                out.add(bid)
        for x in prog:
            blocks_with_finally(x, out)
    elif isinstance(prog, list):
        for x in prog:
            blocks_with_finally(x, out)
    return out


# library functions that call back into the program: {F} is the callback's body
CALLBACK_FORMS = [
    ("sorted-cmp", "sorted([2, 1, 3], cmp = fn(a, b) {F})"), ("sorted-key", "sorted([2, 1, 3], key = fn(a) {F})"),
    ("map_list", "map_list([1, 2], fn(x) {F})"), ("filter", "filter([1, 2], fn(x) {F})"), ("reduce", "reduce([1, 2, 3], fn(a, b) {F})"),
    ("for_each", "for_each([1, 2], fn(x) {F})"), ("grouped", "grouped([1, 2], fn(x) {F})"), ("find-key", "find([[1], [2]], 2, key = fn(x) {F})"),
    ("find_last-key", "find_last([[1], [2]], 2, key = fn(x) {F})"), ("apply", "apply(fn(x) {F}, [1])"), ("curry", "curry(fn(a, b) {F}, 1)(2)"),
    ("min-key", "min([2, 1], key = fn(x) {F})"), ("max-key", "max([2, 1], key = fn(x) {F})"), ("any", "any([1, 2], fn(x) {F})"),
    ("all", "all([1, 2], fn(x) {F})"), ("grep-key", "grep(['a'], //a//, key = fn(x) {F})"), ("pipe", "[1, 2] !> map_list(fn(x) {F})"),
    ("interpolation", "def cb() {F}; s('<{cb()}>')"), ("sprintf", "def cb() {F}; sprintf('{0}', cb())"), ("eval", "def cb() {F}; eval('cb()')"),
    ("unique-key", "unique([1, 2], fn(x) {F})"), ("sum-key", "sum([1, 2], fn(x) {F})"), ("compose", "compose(fn(x) {F}, fn(x) x)(1)"),
    ("method", "def o = <*m = fn(self) {F}*>; o->m()"), ("default-arg", "def f(a = {F}) a; f()"), ("comprehension", "[{F} for x in [1, 2]]"),
    ("set-comprehension", "<<{F} for x in [1, 2]>>"), ("map-comprehension", "<<<x => {F} for x in [1, 2]>>>"), ("spread-arg", "identity(...[{F}])"),
    ("for-input", "for line in str_input('a\\nb') do {F} end"), ("comprehension-input", "[{F} for line in str_input('a\\nb')]"),
    ("for-string", "for ch in 'ab' do {F} end"), ("for-set", "for x in <<1, 2>> do {F} end"), ("for-map-entries", "for [k, v] in entries <<<1 => 2>>> do {F} end"),
    ("for-object", "for k in keys <*a = 1*> do {F} end"), ("while", "def go = TRUE; while go do go = FALSE; {F} end"),
    ("if-condition", "if {F} then 1 else 2"), ("index-expr", "[1, 2][do {F}; 0 end]"), ("map-literal-key", "<<<({F}) => 1>>>"),
    ("finally-part", "do 1 finally {F} end"), ("catch-handler", "do error 'inner-x' catch 'inner-x' {F} end"),
    ("nested-sorted", "sorted([[2], [1]], key = fn(l) sorted(l, cmp = fn(a, b) {F}))"), ("nested-sorted2", "sorted([[2, 3], [1, 4]], key = fn(l) sorted(l, cmp = fn(a, b) {F}))"),
]
MODULE_FORMS = [
    ("module-top-level", "require {MOD}"), ("module-top-level-as", "require {MOD} as M_"), ("module-top-level-import", "require {MOD} import [before_]"),
    ("module-top-level-unqualified", "require {MOD} unqualified"), ("module-required-by-module", "require {MOD}outer"),
    ("module-function", "{LATE}require {MOD}; {MOD}->run_()"), ("module-function-unqualified", "{LATE}require {MOD} unqualified; run_()"),
    ("module-in-function", "def ld_() do require {MOD} end; ld_()"), ("module-in-callback", "map_list([1], fn(x) do require {MOD}; x end)"),
]
RECURSION_CASES = [
    ("catch-around-returned-call", "def rec(n) do if n == 0 then error {V}; do return rec(n - 1) catch {V} 'caught in frame ' + string(n) end end; rec(3)", "'caught in frame 1'"),
    ("catch-around-call", "def rec(n) do if n == 0 then error {V}; do rec(n - 1) catch {V} 'caught in frame ' + string(n) end end; rec(3)", "'caught in frame 1'"),
    ("finally-around-returned-call", "def order = []; def rec(n) do if n == 0 then do append(order, 'raise'); error {V} end; do return rec(n - 1) finally append(order, n) end end; "
     "do rec(3) catch {V} order end", "['raise', 1, 2, 3]"),
    ("finally-around-returned-call-no-error", "def order = []; def rec(n) do if n == 0 then do append(order, 'bottom'); return 'done' end; do return rec(n - 1) finally append(order, n) end end; "
     "[rec(3), order]", "['done', ['bottom', 1, 2, 3]]"),
    ("catch-and-finally-around-returned-call", "def order = []; def rec(n) do if n == 0 then error {V}; do return rec(n - 1) catch {V} do append(order, 'c' + string(n)); 'caught' end finally append(order, 'f' + string(n)) end end; "
     "[rec(2), order]", "['caught', ['c1', 'f1', 'f2']]"),
    ("mutual-recursion", "def even(n) do if n == 0 then error {V}; do return odd(n - 1) catch {V} 'even caught at ' + string(n) end end; def odd(n) do if n == 0 then error {V}; return even(n - 1) end; even(4)",
     "'even caught at 2'"),
    ("handler-calls-itself", "def rec(n) do if n == 0 then 'bottom' else do error {V} catch {V} return rec(n - 1) end end; rec(3)", "'bottom'"),
    ("accumulator-style", "def rec(n, acc) do if n == 0 then error {V}; do return rec(n - 1, acc + n) catch {V} acc end end; rec(4, 0)", "9"),
]
CALLBACK_ERRVALS = ["'E1'", "'ERROR'", "12", "1.5", "[1, 'a']", "<<1>>", "<<<'k' => 1>>>", "TRUE", "NULL", "date('20200101')", "//a//", "''"]


def run_callbacks(spec, ctx):
    """an error raised inside a function that a library function (or an evaluation form) calls back is the program's
    error: it reaches the nearest handler whose value equals it, passes handlers for other values, and leaves the
    interpreter with its own value when nothing matches"""
    import ckl.functions
    legacy = spec["legacy"]
    it, out = core.new_interpreter(secure=True, legacy=legacy)
    pre = "" if legacy else "require List unqualified; require String unqualified; require Core unqualified; "

    def ev(src):
        env = ckl.functions.Environment()
        return core.observe(lambda: it.interpret(pre + src, "c05cb", env), 2000000)
    # module code is a place an error can come from as well: top-level code of a required module, of a module that
    # module requires, a function of a loaded module; every instantiation gets module files of its own
    import tempfile
    import ckl.values as V
    moddir = tempfile.mkdtemp(prefix="cklverif-C05-mods-")
    mp = V.ValueList()
    mp.addItem(V.ValueString(moddir))
    it.base_environment.put("checkerlang_module_path", mp)
    modcount = [0]

    def with_modules(form, body):
        """-> program text; writes the module files the form names"""
        if "{MOD}" not in form:
            return form.replace("{F}", body)
        modcount[0] += 1
        m = "c05m%d%s" % (modcount[0], "l" if legacy else "n")
        with open(os.path.join(moddir, m + ".ckl"), "w") as f:
            f.write("def before_ = 1;\n%s;\ndef after_ = 2;\ndef run_() do %s end;\n" % (body if "{LATE}" not in form else "0", body))
        with open(os.path.join(moddir, m + "outer.ckl"), "w") as f:
            f.write("def outer_before_ = 1;\nrequire %s;\ndef outer_after_ = 2;\n" % m)
        return form.replace("{LATE}", "").replace("{MOD}", m)
    usable = []
    for name, form in CALLBACK_FORMS + MODULE_FORMS:
        # a form counts only if, with a harmless body, it evaluates and the body really ran
        ok_ = False
        for harmless in ("1", "TRUE"):
            if "{MOD}" in form:
                # (module code cannot see the program's `hits`: usable if the harmless variant loads)
                o = ev(with_modules(form, harmless))
                ok_ = ok_ or o.kind == "value"
                continue
            o = ev("def hits = []; %s; length(hits)" % form.replace("{F}", "do append(hits, 1); %s end" % harmless))
            if o.kind == "value" and core.safe_str(o.value) not in ("0", "NULL"):
                ok_ = True
        if ok_:
            usable.append((name, form))
        else:
            ctx.count("callback_forms_not_available")
            ctx.note("callback form not usable (%s): %s" % ("legacy" if legacy else "non-legacy", name))
    ctx.extras["callback_forms_usable"] = len(usable)
    for name, form in usable:
        for vi, v in enumerate(CALLBACK_ERRVALS):
            other = CALLBACK_ERRVALS[(vi + 1) % len(CALLBACK_ERRVALS)]
            def fresh():
                return with_modules(form, "error %s" % v)
            cases = [("matching-catch", "do %s catch %s 'handled' end" % (fresh(), v), ("value", "'handled'")),
                     ("passes-other-catch", "do do %s catch %s 'wrong' end catch %s 'outer' end" % (fresh(), other, v), ("value", "'outer'")),
                     ("finally-once", "def n = 0; do do %s finally n += 1 end catch %s n end" % (fresh(), v), ("value", "1")),
                     ("statements-after-do-not-run", "def ran = 'no'; do do %s; ran = 'yes' end catch %s ran end" % (fresh(), v), ("value", "'no'")),
                     ("uncaught", fresh(), ("error", None))]
            for tag, src, want in cases:
                o = ev(src)
                ctx.count("callback_error_programs")
                ctx.case(("callback", legacy, name, v, tag), nontrivial=True)
                if want[0] == "value":
                    ok = o.kind == "value" and core.safe_str(o.value, 60) == want[1]
                else:
                    ok = o.kind == "rte"
                    if ok:
                        # the error value that left the interpreter equals v
                        env = ckl.functions.Environment()
                        env.put("escaped", o.exc.value)
                        o2 = core.observe(lambda: it.interpret("escaped == (%s)" % v, "c05cb", env), 200000)
                        ok = o2.kind == "value" and core.safe_str(o2.value) == "TRUE"
                if not ok:
                    ctx.violation("C05:callback-error:%s:%s" % (name, tag),
                                  "%s -> %s %s (expected %s)" % (src, o.kind, core.safe_str(o.value if o.kind == "value" else getattr(o.exc, "value", o.exc), 100),
                                                                want[1] or "an error carrying " + v), {"src": src})
    # handlers and finally parts *inside* a recursive function, around the recursive call itself (also when that call is
    # the operand of `return`): the error of the inner call meets the innermost frame's handler first, and every
    # frame's finally part runs once, after the inner call has ended
    for vi, v in enumerate(CALLBACK_ERRVALS):
        for name, tmpl, want in RECURSION_CASES:
            src = tmpl.replace("{V}", v)
            o = ev(src)
            ctx.count("recursion_error_programs")
            ctx.case(("recursion", legacy, name, v), nontrivial=True)
            got = core.safe_str(o.value, 200) if o.kind == "value" else "%s: %s" % (o.kind, core.safe_str(getattr(o.exc, "value", o.exc), 100))
            if got != want:
                ctx.violation("C05:recursion:%s" % name, "%s -> %s (expected %s)" % (src, got, want), {"src": src})
    import shutil
    shutil.rmtree(moddir, ignore_errors=True)


def run_shard(spec, ctx):
    if spec["kind"] == "cli":
        return run_cli(ctx)
    if spec["kind"] == "callbacks":
        return run_callbacks(spec, ctx)
    R = differ.RealRunner(secure=True, legacy=True)
    r = ctx.rng
    for _ in range(spec["n"]):
        g = programs.Gen(r)
        prog = g.error_program()
        real, rlog, text = differ.diff_check(ctx, R, prog, "C05", MODES, "errors")
        if real[0] not in ("value", "error"):
            continue
        res = finally_exactly_once(rlog)
        ctx.count("finally_log_checks")
        if isinstance(res, str):
            ctx.violation("C05:finally-not-exactly-once:extra", "%s\n-> %s" % (text[:1500], res), {"src": text})
        else:
            withfin = blocks_with_finally(prog)
            pending = {b: n for b, n in res.items() if n > 0 and b in withfin}
            ctx.count("block_activations", sum(1 for t, v in rlog if v == ("str", "enter")))
            if pending:
                ctx.violation("C05:finally-not-exactly-once:missing", "%s\n-> blocks left without running finally: %r" % (text[:1500], pending), {"src": text})


def run_cli(ctx):
    cases = [("error 'boom'", "boom"), ("error 12", "12"), ("do error 'inner' finally println('fin') end", "inner"),
             ("def f() error [1, 2]; f()", "[1, 2]"), ("1 / 0", "ERROR"), ("nosuch", "ERROR")]
    for i, (src, want) in enumerate(cases):
        path = os.path.join(os.getcwd(), "c05_%d.ckl" % i)
        with open(path, "w") as f:
            f.write(src)
        p = subprocess.run([sys.executable, "-B", "-m", "ckl.run", path], capture_output=True, text=True, timeout=60)
        ctx.count("cli_runs")
        ctx.case(("cli", src))
        lines = [l for l in p.stdout.splitlines() if "(Line" in l]
        if "Traceback" in p.stderr or p.returncode != 0:
            ctx.violation("C05:cli-traceback", "%r: exit %d, %s" % (src, p.returncode, p.stderr[-200:]), {"src": src})
        elif not lines or not lines[0].startswith(want + ":"):
            ctx.violation("C05:cli-error-value", "%r printed %r, expected the error value %r first" % (src, p.stdout[:200], want), {"src": src})
        if "fin" in src and "fin\n" not in p.stdout:
            ctx.violation("C05:cli-finally", "%r: finally output missing: %r" % (src, p.stdout[:200]), {"src": src})


def finalize(merged, tier):
    c = merged["counters"]
    reasons = []
    if c.get("harness_syntax_errors", 0):
        reasons.append("%d generated programs did not parse (harness defect)" % c["harness_syntax_errors"])
    for k in ("differential_comparisons", "finally_log_checks", "block_activations", "cli_runs", "callback_error_programs"):
        if c.get(k, 0) == 0:
            reasons.append("monitor counter %s is zero" % k)
    disc = {m: c.get("discriminates_" + m, 0) for m in MODES}
    for m, n in disc.items():
        if n == 0:
            reasons.append("no program discriminates wrong-semantics mode %s" % m)
    return {"wrong_mode_discrimination": disc}, reasons
