"""C11 — require binds exactly the requested names and evaluates each module once.

Deciding monitor: a reference module model (exports = non-underscore top-level
names incl. re-exported imports, nested module objects skipped in the object
form; each module evaluated at most once per interpreter; one shared instance)
against what generated importer programs observe: ls() differences around every
require, members of module objects, values read through every imported name,
a load log appended to by module top-level code, shared counters, and probes
compiled into the modules that try to read importer variables."""
import os

from cklmon import core
from cklmon.core import observe
from cklgen import values as gv

RULE = ("random acyclic graphs of <= 5 user modules in a scratch directory on the module path (public and underscore "
        "definitions, functions, state, colliding names, requires between modules in every form), plus cyclic graphs; "
        "importer programs of 2..6 requires using `require m`, `as`, `import [a, b as c]` (incl. underscore and missing "
        "names), `unqualified`, string and variable module specs, repeated and from inside functions, with members "
        "planted on module objects and module variables rebound by module code between the requires; a case is one "
        "(module graph, importer program); non-trivial = >= 2 requires touching a module that is already cached or "
        "nested; distinct by module sources + program text")
ASSUMPTIONS = [
    "names a module itself imported count as its public symbols (the base environment is built on that re-export)",
    "messages are not compared",
    "the module path is placed in the base environment (module code cannot see session variables - itself part of the property)",
]
SHARD_TIMEOUT = {"quick": 400, "thorough": 3000}


def plan(tier, seed):
    n = 12 if tier == "quick" else 48
    return [{"kind": "graphs", "n": 40 if tier == "quick" else 220, "progs": 6} for _ in range(n)] + [{"kind": "cycles", "n": 20 if tier == "quick" else 100}]


# ---------------------------------------------------------------------------
# module graph generator + model
# ---------------------------------------------------------------------------

class Mod:
    def __init__(self, name):
        self.name = name
        self.items = []     # ("def", name, const) ("fn", name, const) ("req", target, form, arg)
        self.exports = None


def gen_graph(r, tag):
    n = r.randint(2, 5)
    mods = [Mod("%sm%d" % (tag, i)) for i in range(n)]
    const = [1000]

    def c():
        const[0] += 1
        return const[0]
    for i, m in enumerate(mods):
        # requires of later modules (acyclic), placed among the definitions
        items = []
        items.append(("def", "%s_v" % m.name, c()))
        items.append(("fn", "%s_f" % m.name, c()))
        if r.random() < 0.7:
            items.append(("def", "shared_name", c()))
        if r.random() < 0.5:
            items.append(("fn", "shared_fn", c()))
        if r.random() < 0.8:
            items.append(("def", "_%s_private" % m.name, c()))
        if r.random() < 0.4:
            items.append(("fn", "_hidden", c()))
        later = mods[i + 1:]
        for t in r.sample(later, min(len(later), r.choice([0, 1, 1, 2]))):
            items.append(gen_require(r, t, mods))
        r.shuffle(items)
        m.items = items
    return mods


def gen_require(r, target, mods):
    form = r.choice(["plain", "plain", "as", "unqualified", "import", "import", "string", "string-ext"])
    if form == "as":
        return ("req", target.name, "as", r.choice(["alias_a", "alias_b", "x1"]))
    if form == "import":
        cands = ["%s_v" % target.name, "%s_f" % target.name, "shared_name", "shared_fn", "_%s_private" % target.name, "nosuch_symbol", "_hidden"]
        picks = r.sample(cands, r.randint(1, 4))
        spec = [(p, r.choice([None, None, "ren_" + p.strip("_")])) for p in picks]
        return ("req", target.name, "import", spec)
    return ("req", target.name, form, None)


def req_source(item):
    _, target, form, arg = item
    if form == "plain":
        return "require %s" % target
    if form == "as":
        return "require %s as %s" % (target, arg)
    if form == "unqualified":
        return "require %s unqualified" % target
    if form == "string":
        return "require '%s'" % target
    if form == "string-ext":
        return "require '%s.ckl'" % target
    if form == "var":
        return "def spec_%s = '%s'; require spec_%s" % (target, target, target)
    return "require %s import [%s]" % (target, ", ".join(p if a is None else "%s as %s" % (p, a) for p, a in arg))


def module_source(m):
    lines = ["append(LOADLOG, '%s');" % m.name,
             "def _seen_at_load = do secret_of_importer catch all 'blind' end;",
             "def %s_probe() do secret_of_importer catch all 'blind' end;" % m.name,
             "def %s_probe_load() _seen_at_load;" % m.name,
             "def _counter = 0;", "def %s_inc() do _counter += 1; _counter end;" % m.name,
             "def %s_count = 0;" % m.name, "def %s_bump() do %s_count += 1; %s_count end;" % (m.name, m.name, m.name)]
    for it in m.items:
        if it[0] == "def":
            lines.append("def %s = %d;" % (it[1], it[2]))
        elif it[0] == "fn":
            lines.append("def %s() %d;" % (it[1], it[2]))
        else:
            lines.append(req_source(it) + ";")
    return "\n".join(lines) + "\n"


def apply_require(table, item, exports_of):
    """bind into `table` (ordered dict name -> entry) what the require form binds"""
    _, target, form, arg = item
    ex = exports_of(target)
    if form in ("plain", "string", "string-ext", "var"):
        table[target] = ("mod", target)
        if form == "var":
            pass
    elif form == "as":
        table[arg] = ("mod", target)
    elif form == "unqualified":
        for k, v in ex.items():
            if not k.startswith("_"):
                table[k] = v
    else:
        for k, v in ex.items():
            if k.startswith("_"):
                continue
            for p, a in arg:
                if p == k:
                    table[a or p] = v


def compute_exports(mods):
    byname = {m.name: m for m in mods}
    cache = {}

    def exports_of(name):
        if name in cache:
            return cache[name]
        m = byname[name]
        t = {}
        t["_seen_at_load"] = ("val", "blind")
        t["%s_probe" % name] = ("fn", "blind")
        t["%s_probe_load" % name] = ("fn", "blind")
        t["_counter"] = ("val", 0)
        t["%s_inc" % name] = ("inc", name)
        t["%s_count" % name] = ("live", name)      # public variable the module itself rebinds (read only right after a require)
        t["%s_bump" % name] = ("bump", name)
        for it in m.items:
            if it[0] == "def":
                t[it[1]] = ("val", it[2])
            elif it[0] == "fn":
                t[it[1]] = ("fn", it[2])
            else:
                apply_require(t, it, exports_of)
        cache[name] = t
        return t
    for m in mods:
        exports_of(m.name)
    return cache


def load_order(mods, first, loaded, log):
    """DFS order in which modules are evaluated when `first` is required"""
    byname = {m.name: m for m in mods}
    if first in loaded:
        return
    loaded.add(first)
    log.append(first)
    for it in byname[first].items:
        if it[0] == "req":
            load_order(mods, it[1], loaded, log)


def module_object_members(ex):
    """what `require m` exposes: non-underscore symbols, nested module objects skipped"""
    return sorted(k for k, v in ex.items() if not k.startswith("_") and v[0] != "mod")


# ---------------------------------------------------------------------------
# importer programs
# ---------------------------------------------------------------------------

class RecDict(dict):
    """records which names a require (re)bound"""
    def __init__(self, *a):
        super().__init__(*a)
        self.assigned = []

    def __setitem__(self, k, v):
        self.assigned.append(k)
        super().__setitem__(k, v)


def gen_importer(r, mods, exports):
    """-> (source, expected log entries as (tag, rendered text))"""
    nreq = r.randint(2, 6)
    lines = ["def secret_of_importer = 'visible-to-importer-only'"]
    nsnap = nreq + 1
    for i in range(nsnap):
        lines.append("def snap%d = NULL" % i)
    expected = []
    table = RecDict()
    loaded = set()
    loadlog = []
    counters = {}
    bumps = {}
    planted = {}
    lines.append("snap0 = set(ls())")
    for i in range(nreq):
        target = r.choice(mods)
        item = gen_require(r, target, mods)
        if r.random() < 0.1:
            item = ("req", target.name, "var", None)
        inside_fn = r.random() < 0.15
        before = dict(table)
        if inside_fn:
            fname = "loader%d" % i
            lines.append("def %s() do %s; 'loaded' end" % (fname, req_source(item)))
            lines.append("%s()" % fname)
            table[fname] = ("fn", "loaded")
            if item[2] == "var":
                pass
        else:
            lines.append(req_source(item))
            if item[2] == "var":
                table["spec_%s" % target.name] = ("val", "'%s'" % target.name)
            del table.assigned[:]
            apply_require(table, item, lambda n: exports[n])
            for k_ in table.assigned:
                planted.pop(k_, None)       # whatever object the name held before, it now holds another one
        load_order(mods, target.name, loaded, loadlog)
        lines.append("snap%d = set(ls())" % (i + 1))
        new = sorted(k for k in table if k not in before)
        lines.append("log('new%d', snap%d - snap%d)" % (i, i + 1, i))
        expected.append(("new%d" % i, set_text(new)))
        if not inside_fn and item[2] in ("plain", "string", "string-ext", "var", "as"):
            # the object this require bound is a new one showing the module as it is now: members another importer
            # planted on an earlier object are not in it, a variable the module rebound since has its current value
            k = item[3] if item[2] == "as" else target.name
            tn = target.name
            planted[k] = []
            lines.append("log('count%d.%s', %s->%s_count)" % (i, k, k, tn))
            expected.append(("count%d.%s" % (i, k), str(bumps.get(tn, 0))))
            lines.append("log('fresh-members%d.%s', set(ls(%s)))" % (i, k, k))
            expected.append(("fresh-members%d.%s" % (i, k), set_text(module_object_members(exports[tn]))))
            if r.random() < 0.5:
                bumps[tn] = bumps.get(tn, 0) + 1
                lines.append("log('bump%d.%s', %s->%s_bump())" % (i, k, k, tn))
                expected.append(("bump%d.%s" % (i, k), str(bumps[tn])))
            if r.random() < 0.4:
                lines.append("%s->planted_%d = %d" % (k, i, i))
                planted[k].append("planted_%d" % i)
    # read everything that is bound
    for k, v in sorted(table.items()):
        if v[0] == "val":
            lines.append("log('val.%s', %s)" % (k, k))
            expected.append(("val." + k, str(v[1])))
        elif v[0] == "fn":
            lines.append("log('fn.%s', %s())" % (k, k))
            expected.append(("fn." + k, text(v[1])))
        elif v[0] == "inc":
            counters[v[1]] = counters.get(v[1], 0) + 1
            lines.append("log('inc.%s', %s())" % (k, k))
            expected.append(("inc." + k, str(counters[v[1]])))
        elif v[0] == "mod":
            tname = v[1]
            lines.append("log('members.%s', set(ls(%s)))" % (k, k))
            expected.append(("members." + k, set_text(module_object_members(exports[tname]) + planted.get(k, []))))
            counters[tname] = counters.get(tname, 0) + 1
            lines.append("log('modinc.%s', %s->%s_inc())" % (k, k, tname))
            expected.append(("modinc." + k, str(counters[tname])))
            lines.append("log('probe.%s', [%s->%s_probe(), %s->%s_probe_load()])" % (k, k, tname, k, tname))
            expected.append(("probe." + k, "['blind', 'blind']"))
            priv = [n for n in exports[tname] if n.startswith("_")]
            if priv:
                lines.append("log('priv.%s', %s->%s)" % (k, k, priv[0]))
                expected.append(("priv." + k, "NULL"))
    # underscore names are not visible unqualified either
    lines.append("log('no-underscore', [n for n in ls() if n starts with '_' and not (n starts with '_' + '_')])")
    expected.append(("no-underscore", "[]"))
    lines.append("log('loadlog', LOADLOG)")
    expected.append(("loadlog", "[" + ", ".join("'%s'" % n for n in loadlog) + "]"))
    return ";\n".join(lines), expected


def text(v):
    return "'%s'" % v if isinstance(v, str) else str(v)


def set_text(names):
    return "<<" + ", ".join("'%s'" % n for n in sorted(names)) + ">>"


PRELUDE = "def log(tag, v) do T !> append([tag, string([v])]); v end;\n"


def run_program(moddir, src):
    import ckl.values as V
    import ckl.functions
    it, out = core.new_interpreter(secure=True, legacy=False)
    mp = V.ValueList()
    mp.addItem(V.ValueString(moddir))
    it.base_environment.put("checkerlang_module_path", mp)
    it.base_environment.put("LOADLOG", V.ValueList())
    env = ckl.functions.Environment()
    T = V.ValueList()
    env.put("T", T)
    o = observe(lambda: it.interpret(PRELUDE + src, "importer", env), 3000000)
    log = []
    for e in T.value:
        try:
            log.append((e.value[0].value, e.value[1].value[1:-1]))
        except Exception:  # noqa
            log.append(("?", core.safe_str(e)))
    return o, log


def clause_of(tag):
    return tag.split(".")[0].rstrip("0123456789")


def run_shard(spec, ctx):
    r = ctx.rng
    base = os.path.join(os.getcwd(), "mods")
    if spec["kind"] == "graphs":
        for gi in range(spec["n"]):
            moddir = os.path.join(base, "g%d" % gi)
            os.makedirs(moddir, exist_ok=True)
            mods = gen_graph(r, "g%d" % gi)
            for m in mods:
                with open(os.path.join(moddir, m.name + ".ckl"), "w") as f:
                    f.write(module_source(m))
            exports = compute_exports(mods)
            ctx.count("module_graphs")
            for pi in range(spec["progs"]):
                src, expected = gen_importer(r, mods, exports)
                o, log = run_program(moddir, src)
                ctx.count("importer_programs")
                ctx.count("require_statements", src.count("require "))
                ctx.case((tuple(module_source(m) for m in mods), src), nontrivial=src.count("require ") >= 2)
                if o.kind != "value":
                    ctx.violation("C11:importer-failed:%s" % o.kind, "%s\n-> %s %s" % (src[:1200], o.kind, core.safe_str(o.exc, 150)),
                                  {"src": src, "modules": {m.name: module_source(m) for m in mods}})
                    continue
                if log != expected:
                    idx = next((i for i, (a, b) in enumerate(zip(log, expected)) if a != b), min(len(log), len(expected)))
                    got = log[idx] if idx < len(log) else None
                    want = expected[idx] if idx < len(expected) else None
                    form = ""
                    tag = (want or got)[0]
                    ctx.violation("C11:%s" % clause_of(tag),
                                  "%s\n-> observation %r, module model says %r" % (src[:1500], got, want),
                                  {"src": src, "modules": {m.name: module_source(m) for m in mods}})
                ctx.sample_maybe({"importer": src[:400], "modules": [m.name for m in mods]}, 0.01)
    else:
        # modules whose names differ only by a dotted suffix or by case are different modules; the same module asked for
        # with and without the .ckl extension is one module
        families = [
            ("twins", {"twin": "plain", "twin.v2": "v2", "twin.v2.beta": "beta", "Twin": "upper"},
             [["twin", "twin.v2", "twin.v2.beta", "Twin"], ["twin.v2.beta", "twin.v2", "twin", "Twin"], ["Twin", "twin.v2", "twin"], ["twin.v2", "twin"]]),
            # names that end in the characters of the extension itself, and names that are prefixes of each other
            ("suffix-chars", {"Stack": "stack", "Stall": "stall", "Sta": "sta", "Calc": "calc", "Ca": "ca", "pick": "pick", "pi": "pi", "lock.c": "lockc", "kl": "kl", "l": "l"},
             [["Stack", "Stall", "Sta", "Calc", "Ca"], ["Sta", "Stall", "Stack"], ["Ca", "Calc", "pick", "pi"], ["pi", "pick", "lock.c", "kl", "l"], ["l", "kl", "lock.c", "Stack"]]),
        ]
        for famname, whos, orders in families:
            moddir = os.path.join(base, famname)
            os.makedirs(moddir, exist_ok=True)
            for fname, who in whos.items():
                with open(os.path.join(moddir, fname + ".ckl"), "w") as f:
                    f.write("append(LOADLOG, '%s');\ndef who = '%s';\ndef _hidden = 1;\n" % (fname, who))
            for order in orders:
                for ext, ext2 in (("", ""), (".ckl", ""), ("", ".ckl"), (".ckl", ".ckl")):
                    reqs = "; ".join("require '%s%s' as m%d" % (n_, ext, i_) for i_, n_ in enumerate(order))
                    again = "; ".join("require '%s%s' as again%d" % (n_, ext2, i_) for i_, n_ in enumerate(order))
                    src = "%s; %s; log('who', [%s]); log('again', [%s]); log('loadlog', LOADLOG)" % (
                        reqs, again, ", ".join("m%d->who" % i_ for i_ in range(len(order))), ", ".join("again%d->who" % i_ for i_ in range(len(order))))
                    want = [("who", "[" + ", ".join("'%s'" % whos[n_] for n_ in order) + "]"), ("again", "[" + ", ".join("'%s'" % whos[n_] for n_ in order) + "]"),
                            ("loadlog", "[" + ", ".join("'%s'" % n_ for n_ in order) + "]")]
                    o, log = run_program(moddir, src)
                    ctx.count("twin_programs")
                    ctx.case((famname, tuple(order), ext, ext2))
                    if o.kind != "value" or log != want:
                        ctx.violation("C11:module-identity:similar-names", "%s -> %s %r, expected %r" % (src, o.kind, log, want), {"src": src})
        # a module that fails after it has required another one: that other module stays loaded (its top-level code has
        # run, once) and is shared with whoever requires it next
        moddir = os.path.join(base, "optdep")
        os.makedirs(moddir, exist_ok=True)
        for fname, text in (("common_", "append(LOADLOG, 'common_');\ndef n = 0;\ndef bump() do n += 1; n end;\n"),
                            ("fancy_", "append(LOADLOG, 'fancy_');\nrequire common_;\ncommon_->bump();\nerror 'fancy failed';\ndef never = 1;\n"),
                            ("plain_", "append(LOADLOG, 'plain_');\nrequire common_;\ndef v = common_->bump();\n")):
            with open(os.path.join(moddir, fname + ".ckl"), "w") as f:
                f.write(text)
        for first in ("do require fancy_ catch all log('fancy', 'failed') end", "do require fancy_ import [never] catch all log('fancy', 'failed') end",
                      "do require fancy_ unqualified catch all log('fancy', 'failed') end"):
            src = first + "; require plain_; log('v', plain_->v); do require fancy_ catch all log('fancy', 'failed again') end; require common_; log('n', common_->bump()); log('loadlog', LOADLOG)"
            want = [("fancy", "'failed'"), ("v", "2"), ("fancy", "'failed again'"), ("n", "4"), ("loadlog", "['fancy_', 'common_', 'plain_', 'fancy_']")]
            o, log = run_program(moddir, src)
            ctx.count("optional_dependency_programs")
            ctx.case(("optdep", first))
            if o.kind != "value" or log != want:
                ctx.violation("C11:once-per-interpreter:dependency-of-a-failed-module", "%s -> %s %r, expected %r" % (src, o.kind, log, want), {"src": src})
        # the module a require statement names is looked up each time the statement runs: one require site in a loop or
        # a function body, given another module name (a string variable) each time, binds the module asked for, loads each
        # module once and shares it
        import itertools
        import ckl.values as V
        import ckl.functions
        moddir = os.path.join(base, "byvar")
        os.makedirs(moddir, exist_ok=True)
        vnames = ["va_", "vb_", "vc_"]
        for n in vnames:
            with open(os.path.join(moddir, n + ".ckl"), "w") as f:
                f.write("append(LOADLOG, '%s');\ndef tag = '%s';\ndef n = 0;\ndef bump() do n += 1; n end;\n" % (n, n))
        forms = [("unqualified", "require m unqualified; append(acc, [tag, bump()])"), ("as", "require m as cur_; append(acc, [cur_->tag, cur_->bump()])"),
                 ("import", "require m import [tag, bump]; append(acc, [tag, bump()])"), ("import-as", "require m import [tag as t_, bump as b_]; append(acc, [t_, b_()])")]
        for L in range(1, 5):
            for seq in itertools.product(vnames, repeat=L):
                if L == 4 and r.random() < 0.5:
                    continue
                counts, want_acc, order = {}, [], []
                for n in seq:
                    counts[n] = counts.get(n, 0) + 1
                    want_acc.append("['%s', %d]" % (n, counts[n]))
                    if n not in order:
                        order.append(n)
                lst = "[" + ", ".join("'%s'" % n for n in seq) + "]"
                for fname, body in forms:
                    for shape, src in (("loop", "def acc = []; for m in %s do %s end; log('acc', acc); log('loadlog', LOADLOG)" % (lst, body)),
                                       ("function", "def acc = []; def ld_(m) do %s end; for x_ in %s do ld_(x_) end; log('acc', acc); log('loadlog', LOADLOG)" % (body, lst))):
                        o, log = run_program(moddir, src)
                        ctx.count("require_by_variable_programs")
                        ctx.case(("byvar", fname, shape, seq), nontrivial=len(set(seq)) > 1)
                        want = [("acc", "[" + ", ".join(want_acc) + "]"), ("loadlog", "[" + ", ".join("'%s'" % n for n in order) + "]")]
                        if o.kind != "value" or log != want:
                            ctx.violation("C11:require-site-evaluated-again:%s:%s" % (fname, shape), "%s -> %s %r, expected %r" % (src, o.kind, log, want), {"src": src})
        # one interpreter, called by the host with scopes of its own of every shape (none, a root, a child of that root, a
        # grandchild, a second root): the module is loaded once and it is the same instance from everywhere
        for order_ in itertools.permutations(range(5), 5):
            if r.random() < 0.8:
                continue
            it, out = core.new_interpreter(secure=True, legacy=False)
            mp = V.ValueList()
            mp.addItem(V.ValueString(moddir))
            it.base_environment.put("checkerlang_module_path", mp)
            it.base_environment.put("LOADLOG", V.ValueList())
            root = ckl.functions.Environment()
            child = root.newEnv()
            scopes = [None, root, child, child.newEnv(), ckl.functions.Environment()]
            got = []
            for step, si in enumerate(order_):
                src = "require va_; [va_->bump(), LOADLOG]"
                o = observe((lambda e: (lambda: it.interpret(src, "host") if e is None else it.interpret(src, "host", e)))(scopes[si]), 3000000)
                got.append(str(o.value) if o.kind == "value" else o.kind)
            ctx.count("host_scope_programs")
            ctx.case(("host-scopes", order_), nontrivial=True)
            want = ["[%d, ['va_']]" % (k + 1) for k in range(5)]
            if got != want:
                ctx.violation("C11:once-per-interpreter:host-scopes", "require va_; [va_->bump(), LOADLOG] from host scopes %r (0 none, 1 root, 2 child, 3 grandchild, 4 other root) -> %r, expected %r" % (
                    list(order_), got, want), {"order": list(order_)})
        for ci in range(spec["n"]):
            moddir = os.path.join(base, "c%d" % ci)
            os.makedirs(moddir, exist_ok=True)
            k = r.randint(1, 4)
            names = ["cy%d_%d" % (ci, i) for i in range(k)]
            for i, n in enumerate(names):
                nxt = names[(i + 1) % k]
                form = r.choice(["require %s", "require %s unqualified", "require %s as z", "require '%s'", "require %s import [a]"]) % nxt
                with open(os.path.join(moddir, n + ".ckl"), "w") as f:
                    f.write("append(LOADLOG, '%s');\ndef a = 1;\n%s;\ndef b = 2;\n" % (n, form))
            src = "do require %s catch all log('cycle', 'error') end; log('after', 1); do require %s catch all log('cycle', 'error') end; log('loadlog-len', length(LOADLOG))" % (names[0], names[-1])
            o, log = run_program(moddir, src)
            ctx.count("cycle_programs")
            ctx.case(("cycle", k, src))
            want = [("cycle", "'error'"), ("after", "1"), ("cycle", "'error'")]
            if o.kind != "value" or log[:3] != want:
                ctx.violation("C11:cycle:%s" % (o.kind if o.kind != "value" else "not-reported"),
                              "cycle of %d modules: %s -> %s %r" % (k, src, o.kind, log), {"src": src})


def finalize(merged, tier):
    c = merged["counters"]
    reasons = []
    for k in ("module_graphs", "importer_programs", "require_statements", "cycle_programs"):
        if c.get(k, 0) == 0:
            reasons.append("monitor counter %s is zero" % k)
    return {}, reasons
