"""Child process: runs one shard of one property's workload.

argv: prop tier seed shard spec_json out_path watchdog_seconds
"""
import faulthandler
import importlib
import json
import os
import sys
import traceback

HERE = os.path.dirname(os.path.abspath(__file__))
LIB = os.path.dirname(HERE)
VERIF = os.path.dirname(LIB)
for p in (VERIF, LIB):
    if p not in sys.path:
        sys.path.insert(1, p)

from cklmon import core  # noqa: E402


def main():
    prop, tier, seed, shard, spec, out, wd = sys.argv[1:8]
    seed = int(seed)
    shard = int(shard)
    spec = json.loads(spec)
    # wall-clock watchdog: its firing is *inconclusive*, never a violation
    faulthandler.enable()
    faulthandler.dump_traceback_later(int(wd), exit=True)
    sys.setrecursionlimit(1000)
    core.import_ckl()
    check = importlib.import_module("checks." + prop)
    ctx = core.Ctx(prop, tier, seed, shard, spec)
    rc = 0
    try:
        check.run_shard(spec, ctx)
    except BaseException:  # noqa
        traceback.print_exc()
        rc = 3
    ctx.dump(out)
    sys.stdout.flush()
    sys.stderr.flush()
    os._exit(rc)


if __name__ == "__main__":
    main()
