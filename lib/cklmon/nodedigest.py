"""Structural digest of a parsed node tree, computed by the harness's own
walker (never repr(node): several node __repr__ methods raise TypeError)."""
from cklmon.core import stable_hash, safe_str

_SKIP = {"pos"}


def node_struct(n, depth=0):
    if depth > 400:
        return "<deep>"
    if n is None or isinstance(n, (bool, int, float, str)):
        return n
    if isinstance(n, (list, tuple)):
        return [node_struct(x, depth + 1) for x in n]
    if isinstance(n, dict):
        return [[node_struct(k, depth + 1), node_struct(v, depth + 1)]
                for k, v in n.items()]
    mod = type(n).__module__ or ""
    name = type(n).__name__
    if mod == "ckl.nodes":
        out = [name]
        for k in sorted(vars(n)):
            if k in _SKIP:
                continue
            out.append([k, node_struct(getattr(n, k), depth + 1)])
        return out
    if mod == "ckl.values":
        # literal payloads
        v = getattr(n, "value", None)
        if isinstance(v, (bool, int, float, str)) or v is None:
            return [name, repr(v)]
        return [name, safe_str(n)]
    if mod == "ckl.lexer":
        return [name]
    return [name, "?"]


def node_digest(n):
    return stable_hash(node_struct(n))


def node_positions(n, out=None, depth=0):
    """All (class name, pos.filename, pos.line) found in the tree."""
    if out is None:
        out = []
    if depth > 400 or n is None or isinstance(n, (bool, int, float, str)):
        return out
    if isinstance(n, (list, tuple)):
        for x in n:
            node_positions(x, out, depth + 1)
        return out
    if isinstance(n, dict):
        for k, v in n.items():
            node_positions(k, out, depth + 1)
            node_positions(v, out, depth + 1)
        return out
    mod = type(n).__module__ or ""
    if mod == "ckl.nodes":
        p = getattr(n, "pos", None)
        if p is not None:
            out.append((type(n).__name__, getattr(p, "filename", None),
                        getattr(p, "line", None)))
        for k in sorted(vars(n)):
            if k != "pos":
                node_positions(getattr(n, k), out, depth + 1)
    return out
