"""Runs a program AST on the real interpreter (through its rendered source) and
on the reference evaluator, and compares outcome and event log (M8)."""
from cklmon import core
from cklmon.core import observe
from cklgen import render, values as gv
from cklref import refeval, refvalue as rv


class RealRunner:
    def __init__(self, secure=True, legacy=True):
        import ckl.functions
        import ckl.values
        self.secure, self.legacy = secure, legacy
        self.V = ckl.values
        self.Env = ckl.functions.Environment
        self.fresh()

    def fresh(self):
        self.it, self.out = core.new_interpreter(self.secure, self.legacy)

    def run_text(self, text, budget=1500000, name="prog"):
        """-> (summary, log) ; summary = ('value', abstract) | ('error', abstract) | (kind, detail)"""
        env = self.Env()
        T = self.V.ValueList()
        env.put("T", T)
        self.out.output = ""
        o = observe(lambda: self.it.interpret(text, name, env), budget)
        log = []
        for entry in T.value:
            try:
                a = gv.abstract(entry)
                log.append((a[1][0], a[1][1]))
            except Exception:  # noqa
                log.append((("str", "?"), ("str", core.safe_str(entry, 60))))
        if o.kind == "value":
            try:
                return ("value", gv.abstract(o.value)), log, o
            except gv.NotData:
                return ("value", ("func", o.value.type())), log, o
        if o.kind == "rte":
            v = getattr(o.exc, "value", None)
            try:
                return ("error", gv.abstract(v)), log, o
            except Exception:  # noqa
                return ("error", ("?", core.safe_str(v))), log, o
        if o.kind == "hang":
            self.fresh()
        return (o.kind, type(o.exc).__name__ if o.exc is not None else ""), log, o


def same_value(a, b):
    """abstract values equal and of the same kinds throughout (functions compare by kind only)"""
    if a[0] == "func" or b[0] == "func":
        return a[0] == b[0]
    if a[0] == "obj" or b[0] == "obj":
        if a[0] != b[0] or len(a[1]) != len(b[1]):
            return False
        return all(x[0] == y[0] and same_value(x[1], y[1]) for x, y in zip(a[1], b[1]))
    if a[0] != b[0]:
        return False
    if a[0] == "list":
        return len(a[1]) == len(b[1]) and all(same_value(x, y) for x, y in zip(a[1], b[1]))
    try:
        return rv.ref_eq(a, b)
    except Exception:  # noqa
        return a == b


def same_summary(real, model):
    if real[0] != model[0]:
        return False
    if real[0] in ("value", "error"):
        return same_value(real[1], model[1])
    return real == model


def same_log(a, b):
    if len(a) != len(b):
        return False
    return all(same_value(x[0], y[0]) and same_value(x[1], y[1]) for x, y in zip(a, b))


def first_divergence(rlog, mlog):
    for i, (x, y) in enumerate(zip(rlog, mlog)):
        if not (same_value(x[0], y[0]) and same_value(x[1], y[1])):
            return i, x, y
    if len(rlog) != len(mlog):
        i = min(len(rlog), len(mlog))
        return i, (rlog[i] if i < len(rlog) else None), (mlog[i] if i < len(mlog) else None)
    return None


def model_run(prog, modes=()):
    """-> (summary, log) | None when the reference leaves the outcome unspecified"""
    try:
        out, log = refeval.run_program(prog, modes)
        return out, log
    except (refeval.Unspecified, refeval.StepLimit, RecursionError):
        return None


def program_text(prog, renderer=None):
    r = renderer or render.Renderer()
    return " ".join(r.program(prog))


def construct_of(tag):
    """mechanism key component derived from a log tag (strip counters)"""
    import re
    if tag is None:
        return "end-of-log"
    t = tag[0][1] if isinstance(tag, tuple) and isinstance(tag[0], tuple) else str(tag)
    return re.sub(r"\d+", "", str(t))[:24]


def diff_check(ctx, R, prog, prop, wrong_modes=(), family="", budget=1500000):
    """One program: real vs reference (outcome + log) and adequacy (which wrong-semantics
    modes would have given a different observation).  Returns the real summary."""
    text = program_text(prog)
    real, rlog, o = R.run_text(text, budget)
    m = model_run(prog)
    ctx.count("programs")
    if real[0] in ("syntax",):
        ctx.count("harness_syntax_errors")
        ctx.note("generated program does not parse: %s :: %s" % (core.safe_str(o.exc, 80), text[:300]))
        return real, rlog, text
    if real[0] in ("host", "hang"):
        ctx.violation("%s:%s:escape-%s" % (prop, family, real[1] or "hang"), "%s -> %s" % (text[:600], core.safe_str(o.exc, 120)), {"src": text})
        ctx.case(text)
        return real, rlog, text
    if m is None:
        ctx.count("reference_unspecified")
        ctx.case(text, nontrivial=False)
        return real, rlog, text
    ms, mlog = m
    ctx.count("differential_comparisons")
    ctx.count("log_events", len(rlog))
    ctx.count("outcome_" + real[0])
    if not same_log(rlog, mlog):
        d = first_divergence(rlog, mlog)
        ctx.violation("%s:%s:log:%s" % (prop, family, construct_of(d[1] or d[2])),
                      "%s\n-> event #%d: real %r, reference %r" % (text[:1500], d[0], d[1], d[2]), {"src": text})
    elif not same_summary(real, ms):
        ctx.violation("%s:%s:outcome:%s" % (prop, family, real[0] + "-vs-" + ms[0]),
                      "%s\n-> real %r, reference %r" % (text[:1500], real, ms), {"src": text})
    # adequacy: which wrong-semantics modes would be noticed on this program
    disc = 0
    for mode in wrong_modes:
        w = model_run(prog, (mode,))
        if w is None:
            continue
        if not (same_summary(w[0], ms) and same_log(w[1], mlog)):
            ctx.count("discriminates_" + mode)
            disc += 1
    ctx.case(text, nontrivial=disc > 0 or not wrong_modes)
    ctx.sample_maybe({"program": text[:500], "outcome": repr(real)[:120], "log_events": len(rlog), "wrong_modes_discriminated": disc}, 0.01)
    return real, rlog, text
