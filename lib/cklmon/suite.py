"""M9 helper: run the repository's test-suite under the monitors in a child
process and fold what they saw into the shard context."""
import json
import os
import subprocess
import sys

from cklmon import core


def run_suite(ctx, prop, monitors="M2,M5,payload"):
    out = os.path.join(os.getcwd(), "m9.json")
    env = dict(os.environ)
    env["CKL_VERIF"] = "1"
    env["CKL_VERIF_OUT"] = out
    env["CKL_VERIF_MONITORS"] = monitors
    lib = os.path.join(core.VERIF, "lib")
    env["PYTHONPATH"] = os.pathsep.join([os.path.join(core.REPO, "src"), lib])
    p = subprocess.run([sys.executable, "-m", "pytest", "-q", "-p", "no:cacheprovider", "-p", "cklmon.pytest_plugin", "--timeout=900"],
                       cwd=core.REPO, env=env, capture_output=True, text=True, timeout=1500)
    ctx.count("suite_runs")
    if not os.path.exists(out):
        ctx.note("suite under monitors produced no report: %s" % (p.stdout[-300:] + p.stderr[-300:]))
        ctx.count("suite_report_missing")
        return
    d = json.load(open(out))
    ctx.case(("repository-suite", d.get("tests")))
    ctx.case(("repository-suite-monitors", monitors))
    ctx.count("suite_tests", d.get("tests", 0))
    for k, v in d.get("m2_counts", {}).items():
        if k != "violations":
            ctx.count("suite_" + k, v)
    ctx.count("suite_m5_calls", d.get("m5_calls", 0))
    ctx.count("suite_payload_checks", d.get("payload_checks", 0))
    if "M2" in monitors:
        for key, what in d.get("m2_violations", []):
            ctx.violation("%s:M9:M2:%s" % (prop, key), "while the repository's own tests ran: %s" % what, {"monitor": "M9"})
    if "M5" in monitors:
        for name, argpos, what in d.get("m5_findings", []):
            ctx.violation("%s:M9:mutated-argument:%s:arg%s" % (prop, name, argpos), "while the repository's own tests ran: %s" % what, {"monitor": "M9"})
    if "payload" in monitors:
        for kind, what in d.get("payload_bad", []):
            ctx.violation("%s:M9:payload:%s" % (prop, kind), "while the repository's own tests ran: a %s value was built around %s" % (kind, what), {"monitor": "M9"})
    ctx.sample({"repository_suite_under_monitors": {k: d.get(k) for k in ("tests", "m2_counts", "m5_calls", "payload_checks")}})
