"""M2 — always-on value-law monitors: thin wrappers on __eq__/__hash__/__lt__
of every ckl.values.Value* class.  They check, on every comparison performed
by a workload or by the interpreter itself (set insertion, dict lookup,
sorted(), `in`, catch matching ...):

  a == b  True  => hash(a) == hash(b) and b == a
  a == b  False => not (b == a)
  a <  b  (same kind)  => result is a real bool; not (b < a); a != b
  not a < b and not b < a (same kind) => a == b          (trichotomy)

Single-threaded; re-entrancy guarded; counts evaluations."""
import collections

DATA_CLASSES = ["ValueBoolean", "ValueDate", "ValueDecimal", "ValueInt",
                "ValueList", "ValueMap", "ValueNull", "ValueObject",
                "ValuePattern", "ValueSet", "ValueString"]
ORDER_KINDS = {"ValueBoolean": "bool", "ValueDate": "date", "ValueDecimal": "num",
               "ValueInt": "num", "ValueString": "str", "ValueList": "list"}


class LawMonitor:
    def __init__(self):
        self.counts = collections.Counter()
        self.violations = []       # (key, what)
        self.busy = False
        self.installed = False
        self.orig = {}

    def report(self, key, what):
        self.counts["violations"] += 1
        if len(self.violations) < 200:
            self.violations.append((key, what))

    def install(self):
        import ckl.values as V
        if self.installed:
            return
        self.installed = True
        mon = self

        def wrap_eq(cls, orig):
            def __eq__(a, b):
                r = orig(a, b)
                if mon.busy or not isinstance(b, V.Value):
                    return r
                mon.busy = True
                try:
                    mon.counts["eq_checks"] += 1
                    try:
                        rb = type(b).__eq__(b, a)
                    except Exception as e:  # noqa
                        rb = "raised " + type(e).__name__
                    if r is True or r is False:
                        if rb is not r and rb is not NotImplemented:
                            mon.report("eq-asymmetric:%s/%s" % (cls.__name__, type(b).__name__),
                                       "%s == %s is %r but reversed is %r" % (s(a), s(b), r, rb))
                    elif r is not NotImplemented:
                        mon.report("eq-not-bool:%s" % cls.__name__,
                                   "%s == %s returned %r" % (s(a), s(b), r))
                    if r is True:
                        mon.counts["hash_checks"] += 1
                        try:
                            ha, hb = hash(a), hash(b)
                        except Exception as e:  # noqa
                            ha, hb = 0, 0
                        if ha != hb:
                            mon.report("eq-hash:%s/%s" % (cls.__name__, type(b).__name__),
                                       "%s == %s but hashes differ" % (s(a), s(b)))
                finally:
                    mon.busy = False
                return r
            return __eq__

        def wrap_lt(cls, orig):
            def __lt__(a, b):
                r = orig(a, b)
                if mon.busy or not isinstance(b, V.Value):
                    return r
                ka = ORDER_KINDS.get(type(a).__name__)
                kb = ORDER_KINDS.get(type(b).__name__)
                if ka is None or ka != kb:
                    return r
                if ka == "list" and not _lists_comparable(a, b):
                    return r
                mon.busy = True
                try:
                    mon.counts["lt_checks"] += 1
                    if r is not True and r is not False:
                        mon.report("lt-not-bool:%s" % cls.__name__,
                                   "%s < %s returned %r" % (s(a), s(b), r))
                    try:
                        rb = type(b).__lt__(b, a)
                        e = type(a).__eq__(a, b)
                    except Exception as ex:  # noqa
                        return r
                    if r and rb:
                        mon.report("lt-asymmetry:%s" % ka,
                                   "%s < %s and %s < %s" % (s(a), s(b), s(b), s(a)))
                    if r and e is True:
                        mon.report("lt-irreflexive:%s" % ka,
                                   "%s < %s although they are equal" % (s(a), s(b)))
                    if (not r) and (not rb) and e is not True:
                        mon.report("lt-trichotomy:%s" % ka,
                                   "none of <, ==, > holds for %s, %s" % (s(a), s(b)))
                finally:
                    mon.busy = False
                return r
            return __lt__

        for name in DATA_CLASSES:
            cls = getattr(V, name, None)
            if cls is None:
                self.counts["hooks_missing"] += 1
                continue
            if "__eq__" in cls.__dict__:
                self.orig[(name, "eq")] = cls.__dict__["__eq__"]
                cls.__eq__ = wrap_eq(cls, cls.__dict__["__eq__"])
            if "__lt__" in cls.__dict__ and name in ORDER_KINDS:
                self.orig[(name, "lt")] = cls.__dict__["__lt__"]
                cls.__lt__ = wrap_lt(cls, cls.__dict__["__lt__"])

    def drain(self, ctx, prefix):
        """Move what was observed into the shard context."""
        for k, v in self.counts.items():
            if k != "violations":
                ctx.count(k, v)
        for key, what in self.violations:
            ctx.violation("%s:M2:%s" % (prefix, key), what, {"monitor": "M2"})
        self.counts.clear()
        self.violations = []


def _lists_comparable(a, b):
    for x, y in zip(a.value, b.value):
        kx = ORDER_KINDS.get(type(x).__name__)
        ky = ORDER_KINDS.get(type(y).__name__)
        if kx is None or kx != ky:
            return False
        if kx == "list" and not _lists_comparable(x, y):
            return False
    return True


def s(v):
    try:
        r = repr(v)
    except BaseException as e:  # noqa
        r = "<%s>" % type(v).__name__
    return (type(v).__name__[5:] + ":" + r)[:80]


MONITOR = LawMonitor()
