"""Session scenarios shared by C03 and C10."""
from cklmon import core
from cklmon.core import observe


# functions that outlive the call that made them: defined while the host passed an environment of its own, kept in a
# session-level list, used by later calls that pass no environment, another one, or the same one again
ESCAPING = [
    (None, "def registry = []; def base_ = 10; length(registry)", "0"),
    ("E1", "def local_ = 5; append(registry, fn(y) y + base_ + local_); def named(y) y * base_; append(registry, named); length(registry)", "2"),
    (None, "[f(1) for f in registry]", "[16, 10]"),
    ("E2", "[f(2) for f in registry]", "[17, 20]"),
    ("E1", "append(registry, fn(y) [y - base_, length([y])]); nosuch_name", ("error", "'ERROR'")),
    (None, "registry[2](1)", "[-9, 1]"),
    ("E2", "base_ = 100; [f(1) for f in registry]", "[106, 100, [-99, 1]]"),
    ("E1", "append(registry, fn() do base_ = base_ + 1; local_ = local_ * 2; [base_, local_] end); 0", "0"),
    (None, "registry[3]()", "[101, 10]"),
    (None, "[base_, registry[0](0)]", "[101, 111]"),
    ("E2", "registry[3](); [base_, registry[0](0)]", "[102, 122]"),
    ("E1", "[local_, named(2), base_]", "[20, 204, 102]"),
    ("E3", "def mk() do def cnt = 0; fn() do cnt = cnt + base_; cnt end end; append(registry, mk()); 0", "0"),
    (None, "[registry[4](), registry[4](), sorted([3, 1, 2], key = registry[1])]", "[102, 204, [1, 2, 3]]"),
]


def run_escaping(ctx, prop):
    import ckl.functions
    for legacy in (False, True):
        it, out = core.new_interpreter(secure=True, legacy=legacy)
        envs = {}
        for step, (ename, src, want) in enumerate(ESCAPING):
            env = None
            if ename is not None:
                env = envs.setdefault(ename, ckl.functions.Environment())
            if env is not None:
                o = observe(lambda: it.interpret(src, "session", env), 600000)
            else:
                o = observe(lambda: it.interpret(src, "session"), 600000)
            ctx.count("escaping_function_calls")
            ctx.case(("escaping", legacy, step), nontrivial=True)
            if o.kind == "value":
                got = core.safe_str(o.value, 300)
            elif o.kind == "rte":
                got = ("error", core.safe_str(getattr(o.exc, "value", None), 100))
            else:
                got = (o.kind, core.safe_str(o.exc, 100))
            if got != want:
                msg = core.safe_str(getattr(o.exc, "msg", ""), 150) if o.kind == "rte" else ""
                ctx.violation(prop + ":escaping-function:step-%d:%s" % (step, "host-env" if ename else "no-env"),
                              "session step %d (%s environment, %s): %s -> %r %s, expected %r; earlier steps: %s" % (
                                  step, ename or "no host", "legacy" if legacy else "non-legacy", src, got, msg, want, [x[1][:60] for x in ESCAPING[:step]]), {"src": src})
                break




# what a failing call leaves behind is exactly what it did before the point of failure - no more (nothing read ahead,
# nothing registered early) and no less (nothing rolled back)
RESIDUE = [
    ("def inp = str_input('l1\\nl2\\nl3\\nl4'); def seen = []; 0", "0"),
    ("process_lines(inp, fn(line) do append(seen, line); if line == 'l2' then error 'P'; line end)", ("error", "'P'")),
    ("[seen, readln(inp)]", "[['l1', 'l2'], 'l3']"),
    ("for i in [1, 2, 3] do def made_in_loop = i * 10; if i == 2 then error 'L' end", ("error", "'L'")),
    ("made_in_loop", "20"),
    ("def kept = 1; for j in [1] do def also_kept = 2; kept = 5; error 'M' end", ("error", "'M'")),
    ("[kept, also_kept]", "[5, 2]"),
    ("def out_ = str_output(); print('a', out_); def w() do print('b', out_); error 'W' end; w()", ("error", "'W'")),
    ("print('c', out_); get_output_string(out_)", "'abc'"),
    ("def lst = [1]; def grow() do append(lst, 2); append(lst, 3); nosuch_fn(); append(lst, 4) end; grow()", ("error", "'ERROR'")),
    ("lst", "[1, 2, 3]"),
    ("def m = <<<'a' => 1>>>; do m['b'] = 2; m['c'] = 1 / 0; m['d'] = 4 catch 'zz' 0 end", ("error", "'ERROR'")),
    ("m", "<<<'a' => 1, 'b' => 2>>>"),
    ("readln(inp)", "'l4'"),
    ("readln(inp)", "NULL"),
]


def run_residue(ctx, prop):
    import ckl.functions
    for legacy, own_env in ((False, False), (True, False), (False, True)):
        it, out = core.new_interpreter(secure=True, legacy=legacy)
        pre = "" if legacy else "require IO unqualified; require List unqualified; "
        env = ckl.functions.Environment() if own_env else None
        for step, (src, want) in enumerate(RESIDUE):
            if env is not None:
                o = observe(lambda: it.interpret(pre + src, "session", env), 600000)
            else:
                o = observe(lambda: it.interpret(pre + src, "session"), 600000)
            ctx.count("residue_calls")
            ctx.case(("residue", legacy, own_env, step), nontrivial=True)
            if o.kind == "value":
                got = core.safe_str(o.value, 300)
            elif o.kind == "rte":
                got = ("error", core.safe_str(getattr(o.exc, "value", None), 100))
            else:
                got = (o.kind, core.safe_str(o.exc, 100))
            if got != want:
                ctx.violation(prop + ":residue-of-failed-call:step-%d" % step, "session step %d (%s%s): %s -> %r, expected %r; earlier steps: %s" % (
                    step, "legacy" if legacy else "non-legacy", ", host environment" if own_env else "", src, got, want, [x[0][:50] for x in RESIDUE[:step]]), {"src": src})
                break
