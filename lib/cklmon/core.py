"""Shared harness core: shard context, digests, step clock, boundary observer.

Everything here is harness-side.  The code under test is imported from
${CKL_REPO:-/repo}/src by `import_ckl()`; nothing is copied or cached.
"""
import array
import collections
import hashlib
import json
import os
import random
import sys
import warnings

VERIF = os.path.abspath(os.path.join(os.path.dirname(__file__), "..", ".."))
REPO = os.environ.get("CKL_REPO", "/repo")


def stable_hash(*parts):
    h = hashlib.blake2b(repr(parts).encode("utf-8", "backslashreplace"),
                        digest_size=8)
    return int.from_bytes(h.digest(), "big")


def make_rng(seed, prop, shard):
    return random.Random(stable_hash(seed, prop, shard))


def import_ckl():
    src = os.path.join(REPO, "src")
    if sys.path[0] != src:
        sys.path.insert(0, src)
    deps = os.path.join(VERIF, ".deps")
    if os.path.isdir(deps) and deps not in sys.path:
        sys.path.append(deps)
    warnings.simplefilter("ignore")
    import ckl.interpreter  # noqa
    import ckl.parser  # noqa
    import ckl.functions  # noqa
    import ckl.values  # noqa
    import ckl.nodes  # noqa
    import ckl.lexer  # noqa
    import ckl.errors  # noqa
    import ckl.date  # noqa
    assert os.path.abspath(ckl.__path__[0] if hasattr(ckl, "__path__")
                           else ckl.__file__).startswith(os.path.abspath(src)), (
        "ckl imported from unexpected place")
    return ckl


class Ctx:
    """Per-shard recording context."""
    MAX_SAMPLES = 12
    MAX_VIOL_PER_KEY = 3

    def __init__(self, prop, tier, seed, shard, spec):
        self.prop = prop
        self.tier = tier
        self.seed = seed
        self.shard = shard
        self.spec = spec
        self.rng = make_rng(seed, prop, shard)
        self.counters = collections.Counter()
        self.maxima = {}
        self.samples = []
        self.violations = {}     # key -> list of records
        self.viol_counts = collections.Counter()
        self.digests = set()
        self.evaluations = 0
        self.notes = []
        self.extras = {}

    # -- evidence ---------------------------------------------------------
    def count(self, name, n=1):
        self.counters[name] += n

    def maxstat(self, name, value):
        if value > self.maxima.get(name, float("-inf")):
            self.maxima[name] = value

    def case(self, digest_src, nontrivial=True):
        """One explored case.  digest_src identifies the case structurally."""
        self.evaluations += 1
        if nontrivial:
            self.digests.add(stable_hash(digest_src))

    def sample(self, obj, force=False):
        if force or len(self.samples) < self.MAX_SAMPLES:
            self.samples.append(obj)

    def sample_maybe(self, obj, p=0.001):
        if len(self.samples) < self.MAX_SAMPLES and self.rng.random() < p:
            self.samples.append(obj)

    def note(self, s):
        if len(self.notes) < 20:
            self.notes.append(s)

    # -- verdicts ---------------------------------------------------------
    def violation(self, key, what, replay=None):
        """key: mechanism key (never a seed or witness hash)."""
        self.viol_counts[key] += 1
        lst = self.violations.setdefault(key, [])
        if len(lst) < self.MAX_VIOL_PER_KEY:
            lst.append({"key": key, "what": what, "replay": replay or {}})

    def dump(self, path):
        arr = array.array("Q", sorted(self.digests))
        with open(path + ".dig", "wb") as f:
            arr.tofile(f)
        doc = {
            "shard": self.shard,
            "counters": dict(self.counters),
            "maxima": self.maxima,
            "samples": self.samples,
            "violations": self.violations,
            "viol_counts": dict(self.viol_counts),
            "evaluations": self.evaluations,
            "notes": self.notes,
            "extras": self.extras,
        }
        with open(path, "w") as f:
            json.dump(doc, f, default=repr)


# ---------------------------------------------------------------------------
# M1: logical step clock (sys.monitoring) and boundary observer
# ---------------------------------------------------------------------------

class StepBudgetExceeded(BaseException):
    """Derives from BaseException on purpose: the code under test has
    `except Exception:` handlers that must not swallow the budget signal."""


class StepClock:
    TOOL = 3

    def __init__(self, jumps=True):
        self.mon = sys.monitoring
        self.steps = 0
        self.limit = 0
        self.active = False
        self.jumps = jumps
        self.events = self.mon.events.PY_START
        if jumps:
            self.events |= self.mon.events.JUMP
        try:
            self.mon.use_tool_id(self.TOOL, "cklverif")
        except ValueError:
            pass
        self.mon.register_callback(self.TOOL, self.mon.events.PY_START,
                                   self._on_start)
        if jumps:
            self.mon.register_callback(self.TOOL, self.mon.events.JUMP,
                                       self._on_jump)

    def _on_start(self, code, offset):
        if self.active:
            self.steps += 1
            if self.steps > self.limit:
                raise StepBudgetExceeded()

    def _on_jump(self, code, src, dst):
        if self.active and dst < src:
            self.steps += 1
            if self.steps > self.limit:
                raise StepBudgetExceeded()

    def run(self, fn, limit):
        """Run fn() under a budget of `limit` logical steps.
        Returns (kind, payload, steps); kind in value|exc|hang."""
        self.steps = 0
        self.limit = limit
        self.active = True
        self.mon.set_events(self.TOOL, self.events)
        try:
            try:
                r = fn()
                return ("value", r, self.steps)
            except StepBudgetExceeded:
                return ("hang", None, self.steps)
            except BaseException as e:  # noqa
                if self.steps > self.limit:
                    # budget spent; some handler converted our signal
                    return ("hang", None, self.steps)
                if isinstance(e, (KeyboardInterrupt, SystemExit)):
                    raise
                return ("exc", e, self.steps)
        finally:
            self.active = False
            self.mon.set_events(self.TOOL, 0)


_clock = None


def clock():
    global _clock
    if _clock is None:
        _clock = StepClock()
    return _clock


def innermost_ckl_frame(exc):
    """(function name, file basename) of the innermost frame inside ckl/."""
    tb = exc.__traceback__
    best = None
    while tb is not None:
        co = tb.tb_frame.f_code
        fn = co.co_filename
        if os.sep + "ckl" + os.sep in fn and "verif" not in fn:
            qual = getattr(co, "co_qualname", co.co_name)
            best = (qual, os.path.basename(fn))
        tb = tb.tb_next
    return best or ("?", "?")


class Outcome:
    """Classified result of one observed call."""
    __slots__ = ("kind", "value", "exc", "steps", "site")

    def __init__(self, kind, value=None, exc=None, steps=0, site=None):
        self.kind = kind      # value | rte | syntax | host | hang
        self.value = value
        self.exc = exc
        self.steps = steps
        self.site = site

    def brief(self):
        if self.kind == "value":
            return ("value", safe_str(self.value))
        if self.kind == "rte":
            return ("rte", safe_str(getattr(self.exc, "value", None)))
        if self.kind == "syntax":
            return ("syntax",)
        if self.kind == "host":
            return ("host", type(self.exc).__name__, self.site)
        return ("hang",)


def value_malformed(v, depth=0, budget=None):
    """None if v is a well-formed language value (payloads of the host types each value class promises, containers
    holding values, and a text form that can be produced), else a short description.  Walks at most 3000 nodes."""
    import ckl.values as V
    import datetime
    if budget is None:
        budget = [3000]
    budget[0] -= 1
    if budget[0] < 0 or depth > 60:
        return None
    if not isinstance(v, V.Value):
        return "a %s where a value is expected" % type(v).__name__
    t = type(v).__name__
    p = getattr(v, "value", None)
    if t == "ValueString" and type(p) is not str:
        return "a string value around %r" % (p,)
    if t == "ValueInt" and type(p) is not int:
        return "an int value around %r" % (p,)
    if t == "ValueDecimal" and type(p) is not float:
        return "a decimal value around %r" % (p,)
    if t == "ValueBoolean" and type(p) is not bool:
        return "a boolean value around %r" % (p,)
    if t == "ValueDate" and not isinstance(p, datetime.datetime):
        return "a date value around %r" % (p,)
    if t == "ValueList":
        if type(p) is not list:
            return "a list value around %r" % type(p).__name__
        for x in p:
            bad = value_malformed(x, depth + 1, budget)
            if bad:
                return "a list holding " + bad
    elif t == "ValueSet":
        for x in list(p):
            bad = value_malformed(x, depth + 1, budget)
            if bad:
                return "a set holding " + bad
    elif t in ("ValueMap",):
        for k_, x in list(p.items()):
            bad = value_malformed(k_, depth + 1, budget) or value_malformed(x, depth + 1, budget)
            if bad:
                return "a map holding " + bad
    elif t == "ValueObject":
        for k_, x in list(p.items()):
            if type(k_) is not str:
                return "an object with member name %r" % (k_,)
            bad = value_malformed(x, depth + 1, budget)
            if bad:
                return "an object holding " + bad
    return None


def safe_str(v, limit=300):
    try:
        s = str(v)
    except BaseException as e:  # noqa
        s = "<str failed: %s>" % type(e).__name__
    return s if len(s) <= limit else s[:limit] + "..."


def observe(fn, budget=200000):
    import ckl.errors
    kind, payload, steps = clock().run(fn, budget)
    if kind == "value":
        return Outcome("value", value=payload, steps=steps)
    if kind == "hang":
        return Outcome("hang", steps=steps)
    e = payload
    if isinstance(e, ckl.errors.CklRuntimeError):
        return Outcome("rte", exc=e, steps=steps)
    if isinstance(e, ckl.errors.CklSyntaxError):
        return Outcome("syntax", exc=e, steps=steps)
    return Outcome("host", exc=e, steps=steps, site=innermost_ckl_frame(e))


def rte_wellformed(e):
    import ckl.values
    return isinstance(getattr(e, "value", None), ckl.values.Value)


def syntax_wellformed(e, filename):
    msg = getattr(e, "msg", None)
    pos = getattr(e, "pos", None)
    if not isinstance(msg, str) or not msg:
        return "message missing"
    if pos is None:
        return "position missing"
    if getattr(pos, "filename", None) != filename:
        return "position names file %r" % (getattr(pos, "filename", None),)
    line = getattr(pos, "line", None)
    if not isinstance(line, int) or isinstance(line, bool) or line < 1:
        return "line is %r" % (line,)
    return None


# ---------------------------------------------------------------------------
# interpreter helpers
# ---------------------------------------------------------------------------

def new_interpreter(secure=False, legacy=True, stdin_text=""):
    import ckl.interpreter
    import ckl.values
    it = ckl.interpreter.Interpreter(secure, legacy)
    out = ckl.values.StringOutput()
    it.setStandardOutput(out)
    it.setStandardInput(ckl.values.StringInput(stdin_text))
    return it, out


def fresh_env(it=None):
    """A fresh parentless scope; Interpreter.interpret(..., environment=env)
    parents it on the session environment (as the repository's tests do), so
    one (expensive) interpreter serves many independent programs.  NB: passing
    it.environment.newEnv() instead would make interpret() create a parent
    cycle (base -> session -> base)."""
    import ckl.functions
    return ckl.functions.Environment()
