"""M6 — access monitor for C09: sys.addaudithook plus wrappers on the stat
family (which raises no audit event).  Active only while `armed`; forbidden
events are recorded and then blocked by raising from the hook, so that an
escape cannot damage the machine.  Process-wide and irreversible: used only in
dedicated shard processes."""
import os
import sys

FORBIDDEN_PREFIXES = ("os.listdir", "os.scandir", "os.mkdir", "os.rmdir", "os.remove", "os.rename", "os.chmod",
                      "os.chown", "os.utime", "os.link", "os.symlink", "os.truncate", "shutil.", "subprocess.Popen",
                      "os.system", "os.exec", "os.posix_spawn", "os.fork", "os.forkpty", "os.spawn", "os.startfile",
                      "os.chdir", "os.putenv", "os.unsetenv", "pty.spawn", "socket.connect", "socket.bind", "ctypes.dlopen",
                      "os.walk", "glob.glob", "tempfile.mkstemp", "tempfile.mkdtemp", "os.kill", "os.killpg")


class Blocked(PermissionError):
    pass


class AccessMonitor:
    def __init__(self):
        self.armed = False
        self.busy = False
        self.events = []          # (event, brief args, allowed?, callee on stack)
        self.counts = {"allowed": 0, "forbidden": 0, "stat_in_canary": 0, "seen": 0}
        self.canary = None
        self.allowed_roots = []
        self.block = True
        self.installed = False

    def install(self, canary, allowed_roots):
        self.canary = os.path.realpath(canary)
        self.allowed_roots = [os.path.realpath(p) for p in allowed_roots]
        if self.installed:
            return
        self.installed = True
        mon = self

        def hook(event, args):
            if not mon.armed or mon.busy:
                return
            mon.busy = True
            try:
                mon.on_event(event, args)
            finally:
                mon.busy = False
        sys.addaudithook(hook)
        for name in ("stat", "lstat"):
            orig = getattr(os, name)

            def wrapped(path, *a, _orig=orig, _name=name, **k):
                if mon.armed and not mon.busy:
                    mon.busy = True
                    try:
                        mon.on_stat(_name, path)
                    finally:
                        mon.busy = False
                return _orig(path, *a, **k)
            setattr(os, name, wrapped)

    def in_canary(self, path):
        try:
            p = os.fspath(path)
            if isinstance(p, bytes):
                p = p.decode("utf-8", "replace")
            p = os.path.realpath(p)
        except Exception:  # noqa
            return False
        return p == self.canary or p.startswith(self.canary + os.sep)

    def stack_callee(self):
        """innermost ckl Func*/Node* frame (walked by hand: traceback/linecache would recurse into open())"""
        f = sys._getframe(2)
        best = None
        req = False
        n = 0
        while f is not None and n < 200:
            co = f.f_code
            fn = co.co_filename
            if "/ckl/" in fn and "/verif/" not in fn:
                q = getattr(co, "co_qualname", co.co_name)
                if best is None:
                    best = q
                if q.startswith("NodeRequire."):
                    req = True
            f = f.f_back
            n += 1
        return best, req

    def on_stat(self, name, path):
        if self.in_canary(path):
            callee, req = self.stack_callee()
            if req and str(path).endswith(".ckl"):
                # require looking for the module file it was asked for (the module path may point anywhere)
                self.counts["allowed"] += 1
                return
            self.counts["stat_in_canary"] += 1
            self.record("os." + name, str(path), False, callee)

    def on_event(self, event, args):
        self.counts["seen"] += 1
        if event == "open":
            path, mode = args[0], args[1]
            callee, req = self.stack_callee()
            if callee is None:
                return                     # not caused by interpreter code (harness, import system)
            sp = str(path)
            write = mode is not None and any(c in str(mode) for c in "wax+")
            if getattr(self, "constructing", False) and not write and "/ckl/modules/" in sp.replace(os.sep, "/"):
                # the interpreter reading its own bundled modules while it is being built
                self.counts["allowed"] += 1
                return
            if req and not write and (not self.in_canary(path) or sp.endswith(".ckl")):
                # module source read by require: bundled module, ~/.ckl/modules or the module path
                self.counts["allowed"] += 1
                self.record("open", sp, True, callee)
                return
            self.record("open", "%s mode=%s" % (sp, mode), False, callee)
            if self.block:
                raise Blocked("blocked by verification monitor: open %s" % sp)
            return
        if event.startswith(FORBIDDEN_PREFIXES):
            callee, req = self.stack_callee()
            if callee is None and not any(self.in_canary(a) for a in args if isinstance(a, (str, bytes, os.PathLike))):
                return
            if req and event in ("os.listdir", "os.scandir") and not any(self.in_canary(a) for a in args if isinstance(a, (str, bytes))):
                self.counts["allowed"] += 1        # pkgutil / importlib resource lookup for a bundled module
                return
            self.record(event, repr(args)[:200], False, callee)
            if self.block:
                raise Blocked("blocked by verification monitor: %s" % event)

    def record(self, event, what, allowed, callee):
        if not allowed:
            self.counts["forbidden"] += 1
        if len(self.events) < 5000:
            self.events.append((event, what, allowed, callee))

    def take(self):
        ev = self.events
        self.events = []
        return ev


MONITOR = AccessMonitor()
