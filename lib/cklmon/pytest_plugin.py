"""M9 — runs the repository's own test-suite with the always-on monitors active
(CKL_VERIF=1):  pytest -p cklmon.pytest_plugin

M2 value-law wrappers, M5 argument-mutation monitor and the payload invariants
then see every comparison, construction and library call the 854 tests make.
Results go to the JSON file named by CKL_VERIF_OUT."""
import json
import os
import sys


def pytest_configure(config):
    if os.environ.get("CKL_VERIF") != "1":
        return
    here = os.path.dirname(os.path.dirname(os.path.abspath(__file__)))
    if here not in sys.path:
        sys.path.insert(0, here)
    from cklmon import valuelaws, mutation
    import ckl.values as V
    which = os.environ.get("CKL_VERIF_MONITORS", "M2,M5,payload").split(",")
    state = {"which": which, "payload_checks": 0, "payload_bad": []}
    config._ckl_state = state
    if "M2" in which:
        valuelaws.MONITOR.install()
    if "M5" in which:
        mutation.MONITOR.install()
    if "payload" in which:
        orig_int = V.ValueInt.__init__

        def int_init(self, value):
            orig_int(self, value)
            state["payload_checks"] += 1
            if type(value) is not int and len(state["payload_bad"]) < 50:
                state["payload_bad"].append(("int", repr(value)))
        V.ValueInt.__init__ = int_init
        orig_dec = V.ValueDecimal.__init__

        def dec_init(self, value):
            orig_dec(self, value)
            state["payload_checks"] += 1
            if type(value) is not float and len(state["payload_bad"]) < 50:
                state["payload_bad"].append(("decimal", repr(value)))
        V.ValueDecimal.__init__ = dec_init
        orig_add = V.ValueList.addItem

        def add_item(self, item):
            state["payload_checks"] += 1
            if not isinstance(item, V.Value) and len(state["payload_bad"]) < 50:
                state["payload_bad"].append(("list-item", repr(item)[:60]))
            return orig_add(self, item)
        V.ValueList.addItem = add_item


def pytest_sessionfinish(session, exitstatus):
    state = getattr(session.config, "_ckl_state", None)
    out = os.environ.get("CKL_VERIF_OUT")
    if state is None or not out:
        return
    from cklmon import valuelaws, mutation
    doc = {"exitstatus": int(exitstatus), "tests": session.testscollected,
           "m2_counts": dict(valuelaws.MONITOR.counts), "m2_violations": valuelaws.MONITOR.violations[:100],
           "m5_calls": mutation.MONITOR.calls, "m5_snapshots": mutation.MONITOR.snapshots,
           "m5_findings": [list(f) for f in mutation.MONITOR.findings[:100]],
           "payload_checks": state["payload_checks"], "payload_bad": state["payload_bad"]}
    with open(out, "w") as f:
        json.dump(doc, f, default=repr)
