"""Parent driver: ./bin/check <Cxx> [--tier quick|thorough] [--replay path]

Cuts the property's workload into shards, runs each shard in a fresh
interpreter process (subprocess.run with a timeout; never multiprocessing),
merges what the monitors observed, classifies violations against
known_findings.json, writes evidence/<id>.json and prints the verdict.

exit 0: held on everything observed (KNOWN-FINDING lines for listed findings)
exit 1: VIOLATION property=<id> replay=<path>
exit 2: INCONCLUSIVE property=<id> reason=...   (never folded into 0 or 1)
"""
import argparse
import array
import collections
import concurrent.futures
import importlib
import json
import os
import shutil
import subprocess
import sys
import tempfile
import time

HERE = os.path.dirname(os.path.abspath(__file__))
LIB = os.path.dirname(HERE)
VERIF = os.path.dirname(LIB)
sys.path.insert(0, LIB)
sys.path.insert(0, VERIF)

from cklmon import core  # noqa: E402

PY = "/venv/bin/python"


def load_check(prop):
    return importlib.import_module("checks." + prop)


def load_known():
    path = os.path.join(VERIF, "known_findings.json")
    if not os.path.exists(path):
        return {"findings": [], "fixed": []}
    with open(path) as f:
        return json.load(f)


def run_one_shard(prop, tier, seed, idx, spec, outdir, timeout):
    out = os.path.join(outdir, "shard%04d.json" % idx)
    env = dict(os.environ)
    env["PYTHONDONTWRITEBYTECODE"] = "1"
    env.setdefault("PYTHONHASHSEED", "0")
    if "hashseed" in spec:
        env["PYTHONHASHSEED"] = str(spec["hashseed"])
    for k_, v_ in (spec.get("env") or {}).items():     # e.g. TZ for a shard that runs under another host time zone
        env[k_] = str(v_)
    env["PYTHONPATH"] = os.pathsep.join(
        [os.path.join(core.REPO, "src"), LIB, VERIF,
         os.path.join(VERIF, ".deps")])
    home = os.path.join(outdir, "home%04d" % idx)
    os.makedirs(home, exist_ok=True)
    env["HOME"] = home
    env["CKL_VERIF"] = "1"
    cmd = [PY, "-B", os.path.join(HERE, "shard.py"), prop, tier, str(seed),
           str(idx), json.dumps(spec), out, str(timeout)]
    t0 = time.time()
    try:
        p = subprocess.run(cmd, env=env, cwd=home, stdout=subprocess.PIPE,
                           stderr=subprocess.PIPE, timeout=timeout + 30)
        rc = p.returncode
        err = p.stderr.decode("utf-8", "replace")[-3000:]
    except subprocess.TimeoutExpired as e:
        rc = -9
        err = "parent timeout; " + (e.stderr or b"").decode("utf-8", "replace")[-2000:]
    dt = time.time() - t0
    doc = None
    if os.path.exists(out):
        try:
            with open(out) as f:
                doc = json.load(f)
        except Exception as e:  # noqa
            err += "\nunreadable shard output: %r" % (e,)
    digs = array.array("Q")
    if os.path.exists(out + ".dig"):
        with open(out + ".dig", "rb") as f:
            data = f.read()
        digs.frombytes(data)
    return idx, rc, doc, digs, err, dt


def main():
    ap = argparse.ArgumentParser()
    ap.add_argument("prop")
    ap.add_argument("--tier", default=os.environ.get("VERIF_TIER", "quick"),
                    choices=["quick", "thorough"])
    ap.add_argument("--replay")
    ap.add_argument("--jobs", type=int,
                    default=int(os.environ.get("VERIF_JOBS", "16")))
    ap.add_argument("--keep", action="store_true")
    args = ap.parse_args()
    prop = args.prop
    seed = int(os.environ.get("VERIF_SEED", "0") or 0)
    check = load_check(prop)

    if args.replay:
        sys.exit(replay(prop, check, args.replay))

    t0 = time.time()
    tier = args.tier
    specs = check.plan(tier, seed)
    timeout = getattr(check, "SHARD_TIMEOUT", {"quick": 240, "thorough": 2400})[tier]
    outdir = tempfile.mkdtemp(prefix="cklverif-%s-" % prop)
    results = []
    try:
        with concurrent.futures.ThreadPoolExecutor(max_workers=args.jobs) as ex:
            futs = [ex.submit(run_one_shard, prop, tier, seed, i, spec, outdir,
                              timeout) for i, spec in enumerate(specs)]
            for f in concurrent.futures.as_completed(futs):
                results.append(f.result())
    finally:
        if not args.keep:
            shutil.rmtree(outdir, ignore_errors=True)
    results.sort(key=lambda r: r[0])

    counters = collections.Counter()
    maxima = {}
    samples = []
    violations = {}
    viol_counts = collections.Counter()
    evaluations = 0
    notes = []
    digests = set()
    inconclusive = []
    for idx, rc, doc, digs, err, dt in results:
        if doc is None or rc != 0:
            inconclusive.append("shard %d (%s) exit=%s: %s" % (
                idx, specs[idx].get("kind", ""), rc,
                err.strip().splitlines()[-1] if err.strip() else "no output"))
            if doc is None:
                continue
        counters.update(doc["counters"])
        for k, v in doc["maxima"].items():
            if v > maxima.get(k, float("-inf")):
                maxima[k] = v
        for s in doc["samples"]:
            samples.append(s)
        for k, lst in doc["violations"].items():
            violations.setdefault(k, []).extend(lst)
        viol_counts.update(doc["viol_counts"])
        evaluations += doc["evaluations"]
        notes.extend(doc["notes"])
        digests.update(digs)

    shard_docs = [(specs[idx], (doc or {}).get("extras", {}))
                  for idx, rc, doc, digs, err, dt in results]
    merged = {"shard_docs": shard_docs, "counters": counters, "maxima": maxima, "evaluations": evaluations,
              "distinct": len(digests), "tier": tier, "seed": seed}
    extra, reasons = ({}, [])
    if hasattr(check, "finalize"):
        res = check.finalize(merged, tier)
        extra, reasons = res[0], res[1]
        if len(res) > 2:
            for key, what, rp in res[2]:
                violations.setdefault(key, []).append(
                    {"key": key, "what": what, "replay": rp})
                viol_counts[key] += 1
    inconclusive.extend(reasons)

    known = load_known()
    known_keys = {f["key"]: f for f in known.get("findings", [])
                  if f.get("property") == prop}
    known_seen = []
    new_viol = []
    for key in sorted(violations):
        if key in known_keys:
            known_seen.append(key)
        else:
            new_viol.append(key)

    # spread samples across shards
    step = max(1, len(samples) // 16)
    samples = samples[::step][:16]

    coverage = {
        "evaluations": evaluations,
        "distinct_nontrivial": len(digests),
        "rule": check.RULE,
        "samples": samples,
        "monitor_events": dict(sorted(counters.items())),
        "maxima": maxima,
        "shards": len(specs),
        "known_findings_seen": {k: viol_counts[k] for k in known_seen},
        "inconclusive_reasons": inconclusive,
    }
    coverage.update(extra)
    if notes:
        coverage["notes"] = notes[:20]
    evidence = {
        "property_id": prop,
        "tier": tier,
        "seed": seed,
        "level": getattr(check, "LEVEL", "exploration"),
        "coverage": coverage,
        "assumptions": getattr(check, "ASSUMPTIONS", []),
        "wall_s": round(time.time() - t0, 2),
        "violations": sum(viol_counts[k] for k in new_viol),
    }
    evdir = os.environ.get("VERIF_EVIDENCE_DIR") or os.path.join(VERIF, "evidence")
    os.makedirs(evdir, exist_ok=True)
    with open(os.path.join(evdir, prop + ".json"), "w") as f:
        json.dump(evidence, f, indent=1, default=repr, sort_keys=True)
        f.write("\n")

    print("%s tier=%s seed=%d: %d evaluations, %d distinct non-trivial, "
          "%d shards, %.1fs" % (prop, tier, seed, evaluations, len(digests),
                                len(specs), time.time() - t0))
    for k, v in sorted(counters.items()):
        print("  %-40s %d" % (k, v))
    for key in known_seen:
        print("KNOWN-FINDING: property=%s %s -- %s (seen %d times)" % (
            prop, key, known_keys[key].get("what", ""), viol_counts[key]))
    if new_viol:
        rpdir = os.environ.get("VERIF_REPLAY_DIR") or os.path.join(VERIF, "replays")
        os.makedirs(rpdir, exist_ok=True)
        for key in new_viol:
            rec = violations[key][0]
            dig = "%016x" % core.stable_hash(key)
            path = os.path.join(rpdir, "%s-%s.json" % (prop, dig))
            with open(path, "w") as f:
                json.dump({"property": prop, "seed": seed, "tier": tier,
                           "count": viol_counts[key],
                           "records": violations[key]}, f, indent=1,
                          default=repr)
            print("  violation key=%s count=%d: %s" % (
                key, viol_counts[key], core.safe_str(rec["what"], 400)))
            print("VIOLATION property=%s replay=%s" % (prop, path))
        sys.exit(1)
    if inconclusive:
        for r in inconclusive:
            print("INCONCLUSIVE property=%s reason=%s" % (prop, r))
        sys.exit(2)
    print("HELD property=%s on everything observed" % prop)
    sys.exit(0)


def replay(prop, check, path):
    with open(path) as f:
        doc = json.load(f)
    if not hasattr(check, "replay"):
        print("replay: %s has no replayer; records follow" % prop)
        print(json.dumps(doc, indent=1))
        return 0
    core.import_ckl()
    bad = 0
    for rec in doc["records"]:
        res = check.replay(rec)
        print("replay key=%s -> %s" % (rec["key"], res))
        if res and res.get("violated"):
            bad += 1
    if bad:
        print("VIOLATION property=%s replay=%s" % (prop, path))
        return 1
    return 0


if __name__ == "__main__":
    main()
