"""M4 — scope-event monitor (C03): wrappers on Environment.newEnv,
FuncLambda.execute, NodeAssign.evaluate, NodeDef.evaluate.  Online checks:

  * an assignment never changes the key set of any environment on its chain
    (it updates an existing binding, it never creates one);
  * the environment a function body runs in is a *fresh* child of the
    environment captured when the function value was created (never of the
    caller's, never shared between calls);
  * def writes into the environment of the innermost enclosing function call,
    a module environment, or the top-level environment it was given."""
import collections


class EnvTrace:
    def __init__(self):
        self.counts = collections.Counter()
        self.findings = []
        self.installed = False
        self.exec_stack = []          # [expected parent env, seen newEnv?]
        self.frames = []              # strong refs to every call frame of the current program
        self.frame_ids = set()
        self.roots = set()
        self.hooks_missing = []

    def report(self, key, what):
        if len(self.findings) < 100:
            self.findings.append((key, what))

    def new_program(self, top_env):
        self.frames = []
        self.frame_ids = set()
        self.exec_stack = []
        self.top_env = top_env

    def install(self):
        import ckl.functions as F
        import ckl.nodes as N
        if self.installed:
            return
        self.installed = True
        mon = self
        try:
            orig_new = F.Environment.newEnv

            def newEnv(self):
                child = orig_new(self)
                if mon.exec_stack and not mon.exec_stack[-1][1]:
                    exp = mon.exec_stack[-1][0]
                    mon.exec_stack[-1][1] = True
                    mon.counts["call_frames"] += 1
                    if self is not exp:
                        mon.report("frame-parent", "call frame is a child of %s, the function was created in %s" % (
                            _desc(self), _desc(exp)))
                    if child is self or id(child) in mon.frame_ids:
                        mon.report("frame-shared", "call frame reused between calls")
                    mon.frames.append(child)
                    mon.frame_ids.add(id(child))
                return child
            F.Environment.newEnv = newEnv
        except Exception:  # noqa
            self.hooks_missing.append("Environment.newEnv")
        try:
            orig_exec = F.FuncLambda.execute

            def execute(self, args, environment, pos):
                mon.exec_stack.append([self.lexicalEnv, False])
                try:
                    return orig_exec(self, args, environment, pos)
                finally:
                    ent = mon.exec_stack.pop()
                    if not ent[1]:
                        mon.counts["calls_without_new_frame"] += 1
                        mon.report("frame-missing", "a function call created no new frame")
            F.FuncLambda.execute = execute
        except Exception:  # noqa
            self.hooks_missing.append("FuncLambda.execute")
        try:
            orig_assign = N.NodeAssign.evaluate

            def assign_evaluate(self, environment):
                before = _keysets(environment)
                try:
                    return orig_assign(self, environment)
                finally:
                    mon.counts["assignments"] += 1
                    after = _keysets(environment)
                    if before != after and not _rhs_defines(self):
                        mon.report("assignment-created-binding",
                                   "assignment to %s changed the set of bound names: %r -> %r" % (
                                       self.identifier, _diff(before, after), ""))
            N.NodeAssign.evaluate = assign_evaluate
        except Exception:  # noqa
            self.hooks_missing.append("NodeAssign.evaluate")
        try:
            orig_def = N.NodeDef.evaluate

            def def_evaluate(self, environment):
                r = orig_def(self, environment)
                mon.counts["defs"] += 1
                ok = (id(environment) in mon.frame_ids or environment is getattr(mon, "top_env", None)
                      or environment.parent is None or _is_module_env(environment))
                if ok and self.identifier not in environment.map:
                    mon.report("def-wrong-scope", "def %s did not bind in the current scope" % self.identifier)
                if not ok:
                    mon.counts["defs_in_other_env"] += 1
                return r
            N.NodeDef.evaluate = def_evaluate
        except Exception:  # noqa
            self.hooks_missing.append("NodeDef.evaluate")

    def drain(self, ctx, prefix):
        for k, v in self.counts.items():
            ctx.count("env_" + k, v)
        self.counts.clear()
        for key, what in self.findings:
            ctx.violation("%s:M4:%s" % (prefix, key), what, {"monitor": "M4"})
        self.findings = []
        if self.hooks_missing:
            ctx.extras["hooks_missing"] = list(self.hooks_missing)


def _keysets(env):
    out = []
    e = env
    n = 0
    while e is not None and n < 200:
        out.append((id(e), frozenset(e.map.keys())))
        e = e.parent
        n += 1
    return out


def _diff(before, after):
    out = []
    for (i, a), (j, b) in zip(before, after):
        if a != b:
            out.append(sorted(b ^ a))
    return out


def _rhs_defines(node):
    """the right-hand side itself contains a def executed in the same scope (e.g. x = (def y = 1))"""
    import ckl.nodes as N
    seen = 0
    stack = [node.expression]
    while stack and seen < 2000:
        n = stack.pop()
        seen += 1
        if isinstance(n, (N.NodeDef, N.NodeDefDestructuring, N.NodeFor, N.NodeRequire, N.NodeClass)):
            return True
        if isinstance(n, N.NodeLambda):
            continue
        for v in vars(n).values() if hasattr(n, "__dict__") else []:
            if isinstance(v, list):
                for x in v:
                    if hasattr(x, "evaluate"):
                        stack.append(x)
                    elif isinstance(x, (list, tuple)):
                        stack.extend(y for y in x if hasattr(y, "evaluate"))
            elif hasattr(v, "evaluate"):
                stack.append(v)
    return False


def _is_module_env(env):
    base = env
    n = 0
    while base.parent is not None and n < 200:
        base = base.parent
        n += 1
    mods = getattr(base, "modules", {})
    return any(m is env for m in mods.values()) or (env.parent is base)


def _desc(env):
    return "env#%x(%s)" % (id(env) & 0xFFFF, ",".join(sorted(list(env.map.keys()))[:4]))


TRACE = EnvTrace()
