"""The C13/C16 call matrix: forms x pool and library callees x pool tuples,
executed through Interpreter.interpret (the real call path)."""
import itertools

from cklgen import pool as P
from cklmon import core

MODULES = ["Bitwise", "Core", "Date", "IO", "List", "Math", "OS", "Predicate",
           "Random", "Set", "Stat", "String", "Sys", "Type"]
VARS = ["a", "b", "c"]


def discover_callees(legacy=True):
    """[(display name, call expression, argnames)] for every function reachable by
    name in a non-secure interpreter of the given flavour."""
    it, out = core.new_interpreter(secure=False, legacy=legacy)
    res = []
    env = it.base_environment
    for name in env.getSymbols():
        v = env.get(name)
        if v.isFunc():
            res.append((name, name, list(v.getArgNames())))
    if not legacy:
        import ckl.functions
        for m in MODULES:
            e = ckl.functions.Environment()
            try:
                it.interpret("require %s" % m, "disc", e)
                mod = e.get(m)
            except Exception:  # noqa
                continue
            for member, v in mod.value.items():
                if v.isFunc():
                    res.append(("%s->%s" % (m, member), "%s->%s" % (m, member), list(v.getArgNames())))
    return res


def max_arity(argnames, cap):
    if any(a.endswith("...") for a in argnames):
        return cap
    return min(len(argnames), cap)


class Names(tuple):
    """the pool names of a case; may carry .inline, the case written as a single expression"""


def call_cases(callees, max_ar, rng=None, triple_sample=None):
    """yield (callee display, kind, program text, names tuple)"""
    for disp, expr, argnames in callees:
        k_max = max_arity(argnames, max_ar)
        for k in range(0, k_max + 1):
            tuples = itertools.product(P.POOL_NAMES, repeat=k)
            if k == 3 and triple_sample is not None:
                tuples = [tuple(rng.choice(P.POOL_NAMES) for _ in range(3)) for _ in range(triple_sample)]
                # a sample of triples rarely meets the one combination a position-taking function depends on: every
                # sequence-like first argument with every int of the pool in second or third place, the remaining place
                # running over the whole pool
                seqs = [n for n in ("list-ints", "str-abc", "list-empty", "str-empty", "set-ints", "map-str") if n in P.POOL_NAMES]
                ints = [n for n in P.POOL_NAMES if n.startswith("int")]
                tuples += [(q, i, x) for q in seqs for i in ints for x in P.POOL_NAMES] + [(q, x, i) for q in seqs for i in ints for x in P.POOL_NAMES if not x.startswith("int")]
            for names in tuples:
                pre = "; ".join("def %s = %s" % (VARS[i], P.POOL_SRC[n]) for i, n in enumerate(names))
                call = "%s(%s)" % (expr, ", ".join(VARS[:k]))
                names = Names(names)
                # the same call as a program that is one expression and nothing else (no block around it)
                names.inline = "%s(%s)" % (expr, ", ".join("(%s)" % P.POOL_SRC[n] for n in names))
                yield disp, "call", (pre + "; " if pre else "") + call, names
        # the very same value in two (three) argument positions
        if k_max >= 2:
            for n in P.POOL_NAMES:
                yield disp, "call", "def a = %s; %s(a, a)" % (P.POOL_SRC[n], expr), (n, "=same")
                if k_max >= 3:
                    yield disp, "call", "def a = %s; %s(a, a, a)" % (P.POOL_SRC[n], expr), (n, "=same", "=same")
        # one-at-a-time named arguments beyond position 3
        plain = [a for a in argnames if not a.endswith("...")]
        for idx in range(3, len(plain)):
            for n1 in ("str-abc", "list-ints", "NULL"):
                for n2 in P.POOL_NAMES:
                    prog = "def a = %s; def b = %s; %s(a, %s = b)" % (P.POOL_SRC[n1], P.POOL_SRC[n2], expr, plain[idx])
                    yield disp, "named", prog, (n1, plain[idx] + "=" + n2)


def form_cases():
    for fname, text, k in P.FORMS:
        for names in itertools.product(P.POOL_NAMES, repeat=k):
            pre = "; ".join("def %s = %s" % (VARS[i], P.POOL_SRC[n]) for i, n in enumerate(names))
            yield "form:" + fname, "form", pre + "; " + text, names


def unbound_names_in_modules(ctx, prop, modules, budget=400000, max_ar=2, sample=None):
    """A bundled module's function must not fail for want of a name: reached as `M->f(...)` after `require M` in a
    non-legacy interpreter (where only the core names are bound unqualified), no call over the value pool may end in
    "Symbol '<name>' not defined" for a name the program itself never mentions.  (stat.ckl's geometric_mean used
    `prod`, which only legacy mode binds unqualified.)"""
    import re
    import ckl.functions
    mod, _ = core.new_interpreter(secure=True, legacy=False)
    callees = []
    for m in modules:
        e = ckl.functions.Environment()
        try:
            mod.interpret("require %s" % m, "disc", e)
            mo = e.get(m)
        except Exception as ex:  # noqa
            ctx.violation("%s:module-does-not-load:%s" % (prop, m), "require %s in a non-legacy interpreter: %s" % (m, core.safe_str(ex, 150)), {})
            continue
        for member, v in sorted(mo.value.items()):
            if v.isFunc():
                callees.append((m, member, list(v.getArgNames())))
    rng = ctx.rng
    # names a secure interpreter deliberately leaves unbound (file / process natives) are not "missing"
    open_it, _ = core.new_interpreter(secure=False, legacy=True)
    closed_it, _ = core.new_interpreter(secure=True, legacy=True)
    withheld = set(open_it.base_environment.getSymbols()) - set(closed_it.base_environment.getSymbols())
    names_ok = [n for n in P.POOL_NAMES if n not in ("input", "output")]     # (their pool sources are legacy spellings)
    for m, member, argnames in callees:
        k_max = max_arity(argnames, max_ar)
        for k in range(0, k_max + 1):
            tuples = list(itertools.product(names_ok, repeat=k))
            if sample is not None and len(tuples) > sample:
                tuples = rng.sample(tuples, sample)
            for names in tuples:
                pre = "; ".join("def %s = %s" % (VARS[i], P.POOL_SRC[n]) for i, n in enumerate(names))
                text = "%srequire %s; %s->%s(%s)" % (pre + "; " if pre else "", m, m, member, ", ".join(VARS[:k]))
                env = ckl.functions.Environment()
                o = core.observe(lambda: mod.interpret(text, "unbound", env), budget)
                ctx.count("qualified_calls")
                ctx.case(("qualified", m, member, names), nontrivial=True)
                if o.kind == "rte":
                    msg = str(getattr(o.exc, "msg", ""))
                    mm = re.search(r"Symbol '?([A-Za-z_][A-Za-z_0-9]*)'? not defined", msg)
                    if mm and mm.group(1) not in VARS and mm.group(1) not in text and mm.group(1) not in withheld:
                        ctx.violation("%s:module-function-needs-unbound-name:%s->%s:%s" % (prop, m, member, mm.group(1)),
                                      "%s -> %s" % (text, msg[:200]), {"src": text})
