"""M5 — argument-mutation monitor: wraps ckl.nodes.invoke (the single call path)
and snapshots every argument of every call to a *library* function (native
ValueFunc, or a FuncLambda whose body comes from a bundled module / the base
scripts) before and after the call."""
import collections

MUTATORS = {"append": 0, "append_all": 0, "insert_at": 0, "delete_at": 0, "remove": 0, "put": 0}
CONTAINER_TYPES = ("list", "set", "map", "object")


def snap(v, depth=0):
    """order-independent deep snapshot; containers carry their identity"""
    t = v.type() if hasattr(v, "type") else type(v).__name__
    if depth > 12:
        return ("deep",)
    if t == "list":
        return ("list", id(v), tuple(snap(x, depth + 1) for x in v.value))
    if t == "set":
        return ("set", id(v), tuple(sorted((snap(x, depth + 1) for x in v.value), key=repr)))
    if t == "map":
        return ("map", id(v), tuple(sorted(((snap(k, depth + 1), snap(x, depth + 1)) for k, x in v.value.items()), key=repr)))
    if t == "object":
        return ("object", id(v), tuple((k, snap(x, depth + 1)) for k, x in v.value.items()))
    if t in ("func", "input", "output", "node"):
        return (t, id(v))
    if t == "string":
        return ("string", v.value)
    if t == "date":
        return ("date", repr(v))
    return (t, repr(getattr(v, "value", None)))


def strip_top(s):
    """children of a container snapshot, for 'only the target's own membership may change'"""
    return s


def nested_containers(s, out=None, top=True):
    """{id: snapshot} of containers nested strictly inside snapshot s"""
    if out is None:
        out = {}
    if not isinstance(s, tuple) or not s:
        return out
    if s[0] in CONTAINER_TYPES and len(s) == 3:
        if not top:
            out[s[1]] = s
        for ch in s[2]:
            if isinstance(ch, tuple) and ch and ch[0] in CONTAINER_TYPES:
                nested_containers(ch, out, False)
            elif isinstance(ch, tuple):
                for sub in ch:
                    nested_containers(sub, out, False) if isinstance(sub, tuple) else None
    return out


def lib_name(fn):
    """name of a library function, or None for user code"""
    import ckl.functions
    if isinstance(fn, ckl.functions.FuncLambda):
        body = getattr(fn, "body", None)
        pos = getattr(body, "pos", None)
        fname = getattr(pos, "filename", "") or ""
        if fname.startswith("mod:") or fname in (":base", ":legacy"):
            return fn.name
        return None
    return fn.name


class MutationMonitor:
    def __init__(self):
        self.calls = 0
        self.snapshots = 0
        self.findings = []      # (callee, argpos, what)
        self.installed = False
        self.active = True
        self.depth = 0
        self.nested_calls = 0

    def install(self):
        import ckl.nodes
        if self.installed:
            return
        self.installed = True
        mon = self
        orig_invoke = ckl.nodes.invoke
        self.hook_ok = True

        def invoke(fn, names_, args, environment, pos):
            if not mon.active:
                return orig_invoke(fn, names_, args, environment, pos)
            name = None
            try:
                name = lib_name(fn)
            except Exception:  # noqa
                name = None
            if name is None:
                return orig_invoke(fn, names_, args, environment, pos)
            if mon.depth > 0:
                # a library function calling another one: helpers may mutate their own
                # private copies; what matters is what the outermost call did to the
                # values the program handed in, and that is compared when it returns
                mon.nested_calls += 1
                mon.depth += 1
                try:
                    return orig_invoke(fn, names_, args, environment, pos)
                finally:
                    mon.depth -= 1
            # evaluate the argument nodes once, hand the values on as literals, so that
            # what we snapshot is exactly what the callee receives
            vals = []
            lit_args = []
            for a in args:
                if isinstance(a, ckl.nodes.NodeSpread):
                    return orig_invoke(fn, names_, args, environment, pos)
                v = a.evaluate(environment)
                vals.append(v)
                lit_args.append(ckl.nodes.NodeLiteral(v, pos))
            before = [snap(v) for v in vals]
            mon.snapshots += len(vals)
            mon.calls += 1
            mon.depth += 1
            try:
                return orig_invoke(fn, names_, lit_args, environment, pos)
            finally:
                mon.depth -= 1
                try:
                    after = [snap(v) for v in vals]
                    mon.compare(name, vals, before, after)
                except Exception as e:  # noqa
                    mon.findings.append((name, -1, "snapshot failed: %r" % (e,)))
        ckl.nodes.invoke = invoke
        # the node classes look invoke up as a module global at call time
        self.hook_ok = ckl.nodes.invoke is invoke

    def compare(self, name, vals, before, after):
        target = MUTATORS.get(name)
        for i, (b, a) in enumerate(zip(before, after)):
            if b == a:
                continue
            if target is not None and i == target:
                # the target container's own membership may change; nested containers
                # that are still reachable must be unchanged
                nb, na = nested_containers(b), nested_containers(a)
                for cid, s in nb.items():
                    if cid in na and na[cid] != s and not self._only_via_alias(vals, i):
                        self.findings.append((name, i, "nested container changed inside the target: %r -> %r" % (s, na[cid])))
                continue
            if target is not None and self._aliases_target(vals, i, target):
                continue
            self.findings.append((name, i, "argument %d changed: %s -> %s" % (i, short(b), short(a))))

    def _aliases_target(self, vals, i, target):
        """argument i shares structure with the mutator's target (same object or nested)"""
        if target >= len(vals):
            return False
        tid = id(vals[target])
        s = snap(vals[i])
        return tid == id(vals[i]) or tid in nested_containers(s) or id(vals[i]) in nested_containers(snap(vals[target]))

    def _only_via_alias(self, vals, i):
        # a target that contains itself or its own argument (append(l, l)) legitimately shows nested change
        s = snap(vals[i])
        return id(vals[i]) in nested_containers(s)


def short(s, n=160):
    r = repr(s)
    return r if len(r) <= n else r[:n] + "..."


MONITOR = MutationMonitor()
