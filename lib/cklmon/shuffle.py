"""M7 — iteration-order perturbation: the host containers inside ValueSet and
ValueMap are replaced by subclasses whose *raw* iteration order is a seeded
shuffle.  Code that sorts before enumerating is insensitive; any path that
leaks raw container order now differs from run to run inside one process, for
every element kind (a hash-seed sweep alone cannot expose leaks on int sets)."""
import random

RNG = random.Random(0)
STATS = {"set_iters": 0, "dict_iters": 0, "wrapped_sets": 0, "wrapped_maps": 0}


def reseed(n):
    RNG.seed(n)


class ShuffledSet(set):
    def __iter__(self):
        STATS["set_iters"] += 1
        items = list(set.__iter__(self))
        RNG.shuffle(items)
        return iter(items)


class ShuffledDict(dict):
    def _order(self):
        STATS["dict_iters"] += 1
        ks = list(dict.keys(self))
        RNG.shuffle(ks)
        return ks

    def __iter__(self):
        return iter(self._order())

    def keys(self):
        return self._order()

    def values(self):
        return [dict.__getitem__(self, k) for k in self._order()]

    def items(self):
        return [(k, dict.__getitem__(self, k)) for k in self._order()]


INSTALLED = False


def install():
    global INSTALLED
    import ckl.values as V
    if INSTALLED:
        return True
    INSTALLED = True
    ok = True
    try:
        orig_set_init = V.ValueSet.__init__

        def set_init(self, *a, **k):
            orig_set_init(self, *a, **k)
            self.value = ShuffledSet(self.value)
            STATS["wrapped_sets"] += 1
        V.ValueSet.__init__ = set_init
        orig_add_items = V.ValueSet.addItems

        def add_items(self, items):
            r = orig_add_items(self, items)
            if not isinstance(self.value, ShuffledSet):
                self.value = ShuffledSet(self.value)
            return r
        V.ValueSet.addItems = add_items
        orig_map_init = V.ValueMap.__init__

        def map_init(self, *a, **k):
            orig_map_init(self, *a, **k)
            self.value = ShuffledDict(self.value)
            STATS["wrapped_maps"] += 1
        V.ValueMap.__init__ = map_init
    except Exception:  # noqa
        ok = False
    return ok
