"""Reference semantics of operator expressions (C02), DESIGN Appendix A.1/A.2.
Independent of ckl.  Trees:

  ("lit", av)                         literal abstract value (cklref.refvalue)
  ("var", name)                       variable (env lookup)
  ("bin", op, l, r)                   op in + - * / %
  ("chain", [e0..en], [op1..opn])     comparison chain, ops in == != <> < <= > >= is 'is not'
  ("not", e) ("and", [e..]) ("or", [e..])
  ("neg", e) ("pos", e)
  ("in", e, c) ("notin", e, c)
  ("tick", k, e)                      logs k when evaluated, value of e (observes short circuit)

eval_expr returns an abstract value, raises RefError (language runtime error,
value 'ERROR') or Unspecified (the statement does not define the outcome)."""
from fractions import Fraction

from cklref import refvalue as rv


class RefError(Exception):
    def __init__(self, value=("str", "ERROR")):
        self.value = value


class Unspecified(Exception):
    pass


def is_int(v):
    return v[0] == "int"


def is_num(v):
    return v[0] in ("int", "dec")


def fl(v):
    try:
        return float(v[1])
    except OverflowError:
        raise Unspecified("int too large for decimal arithmetic")


def mkdec(x):
    if x != x or x in (float("inf"), float("-inf")):
        raise Unspecified("non-finite decimal")
    return ("dec", x)


def text_of(v):
    k = v[0]
    if k == "str":
        return v[1]
    if k == "int":
        return str(v[1])
    if k == "bool":
        return "TRUE" if v[1] else "FALSE"
    if k == "dec":
        r = repr(v[1])
        if "e" in r or "inf" in r or "nan" in r:
            raise Unspecified("decimal text form")
        return r
    raise Unspecified("text form of " + k)


def trunc_div(a, b):
    q = abs(a) // abs(b)
    return q if (a >= 0) == (b >= 0) else -q


def binop(op, a, b):
    ka, kb = a[0], b[0]
    if op == "+":
        if ka == "null" or kb == "null":
            return rv.NULL
        if ka == "int" and kb == "int":
            return ("int", a[1] + b[1])
        if is_num(a) and is_num(b):
            return mkdec(fl(a) + fl(b))
        if ka == "list":
            if kb == "list":
                return ("list", a[1] + b[1])
            if kb == "set":
                raise Unspecified("list + set")
            return ("list", a[1] + (b,))
        if ka == "set" or kb == "set":
            raise Unspecified("set arithmetic")
        if kb == "list":
            return ("list", (a,) + b[1])
        if ka in ("date",) or kb in ("date",):
            raise Unspecified("date arithmetic")
        atomic = ("str", "int", "dec", "bool")
        if (ka == "str" and kb in atomic) or (kb == "str" and ka in atomic):
            return ("str", text_of(a) + text_of(b))
        if ka in ("pat", "map", "obj") or kb in ("pat", "map", "obj"):
            raise Unspecified("pattern/map operand")
        raise RefError()
    if op == "-":
        if ka == "list":
            if kb == "null":
                # [] - NULL is [], [1] - NULL an error in the implementation; the statement fixes neither
                raise Unspecified("list - NULL")
            if kb == "list":
                drop = b[1]
            elif kb in ("set", "map", "obj"):
                raise Unspecified("list - collection")
            else:
                drop = (b,)
            return ("list", tuple(x for x in a[1] if not rv.member(x, drop)))
        if ka in ("set", "date"):
            raise Unspecified("set/date subtraction")
        if ka == "null" or kb == "null":
            return rv.NULL
        if ka == "int" and kb == "int":
            return ("int", a[1] - b[1])
        if is_num(a) and is_num(b):
            return mkdec(fl(a) - fl(b))
        raise RefError()
    if op == "*":
        if ka == "null" or kb == "null":
            return rv.NULL
        if ka == "str" and kb == "int":
            if b[1] > 50:
                raise Unspecified("large repetition")
            return ("str", a[1] * b[1])
        if ka == "list" and kb == "int":
            if b[1] > 50:
                raise Unspecified("large repetition")
            return ("list", a[1] * max(b[1], 0))
        if ka == "int" and kb == "int":
            return ("int", a[1] * b[1])
        if is_num(a) and is_num(b):
            return mkdec(fl(a) * fl(b))
        raise RefError()
    if op == "/":
        if ka == "null" or kb == "null":
            return rv.NULL
        if ka == "int" and kb == "int":
            if b[1] == 0:
                raise RefError()
            return ("int", trunc_div(a[1], b[1]))
        if is_num(a) and is_num(b):
            if fl(b) == 0.0:
                raise RefError()
            try:
                return mkdec(fl(a) / fl(b))
            except OverflowError:
                raise Unspecified("overflow")
        raise RefError()
    if op == "%":
        if ka == "null" or kb == "null":
            return rv.NULL
        if ka == "int" and kb == "int":
            if b[1] == 0:
                raise RefError()
            if a[1] < 0 or b[1] < 0:
                raise Unspecified("sign convention of % is fixed only by the law")
            return ("int", a[1] % b[1])
        if is_num(a) and is_num(b):
            if fl(b) == 0.0:
                raise RefError()
            if fl(a) < 0 or fl(b) < 0:
                raise Unspecified("sign convention of %")
            return mkdec(fl(a) % fl(b))
        raise RefError()
    raise ValueError(op)


def relop(op, a, b):
    if op in ("==", "is"):
        return rv.ref_eq(a, b)
    if op in ("!=", "<>", "is not"):
        return not rv.ref_eq(a, b)
    if not rv.same_order_kind(a, b):
        raise Unspecified("mixed-kind ordering")
    lt, gt = rv.ref_lt(a, b), rv.ref_lt(b, a)
    if op == "<":
        return lt
    if op == "<=":
        return not gt
    if op == ">":
        return gt
    if op == ">=":
        return not lt
    raise ValueError(op)


def need_bool(v):
    if v[0] != "bool":
        raise RefError()
    return v[1]


def eval_expr(t, env=None, log=None):
    k = t[0]
    if k == "lit":
        return t[1]
    if k == "var":
        return env[t[1]]
    if k == "src":
        return t[2]            # ("src", tokens, value): a conversion call whose value is known (decimal(3), floor(7.5) ...)
    if k == "tick":
        # tick(k, e) is an ordinary call: the argument is evaluated first, then k is logged
        v = eval_expr(t[2], env, log)
        if log is not None:
            log.append(t[1])
        return v
    if k == "bin":
        a = eval_expr(t[2], env, log)
        b = eval_expr(t[3], env, log)
        return binop(t[1], a, b)
    if k == "neg":
        e = t[1]
        a = eval_expr(e, env, log)
        if a[0] == "dec" and a[1] == 0:
            # the sign of a zero is not fixed by the statement (and the implementation spells `- 0.0` as -0.0 but
            # computes `- (0.0)` and `- z` as 0 - z = 0.0); it shows as soon as the zero is rendered into a string
            raise Unspecified("sign of a negated zero")
        return binop("-", ("int", 0), a)
    if k == "pos":
        return eval_expr(t[1], env, log)
    if k == "chain":
        vals = [eval_expr(t[1][0], env, log)]
        # desugared to an and-node over adjacent pairs: operands are evaluated pair by pair,
        # left to right, stopping at the first FALSE pair; middle operands are evaluated twice
        # by the implementation (once per pair) -- ticks are therefore never placed inside chains
        res = True
        for i, op in enumerate(t[2]):
            if i > 0:
                lhs = eval_expr(t[1][i], env, None)
            else:
                lhs = vals[0]
            rhs = eval_expr(t[1][i + 1], env, log)
            if not relop(op, lhs, rhs):
                res = False
                break
        return ("bool", res)
    if k == "not":
        return ("bool", not need_bool(eval_expr(t[1], env, log)))
    if k == "and":
        for e in t[1]:
            if not need_bool(eval_expr(e, env, log)):
                return rv.FALSE
        return rv.TRUE
    if k == "or":
        for e in t[1]:
            if need_bool(eval_expr(e, env, log)):
                return rv.TRUE
        return rv.FALSE
    if k in ("in", "notin"):
        a = eval_expr(t[1], env, log)
        c = eval_expr(t[2], env, log)
        if c[0] == "list":
            r = rv.member(a, c[1])
        elif c[0] == "set":
            r = rv.member(a, c[1])
        elif c[0] == "map":
            r = rv.member(a, [kk for kk, vv in c[1]])
        elif c[0] == "str":
            if a[0] != "str":
                raise Unspecified("non-string in string")
            r = a[1] in c[1]
        elif c[0] == "obj":
            raise Unspecified("in object")
        else:
            r = False
        return ("bool", (not r) if k == "notin" else r)
    raise ValueError(k)


# ---------------------------------------------------------------------------
# rendering: flat (minimal parentheses per the stated precedence table) and
# fully parenthesised.  Levels: or 1 < and 2 < not 3 < comparison 4 < additive 5
# < multiplicative 6 < unary 7 < membership 8 < primary 9
# ---------------------------------------------------------------------------

TYPE_WORDS = {"int", "decimal", "string", "boolean", "pattern", "date", "list", "set", "map", "object", "node", "func"}


def level(t):
    k = t[0]
    if k == "or":
        return 1
    if k == "and":
        return 2
    if k == "not":
        return 3
    if k == "chain":
        return 4
    if k == "bin":
        return 5 if t[1] in "+-" else 6
    if k in ("neg", "pos"):
        return 7
    if k in ("in", "notin"):
        return 8
    if k == "lit" and t[1][0] in ("int", "dec") and t[1][1] < 0:
        return 7    # a negative literal is spelled with a unary minus
    return 9


def render(t, lit, full=False, min_level=0):
    """lit(av) -> source of a literal; full=True parenthesises every operator node."""
    k = t[0]
    lv = level(t)

    def sub(e, need):
        return render(e, lit, full, need)
    if k == "lit":
        s = lit(t[1])
    elif k == "var":
        s = t[1]
    elif k == "src":
        s = "".join(t[1])
        if t[1][0] in TYPE_WORDS:
            s = "(" + s + ")"        # `x is int(...)` would otherwise be read as the type predicate `x is int`
    elif k == "tick":
        s = "tick(%d, %s)" % (t[1], render(t[2], lit, full, 0))
        lv = 9
    elif k == "or":
        s = " or ".join(sub(e, 2) for e in t[1])
    elif k == "and":
        s = " and ".join(sub(e, 3) for e in t[1])
    elif k == "not":
        s = "not " + sub(t[1], 4)
    elif k == "chain":
        parts = [sub(t[1][0], 5)]
        for op, e in zip(t[2], t[1][1:]):
            parts.append(op)
            # `x is int(...)` would be read as the type predicate `x is int`: parenthesise call operands of is
            parts.append(sub(e, 5))
        s = " ".join(parts)
    elif k == "bin":
        if t[1] in "+-":
            s = sub(t[2], 5) + " " + t[1] + " " + sub(t[3], 6)
        else:
            s = sub(t[2], 6) + " " + t[1] + " " + sub(t[3], 7)
    elif k == "neg":
        s = "- " + sub(t[1], 9)
    elif k == "pos":
        s = "+ " + sub(t[1], 9)
    elif k == "in":
        s = sub(t[1], 9) + " in " + sub(t[2], 9)
    elif k == "notin":
        s = sub(t[1], 9) + " not in " + sub(t[2], 9)
    else:
        raise ValueError(k)
    if lv < min_level or (full and k not in ("lit", "var", "tick", "src")):
        return "(" + s + ")"
    return s


def render_chain_as_conjunction(t, lit):
    """a op b op c  ==>  (a op b) and (b op c), fully parenthesised"""
    k = t[0]
    if k == "chain" and len(t[2]) > 1:
        ops = t[1]
        parts = []
        for i, op in enumerate(t[2]):
            parts.append("(%s %s %s)" % (render_chain_as_conjunction(ops[i], lit) if ops[i][0] != "lit" else render(ops[i], lit, True),
                                         op,
                                         render_chain_as_conjunction(ops[i + 1], lit) if ops[i + 1][0] != "lit" else render(ops[i + 1], lit, True)))
        return "(" + " and ".join(parts) + ")"
    return render(t, lit, True)
