"""Reference sequence model for C15 (independent of ckl).

Sequences are Python str or list.  ERR is the marker for "runtime error"."""

ERR = ("ERR",)


def norm(i, n):
    return i + n if i < 0 else i


def deref(s, i):
    n = len(s)
    j = norm(i, n)
    if 0 <= j < n:
        return s[j]
    return ERR


def clamp(i, n):
    j = norm(i, n)
    return 0 if j < 0 else (n if j > n else j)


def slice_(s, a, b=None):
    n = len(s)
    lo = clamp(a, n)
    hi = n if b is None else clamp(b, n)
    if lo >= hi:
        return s[0:0]
    return s[lo:hi]


def find(s, part, start=0):
    """first position >= start at which part occurs (part: substring / element)"""
    if isinstance(s, str):
        for p in range(max(start, 0), len(s) - len(part) + 1):
            if s[p:p + len(part)] == part:
                return p
        return -1
    for p in range(max(start, 0), len(s)):
        if s[p] == part and type(s[p]) == type(part):
            return p
    return -1


def find_last(s, part, start=None):
    """last position <= start (default: anywhere) at which part occurs"""
    if isinstance(s, str):
        hi = len(s) - len(part)
        if start is not None:
            hi = min(hi, start)
        for p in range(hi, -1, -1):
            if s[p:p + len(part)] == part:
                return p
        return -1
    hi = len(s) - 1
    if start is not None:
        hi = min(hi, start)
    for p in range(hi, -1, -1):
        if s[p] == part and type(s[p]) == type(part):
            return p
    return -1


def insert_at(lst, index, value):
    """documented: index >= 0 inserts before that position (== len appends);
    index < 0 counts from the end, -1 appends; out of bounds leaves lst unchanged"""
    n = len(lst)
    pos = index if index >= 0 else n + index + 1
    if 0 <= pos <= n:
        return lst[:pos] + [value] + lst[pos:]
    return list(lst)


def delete_at(lst, index):
    """returns (new list, removed or None)"""
    n = len(lst)
    j = norm(index, n)
    if 0 <= j < n:
        return lst[:j] + lst[j + 1:], lst[j]
    return list(lst), None


def assign(lst, index, value):
    n = len(lst)
    j = norm(index, n)
    if 0 <= j < n:
        return lst[:j] + [value] + lst[j + 1:]
    return ERR
