"""Reference evaluator for the language core (C03/C04/C05, reused by C12/C14/C16).

Written from the property statements and DESIGN Appendix A; imports nothing
from ckl.  Containers are Python objects, so aliasing is modelled by identity.

AST (tuples):
 expressions
  ("lit", av) ("var", n) ("bin", op, l, r) ("neg", e) ("chain", [e..], [op..]) ("not", e)
  ("and", [e..]) ("or", [e..]) ("in", e, c) ("notin", e, c)
  ("list", [item..])   item = e | ("spread", e)
  ("set", [e..]) ("map", [(k, v)..]) ("obj", [(name, e)..])
  ("call", f, [arg..])  arg = ("pos", e) | ("named", n, e) | ("spread", e)
  ("pipe", e, f, [arg..]) ("mcall", o, member, [arg..]) ("member", o, name) ("index", e, i) ("indexd", e, i, dflt)
  ("fn", [(name, default|None, is_rest)..], body)
  ("if", [(cond, body)..], else|None)
  ("block", [stmt..], [(errexpr|None, body)..], [stmt..])
  ("comp", kind, exprs, [(var, what, src)..], mode, cond)  kind list|set|map; mode single|product|parallel
 statements (all are expressions)
  ("def", n, e) ("deffn", n, params, body) ("defdestr", [n..], e)
  ("assign", n, e) ("opassign", n, op, e) ("assigndestr", [n..], e)
  ("idxassign", target, idx, e) ("memassign", obj, name, e)
  ("for", [var..], what, src, body) ("while", cond, body)
  ("break",) ("continue",) ("return", e|None) ("error", e) ("seq", [stmt..])
"""
from cklref import refvalue as rv
from cklref import refexpr as rx
from cklref import refseq as rs


class RefErr(Exception):
    def __init__(self, value=None):
        self.value = value if value is not None else ("str", "ERROR")


class Unspecified(Exception):
    pass


class Sig(Exception):
    pass


class BreakSig(Sig):
    level = 1


class ContinueSig(Sig):
    pass


class ReturnSig(Sig):
    def __init__(self, value):
        self.value = value


class StepLimit(Exception):
    pass


class RList:
    kind = "list"

    def __init__(self, items=None):
        self.items = list(items or [])


class RSet:
    kind = "set"

    def __init__(self, items=None):
        self.items = []
        for x in (items or []):
            self.add(x)

    def add(self, x):
        fx = freeze(x)
        if not any(rv.ref_eq(fx, freeze(y)) for y in self.items):
            self.items.append(x)


class RMap:
    kind = "map"

    def __init__(self, pairs=None):
        self.pairs = []
        for k, v in (pairs or []):
            self.put(k, v)

    def find(self, k):
        fk = freeze(k)
        for i, (k2, v2) in enumerate(self.pairs):
            if rv.ref_eq(fk, freeze(k2)):
                return i
        return -1

    def put(self, k, v):
        i = self.find(k)
        if i >= 0:
            self.pairs[i][1] = v
        else:
            self.pairs.append([k, v])


class RObj:
    kind = "obj"

    def __init__(self, members=None):
        self.members = dict(members or {})


class RFunc:
    kind = "func"

    def __init__(self, params, body, env, name="lambda"):
        self.params = params
        self.body = body
        self.env = env
        self.name = name
        self.shared_frame = None
        self.frozen_defaults = None


class RBuiltin:
    kind = "func"

    def __init__(self, name):
        self.name = name


def is_atom(v):
    return isinstance(v, tuple)


def kind_of(v):
    return v[0] if isinstance(v, tuple) else v.kind


def freeze(v, depth=0):
    if isinstance(v, tuple):
        return v
    if depth > 20:
        raise Unspecified("cyclic value")
    if isinstance(v, RList):
        return ("list", tuple(freeze(x, depth + 1) for x in v.items))
    if isinstance(v, RSet):
        return ("set", tuple(freeze(x, depth + 1) for x in v.items))
    if isinstance(v, RMap):
        return ("map", tuple((freeze(k, depth + 1), freeze(x, depth + 1)) for k, x in v.pairs))
    if isinstance(v, RObj):
        return ("obj", tuple((k, freeze(x, depth + 1)) for k, x in v.members.items() if not k.startswith("_")))
    return ("func", getattr(v, "name", "?"))


def thaw(av):
    k = av[0]
    if k == "list":
        return RList([thaw(x) for x in av[1]])
    if k == "set":
        return RSet([thaw(x) for x in av[1]])
    if k == "map":
        return RMap([(thaw(a), thaw(b)) for a, b in av[1]])
    return av


def veq(a, b):
    if isinstance(a, (RFunc, RBuiltin)) or isinstance(b, (RFunc, RBuiltin)):
        return a is b
    return rv.ref_eq(freeze(a), freeze(b))


def sort_key_list(items):
    """ascending order of C07; raises Unspecified for mixed kinds"""
    import functools
    fz = [freeze(x) for x in items]
    for a in fz:
        for b in fz:
            if not rv.same_order_kind(a, b):
                raise Unspecified("mixed-kind set order")

    def cmp(x, y):
        a, b = freeze(x), freeze(y)
        return -1 if rv.ref_lt(a, b) else (1 if rv.ref_lt(b, a) else 0)
    return sorted(items, key=functools.cmp_to_key(cmp))


class Env:
    def __init__(self, parent=None):
        self.vars = {}
        self.parent = parent

    def lookup_env(self, name):
        e = self
        while e is not None:
            if name in e.vars:
                return e
            e = e.parent
        return None

    def root(self):
        e = self
        while e.parent is not None:
            e = e.parent
        return e


BUILTINS = ["log", "append", "length", "range", "put", "identity", "remove", "insert_at", "delete_at", "sorted", "type"]


class Evaluator:
    def __init__(self, modes=(), step_limit=200000):
        self.modes = set(modes)
        self.log = []
        self.steps = 0
        self.step_limit = step_limit
        self.globals = Env()
        for b in BUILTINS:
            self.globals.vars[b] = RBuiltin(b)
        self.globals.vars["NULL"] = rv.NULL
        self.call_env_stack = []

    def m(self, mode):
        return mode in self.modes

    # -- program ----------------------------------------------------------
    def run(self, prog):
        """returns ("value", frozen) | ("error", frozen error value); log in self.log"""
        env = Env(self.globals)
        self.top = env
        try:
            try:
                v = self.ev(prog, env)
            except ReturnSig as s:
                v = s.value
            except (BreakSig, ContinueSig):
                raise RefErr()
            return ("value", freeze(v))
        except RefErr as e:
            return ("error", freeze(e.value))

    def tick(self):
        self.steps += 1
        if self.steps > self.step_limit:
            raise StepLimit()

    # -- helpers ----------------------------------------------------------
    def need_bool(self, v):
        if not (isinstance(v, tuple) and v[0] == "bool"):
            raise RefErr()
        return v[1]

    def def_env(self, env):
        if self.m("def_global"):
            return self.top
        return env

    def binop(self, op, a, b):
        ka, kb = kind_of(a), kind_of(b)
        if op == "+" and (ka == "list" or kb == "list") and "null" not in (ka, kb):
            if ka == "list" and kb == "list":
                if self.m("ref_instead_of_copy"):
                    a.items.extend(b.items)
                    return a
                return RList(a.items + b.items)
            if ka == "list":
                if kb in ("set",):
                    raise Unspecified("list + set")
                return RList(a.items + [b])
            if ka in ("set",):
                raise Unspecified("set + list")
            return RList([a] + b.items)
        if op == "-" and ka == "list":
            if kb == "null":
                raise RefErr()
            if kb == "list":
                drop = b.items
            elif kb in ("set", "map", "obj", "func"):
                raise Unspecified("list - collection")
            else:
                drop = [b]
            return RList([x for x in a.items if not any(veq(x, d) for d in drop)])
        if op == "*" and ka == "list" and kb == "int":
            if b[1] > 20:
                raise Unspecified("big repetition")
            return RList(a.items * max(b[1], 0))
        for x in (a, b):
            if not isinstance(x, tuple):
                if kind_of(x) in ("set", "map", "obj", "func"):
                    if "null" in (ka, kb) and op in "+*/%":
                        return rv.NULL
                    raise Unspecified("operator on " + kind_of(x))
        if not isinstance(a, tuple) or not isinstance(b, tuple):
            raise RefErr() if op != "+" or "null" not in (ka, kb) else Unspecified("null + list")
        try:
            return rx.binop(op, a, b)
        except rx.RefError:
            raise RefErr()
        except rx.Unspecified as e:
            raise Unspecified(str(e))
        except OverflowError:
            raise Unspecified("overflow")

    def relop(self, op, a, b):
        if isinstance(a, (RFunc, RBuiltin)) or isinstance(b, (RFunc, RBuiltin)):
            if op in ("==", "is"):
                return a is b
            if op in ("!=", "<>", "is not"):
                return a is not b
            raise Unspecified("ordering functions")
        try:
            return rx.relop(op, freeze(a), freeze(b))
        except rx.Unspecified as e:
            raise Unspecified(str(e))

    def iter_values(self, coll, what, for_loop):
        """enumeration order of A.4"""
        k = kind_of(coll)
        if k == "list":
            return list(coll.items)
        if k == "set":
            if self.m("unsorted_set"):
                return list(coll.items)
            return sort_key_list(coll.items)
        if k == "map":
            if self.m("unsorted_set"):
                pairs = list(coll.pairs)
            else:
                keys = sort_key_list([p[0] for p in coll.pairs])
                pairs = [coll.pairs[coll.find(kk)] for kk in keys]
            w = what
            if w is None:
                w = "values" if for_loop else "entries"
            if w == "keys":
                return [p[0] for p in pairs]
            if w == "values":
                return [p[1] for p in pairs]        # in key order, for loops and comprehensions alike
            return [RList([p[0], p[1]]) for p in pairs]
        if k == "str":
            return [("str", ch) for ch in coll[1]]
        if k == "obj":
            raise Unspecified("object iteration")
        if for_loop:
            raise RefErr()
        raise Unspecified("comprehension over non-collection")

    # -- evaluation -------------------------------------------------------
    def ev(self, t, env):
        self.tick()
        k = t[0]
        f = getattr(self, "ev_" + k, None)
        if f is None:
            raise ValueError("no evaluator for " + k)
        return f(t, env)

    def ev_seq(self, t, env):
        v = rv.TRUE
        for s in t[1]:
            v = self.ev(s, env)
        return v

    def ev_lit(self, t, env):
        return thaw(t[1]) if t[1][0] in ("list", "set", "map") else t[1]

    def ev_src(self, t, env):
        return t[2]

    def ev_var(self, t, env):
        e = env.lookup_env(t[1])
        if e is None:
            raise RefErr()
        return e.vars[t[1]]

    def ev_bin(self, t, env):
        a = self.ev(t[2], env)
        b = self.ev(t[3], env)
        return self.binop(t[1], a, b)

    def ev_neg(self, t, env):
        a = self.ev(t[1], env)
        return self.binop("-", ("int", 0), a)

    def ev_chain(self, t, env):
        lhs = self.ev(t[1][0], env)
        for i, op in enumerate(t[2]):
            if i > 0:
                lhs = self.ev(t[1][i], env)     # middle operands are evaluated once per adjacent pair
            rhs = self.ev(t[1][i + 1], env)
            if not self.relop(op, lhs, rhs):
                return rv.FALSE
        return rv.TRUE

    def ev_not(self, t, env):
        return ("bool", not self.need_bool(self.ev(t[1], env)))

    def ev_and(self, t, env):
        for e in t[1]:
            if not self.need_bool(self.ev(e, env)):
                return rv.FALSE
        return rv.TRUE

    def ev_or(self, t, env):
        for e in t[1]:
            if self.need_bool(self.ev(e, env)):
                return rv.TRUE
        return rv.FALSE

    def ev_in(self, t, env):
        a = self.ev(t[1], env)
        c = self.ev(t[2], env)
        k = kind_of(c)
        if k == "list":
            return ("bool", any(veq(a, x) for x in c.items))
        if k == "set":
            return ("bool", any(veq(a, x) for x in c.items))
        if k == "map":
            return ("bool", c.find(a) >= 0)
        if k == "str":
            if kind_of(a) != "str":
                raise Unspecified("non-string in string")
            return ("bool", a[1] in c[1])
        if k == "obj":
            raise Unspecified("in object")
        return rv.FALSE

    def ev_notin(self, t, env):
        return ("bool", not self.ev_in(t, env)[1])

    def ev_list(self, t, env):
        out = []
        for it in t[1]:
            if it[0] == "spread":
                v = self.ev(it[1], env)
                if kind_of(v) != "list":
                    raise Unspecified("spread of non-list in list literal")
                out.extend(v.items)
            else:
                out.append(self.ev(it, env))
        return RList(out)

    def ev_set(self, t, env):
        return RSet([self.ev(e, env) for e in t[1]])

    def ev_map(self, t, env):
        m = RMap()
        for kx, vx in t[1]:
            kv = self.ev(kx, env)
            m.put(kv, self.ev(vx, env))
        return m

    def ev_obj(self, t, env):
        o = RObj()
        for name, e in t[1]:
            o.members[name] = self.ev(e, env)
        return o

    def ev_fn(self, t, env):
        f = RFunc(t[1], t[2], env)
        if self.m("defaults_at_def"):
            f.frozen_defaults = {}
            for name, d, rest in t[1]:
                if d is not None:
                    try:
                        f.frozen_defaults[name] = self.ev(d, env)
                    except (RefErr, Sig):
                        pass
        return f

    # -- calls ------------------------------------------------------------
    def eval_args(self, args, env):
        """-> list of (name|None, value), spreads expanded in place"""
        out = []
        for a in args:
            if a[0] == "pos":
                out.append((None, self.ev(a[1], env)))
            elif a[0] == "named":
                out.append((a[1], self.ev(a[2], env)))
            else:
                v = self.ev(a[1], env)
                kk = kind_of(v)
                if self.m("no_spread"):
                    out.append((None, v))
                elif kk == "list":
                    out.extend((None, x) for x in v.items)
                elif kk == "map":
                    if len(v.pairs) > 1 and not self.m("unsorted_set"):
                        pass        # insertion order of the literal; generators use literal maps only
                    for kx, vx in v.pairs:
                        out.append((kx[1] if kind_of(kx) == "str" else None, vx))
                else:
                    raise Unspecified("spread of " + kk)
        return out

    def ev_call(self, t, env):
        fv = self.ev(t[1], env)
        if not isinstance(fv, (RFunc, RBuiltin)):
            raise RefErr()
        args = self.eval_args(t[2], env)
        return self.apply(fv, args, env)

    def ev_pipe(self, t, env):
        # x !> f(a...)  ==  f(x, a...); the callee expression is evaluated first (it is the call node's function)
        fv = self.ev(t[2], env)
        if not isinstance(fv, (RFunc, RBuiltin)):
            raise RefErr()
        x = self.ev(t[1], env)
        rest = self.eval_args(t[3], env)
        args = (rest + [(None, x)]) if self.m("pipe_last") else ([(None, x)] + rest)
        return self.apply(fv, args, env)

    def lookup_member(self, o, name):
        cur = o
        n = 0
        while True:
            if name in cur.members:
                return cur.members[name], True
            if self.m("no_proto"):
                return None, False
            nxt = cur.members.get("_proto_")
            if not isinstance(nxt, RObj):
                return None, False
            cur = nxt
            n += 1
            if n > 50:
                raise Unspecified("proto cycle")

    def ev_mcall(self, t, env):
        o = self.ev(t[1], env)
        if kind_of(o) != "obj":
            raise Unspecified("method call on non-object") if kind_of(o) == "map" else RefErr()
        fv, ok = self.lookup_member(o, t[2])
        if not ok:
            raise RefErr()
        if not isinstance(fv, (RFunc, RBuiltin)):
            raise RefErr()
        rest = self.eval_args(t[3], env)
        args = rest if self.m("no_receiver") else ([(None, o)] + rest)
        return self.apply(fv, args, env)

    def ev_member(self, t, env):
        o = self.ev(t[1], env)
        k = kind_of(o)
        if k == "null":
            return rv.NULL
        if k == "obj":
            v, ok = self.lookup_member(o, t[2])
            return v if ok else rv.NULL
        if k == "map":
            i = o.find(("str", t[2]))
            if i < 0:
                raise RefErr()
            return o.pairs[i][1]
        raise Unspecified("member access on " + k)

    def bind(self, f, args):
        """A.3 -> dict name -> value (rest under its dotted name), raises RefErr"""
        plain = [p[0] for p in f.params if not p[2]]
        rest_name = next((p[0] for p in f.params if p[2]), None)
        bound = {}
        if self.m("positional_first"):
            pos = [v for n, v in args if n is None]
            named = [(n, v) for n, v in args if n is not None]
            rest = []
            for n, v in named:
                if n not in plain:
                    raise RefErr()
            it = iter(plain)
            for v in pos:
                nm = next(it, None)
                if nm is None:
                    if rest_name is None:
                        raise RefErr()
                    rest.append(v)
                else:
                    bound[nm] = v
            for n, v in named:
                bound[n] = v
        else:
            for n, v in args:
                if n is not None:
                    if n not in plain:
                        raise RefErr()
                    bound[n] = v
            rest = []
            in_kw = False
            for n, v in args:
                if n is None:
                    if in_kw:
                        raise RefErr()
                    nm = next((p for p in plain if p not in bound), None)
                    if nm is None:
                        if rest_name is None:
                            raise RefErr()
                        rest.append(v)
                    else:
                        bound[nm] = v
                else:
                    in_kw = True
        if rest_name is not None:
            bound[rest_name] = RList([] if self.m("rest_dropped") else rest)
        return bound

    def apply(self, f, args, caller_env):
        self.tick()
        if isinstance(f, RBuiltin):
            return self.builtin(f.name, args)
        bound = self.bind(f, args)
        if self.m("copy_instead_of_ref"):
            bound = {k: (thaw(freeze(v)) if not isinstance(v, (tuple, RFunc, RBuiltin, RObj)) else v) for k, v in bound.items()}
        parent = caller_env if self.m("dynamic_scope") else f.env
        if self.m("shared_param_frame"):
            if f.shared_frame is None:
                f.shared_frame = Env(parent)
            env = f.shared_frame
        else:
            env = Env(parent)
        for name, d, is_rest in f.params:
            if name in bound:
                env.vars[name] = bound[name]
            elif d is not None:
                if self.m("defaults_at_def") and f.frozen_defaults is not None and name in f.frozen_defaults:
                    env.vars[name] = f.frozen_defaults[name]
                elif self.m("defaults_in_caller"):
                    env.vars[name] = self.ev(d, caller_env)
                else:
                    env.vars[name] = self.ev(d, env)
            else:
                raise RefErr()
        if len(self.call_env_stack) > 60:
            raise Unspecified("deep recursion")
        self.call_env_stack.append(env)
        try:
            try:
                return self.ev(f.body, env)
            except ReturnSig as s:
                return s.value
            except (BreakSig, ContinueSig):
                raise RefErr()
        finally:
            self.call_env_stack.pop()

    def builtin(self, name, args):
        if any(n is not None for n, v in args):
            raise Unspecified("named argument to builtin")
        a = [v for n, v in args]
        if name == "log":
            if len(a) != 2:
                raise RefErr()
            self.log.append((freeze(a[0]), freeze(a[1])))
            return a[1]
        if name == "identity":
            if len(a) != 1:
                raise RefErr()
            return a[0]
        if name == "type":
            if len(a) != 1:
                raise RefErr()
            return ("str", {"obj": "object", "func": "func"}.get(kind_of(a[0]), None) or rv.type_name((kind_of(a[0]),)))
        if name == "length":
            if len(a) != 1:
                raise RefErr()
            k = kind_of(a[0])
            if k == "str":
                return ("int", len(a[0][1]))
            if k in ("list", "set"):
                return ("int", len(a[0].items))
            if k == "map":
                return ("int", len(a[0].pairs))
            if k == "obj":
                return ("int", len(a[0].members))
            raise RefErr()
        if name == "append":
            if len(a) != 2:
                raise RefErr()
            k = kind_of(a[0])
            if k == "list":
                a[0].items.append(a[1])
                return a[0]
            if k == "set":
                a[0].add(a[1])
                return a[0]
            raise RefErr()
        if name == "put":
            if len(a) != 3 or kind_of(a[0]) != "map":
                raise RefErr()
            a[0].put(a[1], a[2])
            return a[0]
        if name == "range":
            if not a or len(a) > 3 or any(kind_of(x) != "int" for x in a):
                raise RefErr() if a else Unspecified("range()")
            if len(a) == 1:
                lo, hi, st = 0, a[0][1], 1
            elif len(a) == 2:
                lo, hi, st = a[0][1], a[1][1], 1
            else:
                lo, hi, st = a[0][1], a[1][1], a[2][1]
            if st == 0:
                return RList([])
            if abs(hi - lo) > 1000:
                raise Unspecified("big range")
            return RList([("int", i) for i in range(lo, hi, st)])
        if name == "remove":
            if len(a) != 2:
                raise RefErr()
            k = kind_of(a[0])
            if k == "list":
                for i, x in enumerate(a[0].items):
                    if veq(x, a[1]):
                        del a[0].items[i]
                        return a[0]
                raise RefErr()
            if k == "set":
                for i, x in enumerate(a[0].items):
                    if veq(x, a[1]):
                        del a[0].items[i]
                        return a[0]
                raise RefErr()
            if k == "map":
                i = a[0].find(a[1])
                if i < 0:
                    raise RefErr()
                del a[0].pairs[i]
                return a[0]
            raise Unspecified("remove on " + k)
        if name == "insert_at":
            if len(a) != 3 or kind_of(a[0]) != "list" or kind_of(a[1]) != "int":
                raise RefErr()
            a[0].items[:] = rs.insert_at(a[0].items, a[1][1], a[2])
            return a[0]
        if name == "delete_at":
            if len(a) != 2 or kind_of(a[0]) != "list" or kind_of(a[1]) != "int":
                raise RefErr()
            new, removed = rs.delete_at(a[0].items, a[1][1])
            a[0].items[:] = new
            return removed if removed is not None else rv.NULL
        if name == "sorted":
            if len(a) != 1 or kind_of(a[0]) not in ("list", "set"):
                raise Unspecified("sorted form")
            return RList(sort_key_list(a[0].items))
        raise ValueError(name)

    # -- indexing ---------------------------------------------------------
    def ev_index(self, t, env):
        idx = self.ev(t[2], env)
        v = self.ev(t[1], env)
        return self.deref(v, idx, None, env)

    def ev_indexd(self, t, env):
        idx = self.ev(t[2], env)
        v = self.ev(t[1], env)
        return self.deref(v, idx, t[3], env)

    def deref(self, v, idx, dflt, env):
        k = kind_of(v)
        if k == "null":
            return rv.NULL
        if k in ("str", "list"):
            if dflt is not None:
                raise RefErr()
            if kind_of(idx) != "int":
                raise RefErr() if kind_of(idx) != "dec" else Unspecified("decimal index")
            seq = v[1] if k == "str" else v.items
            r = rs.deref(seq, idx[1])
            if r is rs.ERR:
                raise RefErr()
            return ("str", r) if k == "str" else r
        if k == "map":
            i = v.find(idx)
            if i < 0:
                if dflt is None:
                    raise RefErr()
                return self.ev(dflt, env)
            return v.pairs[i][1]
        if k == "obj":
            if kind_of(idx) != "str":
                raise Unspecified("object index")
            r, ok = self.lookup_member(v, idx[1])
            if not ok:
                return self.ev(dflt, env) if dflt is not None else rv.NULL
            return r
        raise RefErr()

    def ev_idxassign(self, t, env):
        idx = self.ev(t[2], env)
        c = self.ev(t[1], env)
        val = self.ev(t[3], env)
        k = kind_of(c)
        if k == "list":
            if kind_of(idx) != "int":
                raise RefErr()
            r = rs.assign(c.items, idx[1], val)
            if r is rs.ERR:
                raise RefErr()
            c.items[:] = r
            return c
        if k == "map":
            c.put(idx, val)
            return c
        if k == "obj":
            if kind_of(idx) != "str":
                raise Unspecified("object index")
            c.members[idx[1]] = val
            return c
        if k == "str":
            raise Unspecified("string element assignment")
        raise RefErr()

    def ev_memassign(self, t, env):
        c = self.ev(t[1], env)
        val = self.ev(t[3], env)
        k = kind_of(c)
        if k == "obj":
            c.members[t[2]] = val
            return c
        if k == "map":
            c.put(("str", t[2]), val)
            return c
        raise Unspecified("member assignment on " + k)

    # -- definitions and assignment ---------------------------------------
    def ev_def(self, t, env):
        v = self.ev(t[2], env)
        if isinstance(v, RFunc):
            v.name = t[1]
        self.def_env(env).vars[t[1]] = v
        return v

    def ev_deffn(self, t, env):
        f = self.ev_fn(("fn", t[2], t[3]), env)
        f.name = t[1]
        self.def_env(env).vars[t[1]] = f
        return f

    def ev_defdestr(self, t, env):
        v = self.ev(t[2], env)
        k = kind_of(v)
        if k == "list":
            items = v.items
        elif k == "set":
            items = sort_key_list(v.items)
        else:
            raise RefErr()
        res = rv.NULL
        for i, n in enumerate(t[1]):
            res = items[i] if i < len(items) else rv.NULL
            self.def_env(env).vars[n] = res
        return res

    def assign_to(self, name, value, env):
        e = env.lookup_env(name)
        if e is None:
            if self.m("assign_creates"):
                env.vars[name] = value
                return
            raise RefErr()
        e.vars[name] = value

    def ev_assign(self, t, env):
        if env.lookup_env(t[1]) is None and not self.m("assign_creates"):
            raise RefErr()
        v = self.ev(t[2], env)
        if self.m("copy_instead_of_ref") and not isinstance(v, (tuple, RFunc, RBuiltin, RObj)):
            v = thaw(freeze(v))
        self.assign_to(t[1], v, env)
        return self.ev_var(("var", t[1]), env)

    def ev_opassign(self, t, env):
        if env.lookup_env(t[1]) is None:
            raise RefErr()
        cur = self.ev_var(("var", t[1]), env)
        v = self.ev(t[3], env)
        self.assign_to(t[1], self.binop(t[2], cur, v), env)
        return self.ev_var(("var", t[1]), env)

    def ev_assigndestr(self, t, env):
        v = self.ev(t[2], env)
        k = kind_of(v)
        if k == "list":
            items = v.items
        elif k == "set":
            raise Unspecified("destructuring assignment from a set")
        else:
            raise RefErr()
        res = rv.NULL
        for i, n in enumerate(t[1]):
            val = items[i] if i < len(items) else rv.NULL
            if env.lookup_env(n) is None:
                raise RefErr()
            self.assign_to(n, val, env)
            res = val
        return res

    # -- control flow -----------------------------------------------------
    def ev_if(self, t, env):
        for cond, body in t[1]:
            c = self.ev(cond, env)
            if self.need_bool(c):
                return self.ev(body, env)
        if t[2] is not None:
            return self.ev(t[2], env)
        return rv.TRUE

    def ev_break(self, t, env):
        s = BreakSig()
        s.level = 2 if self.m("break_all") else 1
        raise s

    def ev_continue(self, t, env):
        if self.m("continue_as_break"):
            raise BreakSig()
        raise ContinueSig()

    def ev_return(self, t, env):
        raise ReturnSig(self.ev(t[1], env) if t[1] is not None else rv.NULL)

    def ev_error(self, t, env):
        raise RefErr(self.ev(t[1], env))

    def loop_body(self, body, env):
        """-> ('next'|'break', value)"""
        try:
            return "next", self.ev(body, env)
        except ContinueSig:
            return "next", rv.TRUE
        except BreakSig as s:
            if getattr(s, "level", 1) > 1:
                s.level -= 1
                self.pending_break = s
                return "break2", rv.TRUE
            return "break", rv.TRUE
        except ReturnSig:
            if self.m("return_loop_only"):
                return "break", rv.TRUE
            raise

    def ev_for(self, t, env):
        names, what, src, body = t[1], t[2], t[3], t[4]
        coll = self.ev(src, env)
        values = self.iter_values(coll, what, True)
        result = rv.TRUE
        # variables of the current scope that have the names of the loop variables get their values back afterwards
        # (also when the loop is left by an error)
        shadowed = {n: env.vars[n] for n in names if n in env.vars}
        try:
            for v in values:
                self.tick()
                if len(names) == 1:
                    env.vars[names[0]] = v
                else:
                    if kind_of(v) == "list":
                        parts = v.items
                    elif kind_of(v) == "set":
                        parts = sort_key_list(v.items)
                    else:
                        raise Unspecified("destructuring for over scalar")
                    if len(parts) < len(names):
                        raise Unspecified("destructuring for over short element")
                    for n, p in zip(names, parts):
                        env.vars[n] = p
                st, result = self.loop_body(body, env)
                if st == "break":
                    break
                if st == "break2":
                    raise self.pending_break
        except BaseException:
            env.vars.update(shadowed)
            raise
        if values and kind_of(coll) != "str":
            for n in names:
                env.vars.pop(n, None)
        env.vars.update(shadowed)
        return result

    def ev_while(self, t, env):
        result = rv.TRUE
        n = 0
        while True:
            self.tick()
            c = self.ev(t[1], env)
            if not self.need_bool(c):
                break
            st, result = self.loop_body(t[2], env)
            if st == "break":
                break
            if st == "break2":
                raise self.pending_break
            n += 1
            if self.m("while_once"):
                break
            if n > 2000:
                raise StepLimit()
        return result

    def ev_block(self, t, env):
        stmts, catches, fin = t[1], t[2], t[3]
        result = rv.TRUE
        err_to_raise = None
        ran_finally = [False]

        def run_finally():
            ran_finally[0] = True
            for s in fin:
                try:
                    self.ev(s, env)
                except Sig:
                    pass       # a control statement directly in a finally part is discarded
        try:
            try:
                for s in stmts:
                    try:
                        result = self.ev(s, env)
                    except RefErr:
                        if self.m("continue_after_error") and catches:
                            continue
                        raise
            except RefErr as e:
                handled = False
                for errx, body in catches:
                    if errx is None or self.m("first_catch_wins"):
                        match = True
                    else:
                        ev_ = self.ev(errx, env)
                        match = veq(e.value, ev_) if not self.m("catch_by_text") else (str(freeze(e.value)[1:]) == str(freeze(ev_)[1:]))
                    if match:
                        handled = True
                        if self.m("finally_in_handler"):
                            run_finally()
                        result = self.ev(body, env)
                        break
                if not handled:
                    raise
        except RefErr:
            if not self.m("finally_skipped_on_error"):
                run_finally()
            raise
        except ReturnSig:
            if not self.m("finally_skipped_on_return"):
                run_finally()
            raise
        except (BreakSig, ContinueSig):
            if not self.m("finally_skipped_on_break"):
                run_finally()
            raise
        run_finally()
        if self.m("finally_twice"):
            run_finally()
        return result

    def ev_comp(self, t, env):
        kind, exprs, clauses, mode, cond = t[1], t[2], t[3], t[4], t[5]
        local = Env(env)
        srcs = [self.ev(c[2], env) for c in clauses]
        vals = [self.iter_values(s, c[1], False) for s, c in zip(srcs, clauses)]
        if kind == "list":
            out = RList()
        elif kind == "set":
            out = RSet()
        else:
            out = RMap()

        def emit():
            self.tick()
            if kind == "map":
                kv = self.ev(exprs[0], local)
                vv = self.ev(exprs[1], local)
            else:
                vv = self.ev(exprs[0], local)
            if cond is not None and not self.m("filter_ignored"):
                c = self.ev(cond, local)
                if not self.need_bool(c):
                    return
            elif cond is not None:
                self.ev(cond, local)
            if kind == "list":
                out.items.append(vv)
            elif kind == "set":
                out.add(vv)
            else:
                out.put(kv, vv)
        if mode == "single":
            for v in vals[0]:
                local.vars[clauses[0][0]] = v
                emit()
        elif mode == "product":
            for v in vals[0]:
                local.vars[clauses[0][0]] = v
                for w in vals[1]:
                    local.vars[clauses[1][0]] = w
                    emit()
        else:
            n = (min if self.m("parallel_min") else max)(len(vals[0]), len(vals[1]))
            for i in range(n):
                local.vars[clauses[0][0]] = vals[0][i] if i < len(vals[0]) else rv.NULL
                local.vars[clauses[1][0]] = vals[1][i] if i < len(vals[1]) else rv.NULL
                emit()
        return out


def run_program(prog, modes=(), step_limit=200000):
    """-> (outcome, log) or raises Unspecified / StepLimit"""
    e = Evaluator(modes, step_limit)
    out = e.run(prog)
    return out, e.log
