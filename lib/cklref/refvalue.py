"""Abstract data values and the reference relations of C06/C07/C08.

Imports nothing from ckl.  An abstract value is a tagged tuple:
  ("null",) ("bool", b) ("int", n) ("dec", f) ("str", s) ("date", (y,m,d,H,M,S))
  ("pat", s) ("list", (v,...)) ("set", (v,...)) ("map", ((k,v),...)) ("obj", ((name,v),...))
Sets/maps hold their members in *some* order; ref_eq ignores it."""
import re
from fractions import Fraction

NULL = ("null",)
TRUE = ("bool", True)
FALSE = ("bool", False)


def kind(v):
    return v[0]


def is_num(v):
    return v[0] in ("int", "dec")


def num(v):
    return Fraction(v[1])


def ref_eq(a, b):
    ka, kb = a[0], b[0]
    if is_num(a) and is_num(b):
        return num(a) == num(b)
    if ka != kb:
        return False
    if ka in ("null",):
        return True
    if ka in ("bool", "str", "pat", "date"):
        return a[1] == b[1]
    if ka == "list":
        return len(a[1]) == len(b[1]) and all(ref_eq(x, y) for x, y in zip(a[1], b[1]))
    if ka == "set":
        sa, sb = dedupe(a[1]), dedupe(b[1])
        return len(sa) == len(sb) and all(member(x, sb) for x in sa)
    if ka == "obj":
        da, db = dict(a[1]), dict(b[1])          # member names are plain strings
        return set(da) == set(db) and all(ref_eq(da[n], db[n]) for n in da)
    if ka == "map":
        ma, mb = dedupe_map(a[1]), dedupe_map(b[1])
        if len(ma) != len(mb):
            return False
        for k, v in ma:
            hit = [v2 for k2, v2 in mb if ref_eq(k, k2)]
            if not hit or not ref_eq(v, hit[0]):
                return False
        return True
    raise ValueError(ka)


def member(x, items):
    return any(ref_eq(x, y) for y in items)


def dedupe(items):
    """first representative of each equality class, in given order"""
    out = []
    for x in items:
        if not member(x, out):
            out.append(x)
    return out


def dedupe_map(pairs):
    """last value wins, position of first key kept (host dict semantics)"""
    out = []
    for k, v in pairs:
        for i, (k2, v2) in enumerate(out):
            if ref_eq(k, k2):
                out[i] = (k2, v)
                break
        else:
            out.append((k, v))
    return out


def n_classes(items):
    return len(dedupe(items))


def same_order_kind(a, b):
    """True if C07 defines the order between a and b."""
    if is_num(a) and is_num(b):
        return True
    if a[0] != b[0]:
        return False
    if a[0] in ("str", "bool", "date"):
        return True
    if a[0] == "list":
        # defined when the first differing position is comparable
        for x, y in zip(a[1], b[1]):
            if not ref_eq_total(x, y):
                return same_order_kind(x, y)
        return True
    return False


def ref_eq_total(a, b):
    return ref_eq(a, b)


def ref_lt(a, b):
    """Strict order of C07; only call when same_order_kind(a, b)."""
    if is_num(a) and is_num(b):
        return num(a) < num(b)
    k = a[0]
    if k == "str":
        return a[1] < b[1]          # host str order is code-point lexicographic
    if k == "bool":
        return (not a[1]) and b[1]
    if k == "date":
        return a[1] < b[1]
    if k == "list":
        for x, y in zip(a[1], b[1]):
            if not ref_eq(x, y):
                return ref_lt(x, y)
        return len(a[1]) < len(b[1])
    raise ValueError(k)


INT_RE = re.compile(r"^-?\d+$")
DEC_RE = re.compile(r"^-?\d+\.\d+$")


def type_name(v):
    return {"null": "null", "bool": "boolean", "int": "int", "dec": "decimal",
            "str": "string", "date": "date", "pat": "pattern", "list": "list",
            "set": "set", "map": "map", "obj": "object"}[v[0]]


def is_data(v):
    """Data values of C08: NULL, booleans, ints, decimals, strings, patterns
    and lists, sets, maps of them."""
    k = v[0]
    if k in ("null", "bool", "int", "dec", "str", "pat"):
        return True
    if k in ("list", "set"):
        return all(is_data(x) for x in v[1])
    if k == "map":
        return all(is_data(x) and is_data(y) for x, y in v[1])
    return False


def depth(v):
    k = v[0]
    if k in ("list", "set"):
        return 1 + max([depth(x) for x in v[1]] or [0])
    if k in ("map", "obj"):
        return 1 + max([max(depth(x) if isinstance(x, tuple) else 0, depth(y)) for x, y in v[1]] or [0])
    return 0
