"""Layout renderer: token list -> source text, choosing the separator at every
token boundary and recording the 1-based line on which each token starts
(C20's ground truth; C14's meaning-preserving re-layouts).

Separators: "" only next to ( ) [ ] , ; (always safe: those characters end any
pending token and are emitted alone); otherwise at least one of space, tab, LF,
CRLF, or a # comment terminated by LF/CRLF."""

GLUE_OK = set("()[],;")

MODES = ["random", "lf", "crlf", "tabs", "comments", "dense", "spaces"]


def can_glue(a, b):
    if a.endswith("\n") or a.startswith("#"):
        return False
    return (a in GLUE_OK) or (b in GLUE_OK)


def comment_text(r):
    return "#" + r.choice(["", " c", " if then else end", " 'quote", " \"dq", " // pat", " do <<", "#", " é", " x = 1;", "\t",
                           " a; nosuch_name(", "; error 'from comment';", " ) ] end", " \\", " tab\tinside",
                           " was: \x0c nosuch_a(", " vt \x0b error 'vt';", " fs \x1c; nosuch_b", " nel \x85 nosuch_c(1)", " ls \u2028 error 'ls'",
                           " ps \u2029 ) end",
                           # a comment begins at # whatever comes next: brackets, operators, another comment sign
                           "[1] second element", "[was: a[0]]", "[", "]#", "(", "{x}", "<<", "<*", "!", "*x*", "-", "/* x */", "|", "--[[ x ]]", "= x", "#[ x ]#",
                           "!/usr/bin/ckl", "\"", "'", "//", "\\"])


def separator(r, mode, a, b):
    glue = can_glue(a, b)
    if mode == "dense":
        return "" if glue else " "
    if mode == "spaces":
        return " "
    if mode == "lf":
        return "\n"
    if mode == "crlf":
        return "\r\n"
    if mode == "tabs":
        return "\t"
    if mode == "comments":
        return " " + comment_text(r) + r.choice(["\n", "\r\n"])
    # random
    k = r.random()
    if glue and k < 0.35:
        return ""
    out = ""
    n = 1 if r.random() < 0.7 else r.randint(2, 4)
    for _ in range(n):
        k = r.random()
        if k < 0.45:
            out += " "
        elif k < 0.55:
            out += "\t"
        elif k < 0.75:
            out += "\n"
        elif k < 0.85:
            out += "\r\n"
        else:
            out += (" " if r.random() < 0.5 else "") + comment_text(r) + r.choice(["\n", "\n", "\r\n"])
    if out == "" and not glue:
        out = " "
    return out


OFFSETS = []    # start offsets of the tokens of the most recent render() call


def render(tokens, r, mode="random", lead=True, trail=True, keep_together=None):
    """tokens: list of token texts.  keep_together: set of indices i such that
    token i and i+1 must stay on one line (separator is a single space or glue).
    Returns (text, lines) with lines[i] = 1-based start line of token i."""
    keep_together = keep_together or set()
    parts = []
    lines = []
    OFFSETS.clear()
    nchars = 0
    line = 1
    if lead and mode in ("random", "comments") and r.random() < 0.4:
        pre = r.choice(["\n", "  ", "\r\n\r\n", comment_text(r) + "\n", "\t\n"])
        parts.append(pre)
        nchars += len(pre)
        line += pre.count("\n")
    for i, t in enumerate(tokens):
        lines.append(line)
        OFFSETS.append(nchars)
        parts.append(t)
        nchars += len(t)
        line += t.count("\n")
        if i + 1 < len(tokens):
            if i in keep_together:
                sep = "" if (can_glue(t, tokens[i + 1]) and r.random() < 0.5) else r.choice([" ", "  ", "\t"])
            else:
                sep = separator(r, mode, t, tokens[i + 1])
            parts.append(sep)
            nchars += len(sep)
            line += sep.count("\n")
    if trail:
        if mode == "comments" or (mode == "random" and r.random() < 0.4):
            parts.append(r.choice(["", " ", "\n", "\r\n", " # trailing comment without newline", "\n# c\n", "\t"]))
    return "".join(parts), lines
