"""Adversarial value generator + bridges between abstract values
(cklref.refvalue), real ckl values and literal source text."""
import datetime
import math

from cklref import refvalue as rv

INTS = [0, 1, -1, 2, 3, 7, -7, 10, 42, 255, 2**31 - 1, 2**31, -2**31, 2**32,
        2**53 - 1, 2**53, 2**53 + 1, 2**53 + 2, -(2**53) - 1, 2**63 - 1, 2**63,
        -2**63, 2**64 + 1, 10**30, -10**30, 10**30 + 1]
DECS = [0.0, 1.0, -1.0, 0.5, 1.5, -2.5, 0.1, 0.25, 2.0, 3.0, 7.0, 42.0, 100.0,
        float(2**53), float(2**53) + 2, float(2**63), 1e15, 1e16, 1e17, 1e22,
        1.5e300, 1.797e308, 1e-4, 1e-5, 1e-7, 1.25e-7, 5e-324, -1e16, -1e-7,
        123456.789, 0.30000000000000004, -0.0, float(10**30)]
STR_ALPHA = ["a", "b", "A", "z", " ", "!", "\"", "#", "&", "'", "(", ")", "*",
             "+", ",", "-", ".", "/", "//", "0", "1", ":", ";", "<", "=", ">",
             "?", "[", "\\", "]", "^", "_", "{", "|", "}", "~", "\t", "\n", "\r",
             "é", "日", "\x00", "$", "%", "\\n", "\\x41", "x41",
             # not printable and beyond U+00FF (zero-width, separators, BOM, private use), controls, astral
             "\u200b", "\u200d", "\u2028", "\u2029", "\ufeff", "\u3000", "\ue000", "\x7f", "\x85", "\xa0", "\xad", "\x1b", "\x0c", "\U0001f600"]
FIXED_STRS = ["", "a", "b", "ab", "a b", "abc", "A", "'", "\"", "\\", "\n", "\t",
              "\r\n", "a'b", "a\"b", "a\\b", "# x", "//", "a//b", "{x}", "a|b",
              " a", "a ", "é", "日本", "\x00", "TRUE", "NULL", "1", "1.0", "'a'",
              "a,b", "[1]", "<<1>>", "it's", "\\'", "\\\\", "x\\", "'x", "x'",
              "zero\u200bwidth", "\ufeffbom", "a\u2028b", "\U0001f600"]
PAT_TEXTS = ["a", "a+", "[a-z]*", "x|y", "^ab$", "\\d+", "a.b", "(a)(b)",
             "", "/", "a/", "/a", "a//b", "a/b", "'", "\\\\", "a b", "\t"]


def gen_int(r):
    k = r.random()
    if k < 0.5:
        return ("int", r.choice(INTS))
    if k < 0.8:
        return ("int", r.randint(-20, 20))
    return ("int", r.randint(-2**70, 2**70))


def gen_dec(r):
    k = r.random()
    if k < 0.6:
        return ("dec", r.choice(DECS))
    if k < 0.8:
        return ("dec", r.randint(-40, 40) / 4.0)
    if k < 0.9:
        return ("dec", float(r.choice(INTS)))
    return ("dec", r.uniform(-1e6, 1e6))


def gen_str(r, maxlen=5):
    if r.random() < 0.4:
        return ("str", r.choice(FIXED_STRS))
    return ("str", "".join(r.choice(STR_ALPHA) for _ in range(r.randint(0, maxlen))))


def gen_date(r):
    y = r.choice([1900, 1969, 1970, 1971, 1999, 2000, 2020, 2024, 2100, 9999])
    if r.random() < 0.15:
        # years with fewer than four digits (their text is shorter: order and identity are those of the instants)
        y = r.choice([1, 9, 99, 100, 999, 1000, 1582, 1899])
    m = r.randint(1, 12)
    d = r.randint(1, 28)
    if r.random() < 0.5:
        return ("date", (y, m, d, 0, 0, 0))
    return ("date", (y, m, d, r.randint(0, 23), r.randint(0, 59), r.randint(0, 59)))


def gen_pat(r, safe_only=False):
    texts = [t for t in PAT_TEXTS if not safe_only or pat_literal_ok(t)]
    return ("pat", r.choice(texts))


def pat_literal_ok(t):
    """A pattern text that the literal syntax //...// can spell."""
    return t != "" and not t.startswith("/") and not t.endswith("/") and "//" not in t


def gen_scalar(r, kinds=None):
    kinds = kinds or ["null", "bool", "int", "dec", "str", "pat"]
    k = r.choice(kinds)
    if k == "null":
        return rv.NULL
    if k == "bool":
        return ("bool", r.random() < 0.5)
    if k == "int":
        return gen_int(r)
    if k == "dec":
        return gen_dec(r)
    if k == "str":
        return gen_str(r)
    if k == "date":
        return gen_date(r)
    if k == "pat":
        return gen_pat(r)
    raise ValueError(k)


def gen_value(r, depth=2, kinds=None, containers=("list", "set", "map"), maxlen=4):
    if depth <= 0 or r.random() < 0.45:
        return gen_scalar(r, kinds)
    c = r.choice(containers)
    n = r.choice([0, 1, 1, 2, 2, 3, maxlen])
    if c == "list":
        return ("list", tuple(gen_value(r, depth - 1, kinds, containers, maxlen) for _ in range(n)))
    if c == "set":
        return ("set", tuple(rv.dedupe([gen_value(r, depth - 1, kinds, containers, maxlen)
                                        for _ in range(n)])))
    if c == "map":
        return ("map", tuple(rv.dedupe_map([(gen_value(r, depth - 1, kinds, containers, maxlen),
                                             gen_value(r, depth - 1, kinds, containers, maxlen))
                                            for _ in range(n)])))
    if c == "obj":
        names = ["a", "b", "c", "x", "_p"]
        return ("obj", tuple((r.choice(names) + str(i), gen_value(r, depth - 1, kinds, ("list", "set", "map"), maxlen))
                             for i in range(n)))
    raise ValueError(c)


# ---------------------------------------------------------------------------
# abstract -> real ckl value (Python API)
# ---------------------------------------------------------------------------

def to_ckl(v, order=None):
    """order: optional rng used to permute insertion order of sets/maps."""
    import ckl.values as V
    k = v[0]
    if k == "null":
        return V.NULL
    if k == "bool":
        return V.TRUE if v[1] else V.FALSE
    if k == "int":
        return V.ValueInt(v[1])
    if k == "dec":
        return V.ValueDecimal(v[1])
    if k == "str":
        return V.ValueString(v[1])
    if k == "date":
        return V.ValueDate(datetime.datetime(*v[1]))
    if k == "pat":
        return V.ValuePattern(v[1])
    if k == "list":
        out = V.ValueList()
        for x in v[1]:
            out.addItem(to_ckl(x, order))
        return out
    if k == "set":
        items = list(v[1])
        if order:
            order.shuffle(items)
        out = V.ValueSet()
        for x in items:
            out.addItem(to_ckl(x, order))
        return out
    if k == "map":
        items = list(v[1])
        if order:
            order.shuffle(items)
        out = V.ValueMap()
        for kk, vv in items:
            out.addItem(to_ckl(kk, order), to_ckl(vv, order))
        return out
    if k == "obj":
        out = V.ValueObject()
        for name, vv in v[1]:
            out.addItem(name, to_ckl(vv, order))
        return out
    raise ValueError(k)


# ---------------------------------------------------------------------------
# real -> abstract, by public attributes only
# ---------------------------------------------------------------------------

class NotData(Exception):
    pass


def abstract(x):
    t = x.type() if hasattr(x, "type") else None
    if t == "null":
        return rv.NULL
    if t == "boolean":
        return ("bool", bool(x.value))
    if t == "int":
        return ("int", x.value)
    if t == "decimal":
        return ("dec", x.value)
    if t == "string":
        return ("str", x.value)
    if t == "date":
        d = x.value
        return ("date", (d.year, d.month, d.day, d.hour, d.minute, d.second))
    if t == "pattern":
        return ("pat", x.value)
    if t == "list":
        return ("list", tuple(abstract(i) for i in x.value))
    if t == "set":
        return ("set", tuple(abstract(i) for i in x.value))
    if t == "map":
        return ("map", tuple((abstract(k), abstract(v)) for k, v in x.value.items()))
    if t == "object":
        return ("obj", tuple((k, abstract(v)) for k, v in x.value.items()))
    raise NotData(t)


# ---------------------------------------------------------------------------
# abstract -> literal source text
# ---------------------------------------------------------------------------

def str_literal(s, r=None):
    q = "'" if (r is None or r.random() < 0.6) else '"'
    out = []
    for ch in s:
        if ch == "\\":
            out.append("\\\\" if (r is None or r.random() < 0.7) else "\\x5c")
        elif ch == q:
            out.append("\\" + q)
        elif ch == "\n":
            out.append("\\n" if (r is None or r.random() < 0.7) else "\\x0a")
        elif ch == "\r":
            out.append("\\r")
        elif ch == "\t":
            out.append("\\t" if (r is None or r.random() < 0.7) else "\t")
        elif ord(ch) < 32 and ord(ch) != 0:
            out.append("\\x%02x" % ord(ch))
        elif r is not None and ord(ch) < 256 and ch.isalnum() and r.random() < 0.05:
            out.append("\\x%02x" % ord(ch))
        else:
            out.append(ch)
    if r is not None:
        out = [("\\x" + o[2:].upper()) if (len(o) == 4 and o.startswith("\\x") and r.random() < 0.4) else o for o in out]
    return q + "".join(out) + q


def dec_literal(f):
    """positional decimal literal that float() maps back to exactly f"""
    import decimal
    if f != f or f in (float("inf"), float("-inf")):
        raise ValueError("non-finite")
    d = decimal.Decimal(repr(f))
    s = format(d, "f")
    if "." not in s:
        s += ".0"
    if s.startswith("-"):
        return s
    return s


def int_literal(n, r=None):
    if r is None or n < 0:
        return str(n)
    k = r.random()
    if k < 0.1:
        return hex(n)
    if k < 0.15 and n < 2**40:
        return bin(n)
    if k < 0.25 and n >= 1000:
        s = str(n)
        return s[:-3] + "_" + s[-3:]
    return str(n)


def to_source(v, r=None, perm=None):
    """literal source text; perm (rng) permutes set/map element order."""
    k = v[0]
    if k == "null":
        return "NULL"
    if k == "bool":
        return "TRUE" if v[1] else "FALSE"
    if k == "int":
        if v[1] < 0:
            return "-" + int_literal(-v[1], r)
        return int_literal(v[1], r)
    if k == "dec":
        s = dec_literal(v[1])
        return s
    if k == "str":
        return str_literal(v[1], r)
    if k == "date":
        return "date('%04d%02d%02d%02d%02d%02d')" % v[1]
    if k == "pat":
        return "//" + v[1] + "//"
    if k == "list":
        return "[" + ", ".join(to_source(x, r, perm) for x in v[1]) + "]"
    if k == "set":
        items = list(v[1])
        if perm:
            perm.shuffle(items)
        return "<< " + ", ".join(to_source(x, r, perm) for x in items) + " >>"
    if k == "map":
        items = list(v[1])
        if perm:
            perm.shuffle(items)
        return "<<< " + ", ".join(src_key(kk, r, perm) + " => " + to_source(vv, r, perm)
                                  for kk, vv in items) + " >>>"
    if k == "obj":
        return "<*" + ", ".join(name + " = " + to_source(vv, r, perm) for name, vv in v[1]) + "*>"
    raise ValueError(k)


def src_key(k, r, perm):
    # a bare identifier in key position is quoted as a string by the parser
    # (documented map-literal shorthand), and NULL is an identifier
    if k[0] == "null":
        return "identity(NULL)"
    return to_source(k, r, perm)


def finite(v):
    k = v[0]
    if k == "dec":
        return math.isfinite(v[1])
    if k in ("list", "set"):
        return all(finite(x) for x in v[1])
    if k == "map":
        return all(finite(a) and finite(b) for a, b in v[1])
    return True
