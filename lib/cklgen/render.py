"""AST (cklref.refeval shape) -> token list.

Canonical rendering parenthesises wherever the grammar needs it.  With a style
rng it also adds *redundant* parentheses around pure expressions and optional
trailing semicolons (C14); token-level respelling and layout live in
respell()/cklgen.layout."""
from cklref import refvalue as rv

PRELUDE_SRC = "def log(tag, v) do T !> append([tag, v]); v end"
PRELUDE_TOKENS = ["def", "log", "(", "tag", ",", "v", ")", "do", "T", "!>", "append", "(", "[", "tag", ",", "v", "]", ")",
                  ";", "v", "end"]

LEVEL = {"or": 1, "and": 2, "not": 3, "chain": 4, "neg": 7, "in": 8, "notin": 8}
PURE = {"lit", "var", "src", "bin", "neg", "chain", "not", "and", "or", "in", "notin", "list", "set", "map", "call", "index", "member"}


def level(t):
    k = t[0]
    if k in LEVEL:
        return LEVEL[k]
    if k == "bin":
        return 5 if t[1] in "+-" else 6
    if k == "lit":
        if t[1][0] in ("int", "dec") and (t[1][1] < 0 or (t[1][0] == "dec" and str(t[1][1]).startswith("-"))):
            return 7
        return 9
    if k in ("var", "src", "list", "set", "map", "obj", "call", "pipe", "mcall", "member", "index", "indexd", "comp"):
        return 9
    if k in ("def", "deffn", "defdestr", "for", "while"):
        return -1     # statement-only forms: need parentheses anywhere but in statement position
    return 0      # greedy expression forms: fn, if, block, assign, return, error ...


def str_token(s):
    out = []
    for ch in s:
        if ch == "\\":
            out.append("\\\\")
        elif ch == "'":
            out.append("\\'")
        elif ch == "\n":
            out.append("\\n")
        elif ch == "\r":
            out.append("\\r")
        elif ch == "\t":
            out.append("\\t")
        else:
            out.append(ch)
    return "'" + "".join(out) + "'"


def lit_tokens(av):
    k = av[0]
    if k == "null":
        return ["NULL"]
    if k == "bool":
        return ["TRUE" if av[1] else "FALSE"]
    if k == "int":
        return ["-", str(-av[1])] if av[1] < 0 else [str(av[1])]
    if k == "dec":
        from cklgen.values import dec_literal
        s = dec_literal(av[1])
        return ["-", s[1:]] if s.startswith("-") else [s]
    if k == "str":
        return [str_token(av[1])]
    if k == "list":
        out = ["["]
        for i, x in enumerate(av[1]):
            if i:
                out.append(",")
            out += lit_tokens(x)
        return out + ["]"]
    if k == "set":
        out = ["<<"]
        for i, x in enumerate(av[1]):
            if i:
                out.append(",")
            out += lit_tokens(x)
        return out + [">>"]
    if k == "map":
        out = ["<<<"]
        for i, (a, b) in enumerate(av[1]):
            if i:
                out.append(",")
            out += lit_tokens(a) + ["=>"] + lit_tokens(b)
        return out + [">>>"]
    raise ValueError(k)


import re as _re
from cklgen import syntax as _syntax
BAREWORD = _re.compile(r"[a-z][a-z0-9_]*")
NOT_BARE = set(_syntax.KEYWORDS) | set(getattr(_syntax, "CONTEXTUAL", [])) | {"e", "pi", "stdout", "stdin", "args", "true", "false", "null"}


class Renderer:
    def __init__(self, style=None, paren_p=0.0, semi_p=0.0):
        self.r = style
        self.paren_p = paren_p if style is not None else 0.0
        self.semi_p = semi_p if style is not None else 0.0

    # -- expressions ------------------------------------------------------
    def e(self, t, need=0):
        toks = self._e(t)
        lv = level(t)
        if lv < need:
            return ["("] + toks + [")"]
        if self.paren_p and t[0] in PURE and self.r.random() < self.paren_p:
            # redundant parentheses around a pure expression at an expression position
            return ["("] + toks + [")"]
        return toks

    def args(self, args):
        out = ["("]
        for i, a in enumerate(args):
            if i:
                out.append(",")
            if a[0] == "pos":
                out += self.e(a[1], 0)
            elif a[0] == "named":
                out += [a[1], "="] + self.e(a[2], 0)
            else:
                inner = a[1]
                if inner[0] == "var":
                    out += ["...", inner[1]]
                elif inner[0] == "lit" and inner[1][0] in ("list", "map"):
                    out += ["..."] + lit_tokens(inner[1])
                elif inner[0] in ("list", "map"):
                    out += ["..."] + self._e(inner)
                else:
                    raise ValueError("spread operand must be identifier, list or map literal")
        return out + [")"]

    def params(self, params):
        out = ["("]
        for i, (name, d, rest) in enumerate(params):
            if i:
                out.append(",")
            out.append(name)
            if d is not None:
                out += ["="] + self.e(d, 0)
        return out + [")"]

    def body(self, b):
        """function / loop / handler body: a block for statement sequences, else an expression"""
        if b[0] == "seq":
            return self.block_tokens(b[1], [], [])
        if b[0] == "block":
            return self._e(b)
        if level(b) < 0:
            return self.block_tokens([b], [], [])
        return self.e(b, 0)

    def branch(self, b):
        """if-branch: parsed with parse_or_expr unless it starts with do"""
        if b[0] == "seq":
            return self.block_tokens(b[1], [], [])
        if b[0] == "block":
            return self._e(b)
        if level(b) <= 0:
            return self.block_tokens([b], [], [], force=True)
        return self.e(b, 1)

    def stmts(self, lst, trailing_ok=True):
        out = []
        for i, s in enumerate(lst):
            if i:
                out.append(";")
            out += self.e(s, -1)
        if lst and trailing_ok and self.semi_p and self.r.random() < self.semi_p:
            out.append(";")
        return out

    def block_tokens(self, stmts, catches, fin, force=False):
        out = ["do"] + self.stmts(stmts)
        if not stmts:
            pass
        for errx, body in catches:
            out.append("catch")
            out += ["all"] if errx is None else self.e(errx, 0)
            if body[0] in ("seq", "block"):
                out += self.body(body)
            else:
                h = self._e(body) if level(body) >= 0 else None
                # a handler that starts with ( [ or - would be read as a continuation of the catch
                # expression (call, index, subtraction): give it a block of its own
                if h is None or (errx is not None and h[0] in ("(", "[", "-", "+")):
                    out += self.block_tokens([body], [], [])
                else:
                    out += h
            if self.semi_p and self.r.random() < self.semi_p:
                out.append(";")
        if fin:
            out.append("finally")
            out += self.stmts(fin)
        out.append("end")
        return out

    def _e(self, t):
        k = t[0]
        if k == "lit":
            return lit_tokens(t[1])
        if k == "var":
            return [t[1]]
        if k == "src":
            if t[1][0] in ("int", "decimal", "string", "boolean", "pattern", "date", "list", "set", "map", "object"):
                return ["("] + list(t[1]) + [")"]      # `x is int(...)` would be read as the type predicate
            return list(t[1])
        if k == "bin":
            if t[1] in "+-":
                return self.e(t[2], 5) + [t[1]] + self.e(t[3], 6)
            return self.e(t[2], 6) + [t[1]] + self.e(t[3], 7)
        if k == "neg":
            return ["-"] + self.e(t[1], 9)
        if k == "chain":
            out = self.e(t[1][0], 5)
            for op, x in zip(t[2], t[1][1:]):
                # `x is int(...)` would be read as the type predicate `x is int`
                out += op.split() + self.e(x, 5)
            return out
        if k == "not":
            return ["not"] + self.e(t[1], 4)
        if k in ("and", "or"):
            out = []
            for i, x in enumerate(t[1]):
                if i:
                    out.append(k)
                out += self.e(x, 3 if k == "and" else 2)
            return out
        if k == "in":
            return self.e(t[1], 9) + ["in"] + self.e(t[2], 9)
        if k == "notin":
            return self.e(t[1], 9) + ["not", "in"] + self.e(t[2], 9)
        if k == "list":
            out = ["["]
            for i, it in enumerate(t[1]):
                if i:
                    out.append(",")
                if it[0] == "spread":
                    out += ["...", it[1][1]] if it[1][0] == "var" else ["..."] + self._e(it[1])
                else:
                    out += self.e(it, 0)
            return out + ["]"]
        if k == "set":
            out = ["<<"]
            for i, it in enumerate(t[1]):
                if i:
                    out.append(",")
                out += self.e(it, 0)
            return out + [">>"]
        if k == "map":
            out = ["<<<"]
            for i, (a, b) in enumerate(t[1]):
                if i:
                    out.append(",")
                ka = self.e(a, 0)
                if a[0] == "var":
                    ka = ["identity", "("] + ka + [")"]     # a bare identifier key would be read as a string
                elif (self.paren_p and a[0] == "lit" and a[1][0] == "str" and BAREWORD.fullmatch(a[1][1] or "")
                      and a[1][1] not in NOT_BARE and self.r.random() < 0.35):
                    # the documented shorthand: a bare word in key position is that string; redundant parentheses
                    # around it change nothing
                    ka = [a[1][1]]
                    if self.r.random() < 0.5:
                        ka = ["("] + ka + [")"]
                out += ka + ["=>"] + self.e(b, 0)
            return out + [">>>"]
        if k == "obj":
            out = ["<*"]
            for i, (name, x) in enumerate(t[1]):
                if i:
                    out.append(",")
                out += [name, "="] + self.e(x, 0)
            return out + ["*>"]
        if k == "call":
            f = t[1]
            head = [f[1]] if f[0] == "var" else ["("] + self.e(f, 0) + [")"]
            return head + self.args(t[2])
        if k == "pipe":
            # the callee is a name or a chain of members of a name: a !> f(...), a !> o->p->f(...)
            def chain(f):
                if f[0] == "var":
                    return [f[1]]
                assert f[0] == "member", f
                return chain(f[1]) + ["->", f[2]]
            return self.e(t[1], 9) + ["!>"] + chain(t[2]) + self.args(t[3])
        if k == "mcall":
            return self.e(t[1], 9) + ["->", t[2]] + self.args(t[3])
        if k == "member":
            return self.e(t[1], 9) + ["->", t[2]]
        if k == "index":
            base = self.e(t[1], 9)
            if t[1][0] == "lit" and t[1][1][0] not in ("str", "list", "set", "map"):
                base = ["("] + base + [")"]
            return base + ["["] + self.e(t[2], 0) + ["]"]
        if k == "indexd":
            return self.e(t[1], 9) + ["["] + self.e(t[2], 0) + [","] + self.e(t[3], 0) + ["]"]
        if k == "fn":
            return ["fn"] + self.params(t[1]) + self.body(t[2])
        if k == "if":
            out = []
            for i, (c, b) in enumerate(t[1]):
                out += ["if" if i == 0 else "elif"] + self.e(c, 1) + ["then"] + self.branch(b)
            if t[2] is not None:
                out += ["else"] + self.branch(t[2])
            return out
        if k == "block":
            return self.block_tokens(t[1], t[2], t[3])
        if k == "seq":
            return self.block_tokens(t[1], [], [])
        if k == "comp":
            kind, exprs, clauses, mode, cond = t[1], t[2], t[3], t[4], t[5]
            op, cl = {"list": ("[", "]"), "set": ("<<", ">>"), "map": ("<<<", ">>>")}[kind]
            out = [op]
            if kind == "map":
                out += self.e(exprs[0], 0) + ["=>"] + self.e(exprs[1], 0)
            else:
                out += self.e(exprs[0], 0)
            for i, (var, what, src) in enumerate(clauses):
                if i and mode == "parallel":
                    out.append("also")
                out += ["for", var, "in"] + ([what] if what else []) + self.e(src, 1)
            if cond is not None:
                out += ["if"] + self.e(cond, 1)
            return out + [cl]
        if k == "def":
            return ["def", t[1], "="] + self.e(t[2], 0)
        if k == "deffn":
            return ["def", t[1]] + self.params(t[2]) + self.body(t[3])
        if k == "defdestr":
            out = ["def", "["]
            for i, n in enumerate(t[1]):
                if i:
                    out.append(",")
                out.append(n)
            return out + ["]", "="] + self.e(t[2], 0)
        if k == "assign":
            return [t[1], "="] + self.e(t[2], 0)
        if k == "opassign":
            return [t[1], t[2] + "="] + self.e(t[3], 0)
        if k == "assigndestr":
            out = ["["]
            for i, n in enumerate(t[1]):
                if i:
                    out.append(",")
                out.append(n)
            return out + ["]", "="] + self.e(t[2], 0)
        if k == "idxassign":
            return self.e(t[1], 9) + ["["] + self.e(t[2], 0) + ["]", "="] + self.e(t[3], 0)
        if k == "memassign":
            return self.e(t[1], 9) + ["->", t[2], "="] + self.e(t[3], 0)
        if k == "for":
            names, what, src, body = t[1], t[2], t[3], t[4]
            head = ["for"] + ([names[0]] if len(names) == 1 else ["["] + sum(([n, ","] for n in names), [])[:-1] + ["]"])
            head += ["in"] + ([what] if what else []) + self.e(src, 1)
            b = body if body[0] in ("seq", "block") else ("seq", [body])
            return head + self.body(b)
        if k == "while":
            b = t[2] if t[2][0] in ("seq", "block") else ("seq", [t[2]])
            return ["while"] + self.e(t[1], 1) + self.body(b)
        if k == "break":
            return ["break"]
        if k == "continue":
            return ["continue"]
        if k == "return":
            return ["return"] + self.e(t[1], 0)
        if k == "error":
            return ["error"] + self.e(t[1], 0)
        raise ValueError(k)

    def program(self, prog, prelude=True):
        """prog: ("seq", [...]) -> tokens of the whole script"""
        out = []
        if prelude:
            out += PRELUDE_TOKENS + [";"]
        stmts = prog[1] if prog[0] == "seq" else [prog]
        for i, s in enumerate(stmts):
            if i:
                out.append(";")
            out += self.e(s, -1)
        if self.semi_p and self.r.random() < self.semi_p:
            out.append(";")
        return out


def respell(tokens, r):
    """token-level, meaning-preserving respelling of literals and operators"""
    out = []
    for t in tokens:
        if t.isdigit() and len(t) < 30:
            n = int(t)
            k = r.random()
            if k < 0.2:
                t = hex(n)
            elif k < 0.3:
                t = "0x" + ("%X" % n)
            elif k < 0.4 and n < 2**24:
                t = bin(n)
            elif k < 0.5 and n >= 1000:
                s = str(n)
                t = s[:-3] + "_" + s[-3:]
            elif k < 0.55 and n >= 10:
                s = str(n)
                t = s[0] + "_" + s[1:]
            elif k < 0.62:
                # underscores are allowed anywhere after the first digit / the base prefix: leading, trailing, doubled
                t = r.choice(["0x_%x", "0x%x_", "0x_%x_", "0X%x" if False else "0x%x__"]) % n if r.random() < 0.5 else r.choice(["%d_", "%d__"]) % n
            elif k < 0.68:
                h = "%x" % n
                t = ("0x" + h[0] + "__" + h[1:]) if len(h) > 1 else ("0b_" + bin(n)[2:] if n < 2**16 else t)
            elif k < 0.72 and n < 2**16:
                b = bin(n)[2:]
                t = "0b" + b[0] + "_" + b[1:] + "_" if len(b) > 1 else "0b_" + b
        elif len(t) >= 2 and t[0] == "'" and t[-1] == "'":
            t = respell_string(t, r)
        elif t == "!=" and r.random() < 0.5:
            t = "<>"
        elif t == "<>" and r.random() < 0.5:
            t = "!="
        elif "." in t and t.replace(".", "").isdigit() and r.random() < 0.3:
            a, b = t.split(".")
            if len(a) > 3:
                t = a[:-3] + "_" + a[-3:] + "." + b
        out.append(t)
    return out


def respell_string(tok, r):
    """tok is a canonical single-quoted token; returns an equivalent spelling"""
    body = tok[1:-1]
    # decode canonical escapes
    chars = []
    i = 0
    while i < len(body):
        c = body[i]
        if c == "\\" and i + 1 < len(body):
            n = body[i + 1]
            chars.append({"n": "\n", "r": "\r", "t": "\t"}.get(n, n))
            i += 2
        else:
            chars.append(c)
            i += 1
    q = '"' if r.random() < 0.5 else "'"
    out = []
    for ch in chars:
        k = r.random()
        if ch == "\\":
            out.append("\\\\" if k < 0.6 else "\\x5c")
        elif ch == q:
            out.append("\\" + q)
        elif ch == "\n":
            out.append("\\n" if k < 0.5 else ("\\x0a" if k < 0.8 else "\n"))
        elif ch == "\r":
            out.append("\\r" if k < 0.6 else "\\x0d")
        elif ch == "\t":
            out.append("\\t" if k < 0.5 else ("\\x09" if k < 0.8 else "\t"))
        elif 0x80 <= ord(ch) <= 0xff and k < 0.5:
            out.append("\\x%02x" % ord(ch))   # a Latin-1 character as an escape
        elif ch in "'\"" and k < 0.3:
            out.append("\\" + ch)          # escaping the other quote is an identity escape
        elif ord(ch) < 256 and (ord(ch) < 32 or 127 <= ord(ch) < 161):
            out.append(("\\x%02x" % ord(ch)) if k < 0.5 else ch)      # raw or as a hex escape: the same character
        elif ord(ch) < 128 and ch.isalnum() and k < 0.08:
            out.append("\\x%02x" % ord(ch))
        elif ch.isalpha() and ch not in "nrtx" and k < 0.12:
            out.append("\\" + ch)          # \q-style identity escape
        else:
            out.append(ch)
    # the digits of a hex escape may be written in either case (\x4a, \x4A, \xE9), in both quote styles
    out = [hexcase(r, o) for o in out]
    return q + "".join(out) + q


def hexcase(r, esc):
    if len(esc) == 4 and esc.startswith("\\x") and esc[2:].lower() != esc[2:].upper():
        k = r.random()
        if k < 0.4:
            return esc
        if k < 0.7:
            return "\\x" + esc[2:].upper()
        return "\\x" + "".join(c.upper() if r.random() < 0.5 else c.lower() for c in esc[2:])
    return esc
