"""Seeded program generators (AST in cklref.refeval shape) for C03/C04/C05,
reused by C12/C14.  Every program logs what it observes through log(tag, v)."""
from cklref import refvalue as rv

NAMES = ["a", "b", "c", "d", "e"]


def I(n):
    return ("lit", ("int", n))


def S(s):
    return ("lit", ("str", s))


def B(b):
    return ("lit", ("bool", b))


NULL = ("lit", rv.NULL)


def V(n):
    return ("var", n)


def LOG(tag, e):
    return ("call", V("log"), [("pos", S(tag)), ("pos", e)])


def CALL(f, *args):
    return ("call", V(f) if isinstance(f, str) else f, [a if isinstance(a, tuple) and a and a[0] in ("pos", "named", "spread") else ("pos", a) for a in args])


def SEQ(*stmts):
    return ("seq", list(stmts))


class Gen:
    def __init__(self, rng):
        self.r = rng
        self.uid = 0

    def fresh(self, prefix):
        self.uid += 1
        return "%s%d" % (prefix, self.uid)

    # ------------------------------------------------------------------
    # small expressions over visible names
    # ------------------------------------------------------------------
    def small_expr(self, names, depth=0):
        r = self.r
        k = r.random()
        if k < 0.35 or depth > 1 or not names:
            return I(r.randint(0, 9))
        if k < 0.7:
            return V(r.choice(names))
        op = r.choice(["+", "-", "*", "+"])
        return ("bin", op, self.small_expr(names, depth + 1), self.small_expr(names, depth + 1))

    # ------------------------------------------------------------------
    # C03: scoping and argument binding
    # ------------------------------------------------------------------
    def scoping_program(self):
        r = self.r
        stmts = []
        for i, n in enumerate(NAMES):
            stmts.append(("def", n, I((i + 1) * 10)))
        funcs = {}            # visible function name -> params
        self.fn_depth = 0
        k = r.randint(2, 5)
        for _ in range(k):
            stmts += self.scope_item(list(NAMES), funcs, 0)
        for n in r.sample(NAMES, 3):
            stmts.append(LOG("top." + n, V(n)))
        tmpl = r.random()
        if tmpl < 0.5:
            stmts += r.choice(SCOPE_TEMPLATES)(self)
        return ("seq", stmts)

    def make_params(self):
        r = self.r
        pool = NAMES + ["p", "q", "x"]
        n = r.randint(0, 3)
        names = r.sample(pool, n)
        params = []
        for i, nm in enumerate(names):
            d = None
            if r.random() < 0.35:
                # defaults may depend on earlier parameters and on outer names
                d = self.small_expr(names[:i] + NAMES[:2])
            params.append((nm, d, False))
        if r.random() < 0.25:
            params.append(("rest...", None, True))
        return params

    def arg_expr(self, names):
        """an argument: now and then an explicit NULL (an argument like any other: it binds, the default does not apply)"""
        if self.r.random() < 0.1:
            return NULL
        return self.small_expr(names)

    def call_args(self, params, names, allow_errors=True):
        """arguments for a call of a function with `params`, using every call form"""
        r = self.r
        plain = [p for p in params if not p[2]]
        has_rest = any(p[2] for p in params)
        args = []
        form = r.random()
        bad = allow_errors and r.random() < 0.12
        if form < 0.35:
            # positional (defaults may be omitted from the right)
            n = len(plain)
            while n > 0 and plain[n - 1][1] is not None and r.random() < 0.5:
                n -= 1
            args = [("pos", self.arg_expr(names)) for _ in range(n)]
            if has_rest:
                args += [("pos", self.arg_expr(names)) for _ in range(r.choice([0, 1, 2, 3, 5]))]
        elif form < 0.6:
            # mixed: some positional, the rest named (possibly in another order)
            k = r.randint(0, len(plain))
            args = [("pos", self.arg_expr(names)) for _ in range(k)]
            rest_named = [p for p in plain[k:] if p[1] is None or r.random() < 0.6]
            r.shuffle(rest_named)
            args += [("named", p[0], self.arg_expr(names)) for p in rest_named]
        elif form < 0.75:
            # named first parameter given by name, positionals fill the remaining ones
            if plain:
                j = r.randrange(len(plain))
                others = [p for i, p in enumerate(plain) if i != j]
                args = [("pos", self.arg_expr(names)) for _ in others] + [("named", plain[j][0], self.arg_expr(names))]
        elif form < 0.88:
            # list spread (through an identifier or a literal)
            vals = [self.arg_expr([]) for _ in range(len(plain) + (r.randint(0, 2) if has_rest else 0))]
            k = r.randint(0, len(vals))
            args = [("pos", v) for v in vals[:k]] + [("spread", ("list", vals[k:]))]
        else:
            # map spread: string keys name parameters
            k = r.randint(0, len(plain))
            args = [("pos", self.arg_expr(names)) for _ in range(k)]
            named = [p for p in plain[k:] if p[1] is None or r.random() < 0.5]
            if named:
                args.append(("spread", ("map", [(S(p[0]), self.arg_expr([])) for p in named])))
        if bad:
            kind = r.randrange(4)
            if kind == 0 and args:
                args = args[:-1]                                        # missing
            elif kind == 1:
                args = args + [("pos", I(99))]                          # surplus (unless rest)
            elif kind == 2:
                args = args + [("named", "nosuchparam", I(1))]          # unknown name
            elif plain:
                args = [("named", plain[0][0], I(1)), ("pos", I(2))]     # positional after named
        return args

    def scope_item(self, names, funcs, depth):
        """a few statements in a scope that sees `names` and `funcs`"""
        r = self.r
        out = []
        k = r.random()
        if k < 0.16:
            n = r.choice(NAMES)
            out.append(("def", n, self.small_expr(names)))
        elif k < 0.3:
            n = r.choice(NAMES)
            out.append(("assign", n, self.small_expr(names)))
        elif k < 0.36:
            n = r.choice(NAMES)
            out.append(("opassign", n, r.choice(["+", "-", "*"]), I(r.randint(1, 3))))
        elif k < 0.40:
            # destructuring forms: assignment updates the nearest enclosing bindings, def binds here
            two = r.sample(NAMES, 2)
            src_ = ("list", [self.small_expr(names), self.small_expr(names)] + ([I(7)] if r.random() < 0.3 else []))
            if r.random() < 0.3:
                src_ = ("list", [self.small_expr(names)])          # short: the second target gets NULL
            out.append((r.choice(["assigndestr", "assigndestr", "defdestr"]), two, src_))
            out.append(LOG("destr.%d" % depth, ("list", [V(two[0]), V(two[1])])))
        elif k < 0.5:
            n = r.choice(names)
            out.append(LOG("see.%d.%s" % (depth, n), V(n)))
        elif k < 0.56 and depth < 3:
            # def inside a branch / block: binds in the function (or top-level) scope
            n = r.choice(NAMES)
            inner = ("def", n, self.small_expr(names))
            if r.random() < 0.5:
                out.append(("if", [(B(True), ("seq", [inner]))], None))
            else:
                out.append(("block", [inner, LOG("blk." + n, V(n))], [], []))
            out.append(LOG("after." + n, V(n)))
        elif k < 0.8 and depth < 4:
            fname = self.fresh("f")
            params = self.make_params()
            pnames = [p[0] for p in params]
            inner_names = list(dict.fromkeys([p for p in pnames if not p.endswith("...")] + names))
            inner_funcs = dict(funcs)
            body = []
            for p in pnames:
                body.append(LOG("%s.%s" % (fname, p.rstrip(".")), V(p)))
            for _ in range(r.randint(1, 4)):
                body += self.scope_item(inner_names, inner_funcs, depth + 1)
            tail = r.random()
            if tail < 0.3:
                # return a closure over the frame
                cp = r.choice(["x", "y"])
                cbody = [LOG("%s.clo" % fname, ("bin", "+", V(cp), V(r.choice(inner_names))))]
                if r.random() < 0.5:
                    nm = r.choice(inner_names)
                    cbody.insert(0, ("opassign", nm, "+", I(1)))
                body.append(("fn", [(cp, None, False)], ("seq", cbody)))
                funcs[fname] = ("closure", params)
            else:
                body.append(self.small_expr(inner_names))
                funcs[fname] = ("value", params)
            out.append(("deffn", fname, params, ("seq", body)))
        elif k < 0.84:
            # an anonymous function created here, called from inside another function where the same names mean something else
            nm = r.choice(names)
            hof = self.fresh("hof")
            lam = ("fn", [("u", None, False)], ("list", [V("u"), V(nm)]))
            out.append(("deffn", hof, [("g", None, False)], ("seq", [("def", nm, I(7777)), ("def", "u", I(8888)), CALL("g", I(r.randint(1, 9)))])))
            out.append(LOG("hof.%d.%s" % (depth, nm), CALL(hof, lam)))
            if r.random() < 0.5:
                out.append(LOG("imm.%d.%s" % (depth, nm), ("call", lam, [("pos", I(r.randint(1, 9)))])))
        else:
            cands = list(funcs.items())
            if not cands:
                out.append(LOG("see.%d" % depth, self.small_expr(names)))
            else:
                fname, (kind, params) = r.choice(cands)
                args = self.call_args(params, names)
                form = r.random()
                if form < 0.2 and args and args[0][0] == "pos" and args[0][1][0] in ("lit", "var"):
                    call = ("pipe", args[0][1], V(fname), args[1:])
                else:
                    call = ("call", V(fname), args)
                if kind == "closure":
                    h = self.fresh("h")
                    out.append(("def", h, call))
                    out.append(LOG("ret." + h, ("call", V(h), [("pos", I(r.randint(1, 5)))])))
                    if r.random() < 0.5:
                        out.append(LOG("ret2." + h, ("call", V(h), [("pos", I(r.randint(1, 5)))])))
                else:
                    out.append(LOG("call." + fname, call))
        return out

    # ------------------------------------------------------------------
    # C04: control flow
    # ------------------------------------------------------------------
    def collection(self, kinds=("list", "set", "map", "str")):
        """(source expression, what or None, number of loop variables)"""
        r = self.r
        k = r.choice(kinds)
        n = r.randint(0, 4)
        if k == "list":
            return ("lit", ("list", tuple(("int", r.randint(0, 6)) for _ in range(n)))), None, 1
        if k == "set":
            if r.random() < 0.5:
                items = rv.dedupe([("int", r.randint(0, 9)) for _ in range(n)])
            else:
                items = rv.dedupe([("str", r.choice(["b", "a", "ab", "", "c", "B"])) for _ in range(n)])
            return ("lit", ("set", tuple(items))), None, 1
        if k == "map":
            keys = rv.dedupe([("int", r.randint(0, 9)) if r.random() < 0.6 else ("str", r.choice("abcd")) for _ in range(n)])
            if len({kk[0] for kk in keys}) > 1:
                keys = [kk for kk in keys if kk[0] == keys[0][0]]
            pairs = tuple((kk, ("int", r.randint(0, 9))) for kk in keys)
            what = r.choice(["keys", "values", "entries", None])
            return ("lit", ("map", pairs)), what, 1
        if k == "pairs":
            return ("lit", ("list", tuple(("list", (("int", i), ("str", r.choice("xyz")))) for i in range(n)))), None, 2
        # (a character is a code point: combining marks, astral characters and line breaks are elements like any other)
        alphabet = "abc" if r.random() < 0.7 else ["a", "e\u0301", "\u0301", "b", "\u05d1\u05b0", "\U0001f600", "o\u0308\u0304", "\n", "\u200d", "c"]
        return ("lit", ("str", "".join(r.choice(alphabet) for _ in range(n)))), None, 1

    def loop_body(self, depth, loopvars, in_fn, acc):
        """statements of a loop body; plants break/continue/return at random positions"""
        r = self.r
        out = []
        n = r.randint(1, 3)
        for i in range(n):
            k = r.random()
            lv = r.choice(loopvars) if loopvars else None
            if k < 0.3 and lv:
                out.append(LOG("v%d" % depth, V(lv)))
            elif k < 0.42 and lv:
                out.append(("call", V("append"), [("pos", V(acc)), ("pos", V(lv))]))
            elif k < 0.62:
                # guarded exit
                sig = r.choice([("break",), ("continue",)] + ([("return", ("bin", "+", I(100 * depth), I(r.randint(0, 9))))] if in_fn else []))
                cond = self.loop_cond(lv)
                if r.random() < 0.3:
                    # the exit passes through a finally part
                    fid = self.fresh("F")
                    out.append(("block", [("if", [(cond, sig)], None)], [], [LOG(fid, I(depth))]))
                else:
                    out.append(("if", [(cond, sig)], None))
            elif k < 0.8 and depth < 3:
                out.append(self.loop(depth + 1, in_fn, acc))
            elif k < 0.88:
                out.append(self.if_chain(lv, depth))
            elif k < 0.96:
                # the exit stands where a value is expected: right-hand side of a definition or an assignment
                sig = r.choice([("break",), ("continue",)] + ([("return", ("bin", "+", I(100 * depth), I(r.randint(0, 9))))] if in_fn else []))
                cond = self.loop_cond(lv)
                name = self.fresh("g")
                rhs = ("if", [(cond, sig)], I(10 + depth))
                if r.random() < 0.5:
                    out.append(("def", name, rhs))
                else:
                    out.append(("def", name, I(0)))
                    out.append(("assign", name, rhs))
                out.append(LOG("g%d" % depth, V(name)))
            elif k < 0.985:
                # the exit is written in the catch (or finally-guarded) part of a nested block and taken only when the
                # error is really raised
                sig = r.choice([("break",), ("continue",)] + ([("return", ("bin", "+", I(100 * depth), I(r.randint(0, 9))))] if in_fn else []))
                cond = self.loop_cond(lv)
                raiser = ("if", [(cond, r.choice([("error", S("x")), ("bin", "/", I(1), I(0)), V("undefined_name_xyz")]))], None)
                out.append(("block", [LOG("try%d" % depth, I(i)), raiser], [(None, ("seq", [LOG("caught%d" % depth, I(i)), sig]))], []))
                out.append(LOG("after-try%d" % depth, I(i)))
            else:
                out.append(LOG("t%d" % depth, I(i)))
        return out

    def loop_cond(self, lv):
        r = self.r
        if lv is None:
            return B(r.random() < 0.5)
        k = r.random()
        if k < 0.4:
            return ("chain", [V(lv), r.choice([I(r.randint(0, 6)), S(r.choice("abc"))])], ["=="])
        if k < 0.6:
            return ("in", V(lv), ("lit", ("list", (("int", r.randint(0, 6)), ("str", "a"), ("int", r.randint(0, 6))))))
        if k < 0.8:
            return ("chain", [CALL("length", V("acc0")), I(r.randint(1, 4))], [">="])
        return B(r.random() < 0.3)

    def if_chain(self, lv, depth):
        r = self.r
        n = r.randint(1, 3)
        clauses = []
        for i in range(n):
            cid = self.fresh("c")
            cond = LOG(cid, self.loop_cond(lv) if lv else B(r.random() < 0.4))
            clauses.append((cond, LOG("br." + cid, I(i))))
        els = LOG("else" + str(depth), I(-1)) if r.random() < 0.6 else None
        return ("if", clauses, els)

    def loop(self, depth, in_fn, acc):
        r = self.r
        k = r.random()
        if k < 0.75:
            src, what, nv = self.collection(("list", "set", "map", "str", "pairs", "list"))
            names = [self.fresh("i") for _ in range(nv)]
            if src[1][0] == "map" and what == "entries" and r.random() < 0.5:
                names = [self.fresh("i"), self.fresh("i")]
            body = self.loop_body(depth, names if len(names) == 1 or src[1][0] != "str" else names[:1], in_fn, acc)
            if r.random() < 0.2:
                # the loop variable has the name of a variable of the same scope: that one has its value again afterwards
                pre = [("def", n, I(700 + j)) for j, n in enumerate(names)]
                return ("seq", pre + [("for", names, what, src, ("seq", body)), LOG("after-loop." + names[0], ("list", [V(n) for n in names]))])
            return ("for", names, what, src, ("seq", body))
        # while with a logged condition and a counter
        cvar = self.fresh("w")
        limit = r.randint(0, 4)
        cid = self.fresh("wc")
        cond = LOG(cid, ("chain", [V(cvar), I(limit)], ["<"]))
        body = [("opassign", cvar, "+", I(1))] + self.loop_body(depth, [cvar], in_fn, acc)
        return ("seq", [("def", cvar, I(0)), ("while", cond, ("seq", body)), LOG("after." + cvar, V(cvar))])

    def control_program(self):
        r = self.r
        stmts = [("def", "acc0", ("list", []))]
        k = r.random()
        if k < 0.06:
            # a loop walks whatever its expression evaluates to - also when the expression calls a function the program
            # defined under the name of a built-in, or names a variable called like one
            a, b = r.randint(0, 5), r.randint(0, 5)
            which = r.randrange(3)
            if which == 0:
                stmts.append(("deffn", "range", [("p", None, False), ("q", I(1), False)], ("list", [V("q"), V("p"), ("bin", "+", V("p"), V("q"))])))
                it = CALL("range", I(a), I(b)) if r.random() < 0.6 else CALL("range", I(a))
            elif which == 1:
                stmts.append(("deffn", "keys_of", [("m", None, False)], ("list", [I(b), I(a)])))
                stmts.append(("deffn", "interval", [("p", None, False), ("q", None, False)], ("list", [V("q"), V("p")])))
                it = CALL("interval", I(a), I(b))
            else:
                stmts.append(("def", "range", ("list", [I(b), I(a), I(b)])))
                it = V("range")
            lv = self.fresh("i")
            stmts.append(("for", [lv], None, it, ("seq", [LOG("own." + lv, V(lv))])))
            stmts.append(LOG("own.list", it))
            stmts.append(LOG("own.comp", ("comp", "list", [("bin", "*", V(lv), I(2))], [(lv, None, it)], "single", None)))
            stmts.append(LOG("acc", V("acc0")))
            return ("seq", stmts)
        if k < 0.45:
            stmts.append(LOG("result", self.loop(1, False, "acc0")))
        elif k < 0.8:
            fname = self.fresh("fn")
            body = [self.loop(1, True, "acc0"), LOG("fell-through", I(1)), I(7)]
            stmts.append(("deffn", fname, [], ("seq", body)))
            stmts.append(LOG("returned", CALL(fname)))
            if r.random() < 0.3:
                stmts.append(LOG("returned2", CALL(fname)))
        else:
            stmts.append(self.if_chain(None, 0))
            stmts.append(LOG("result", self.loop(1, False, "acc0")))
        stmts.append(LOG("acc", V("acc0")))
        return ("seq", stmts)

    def comprehension_case(self):
        """(comprehension program, equivalent explicit-loop program, multiset_compare)"""
        r = self.r
        kind = r.choice(["list", "list", "set", "map"])
        mode = r.choice(["single", "single", "product", "parallel"])
        if kind == "map":
            mode = "single"
        clauses = []
        for i in range(1 if mode == "single" else 2):
            src, what, nv = self.collection(("list", "set", "map", "str"))
            if src[1][0] == "map" and what is None:
                what = r.choice(["keys", "values", "entries"])
            clauses.append(("x%d" % i, what, src))
        vars_ = [c[0] for c in clauses]
        # element expression must tolerate every element kind (ints, strings, [k, v] pairs, NULL padding)
        def elem(v):
            return r.choice([V(v), ("list", [V(v)]), ("list", [V(v), I(1)])])
        if kind == "map":
            exprs = [elem(vars_[0]), r.choice([I(1), V(vars_[0])])]
            if r.random() < 0.3:
                # several elements give the same key: the last one in walk order wins
                exprs = [CALL("type", V(vars_[0])), V(vars_[0])]
        elif len(vars_) == 2:
            exprs = [("list", [V(vars_[0]), V(vars_[1])])]
        else:
            exprs = [elem(vars_[0])]
        cond = None
        if r.random() < 0.6:
            v = r.choice(vars_)
            cond = r.choice([("chain", [V(v), I(r.randint(0, 5))], ["!="]), ("notin", V(v), ("lit", ("list", (("int", 1), ("str", "a"))))),
                             B(True), B(False), ("chain", [V(v), NULL], ["is not"])])
        prefix = []
        if r.random() < 0.25:
            # a filter with an effect: it is evaluated once per candidate (per pair in a product), in walk order
            prefix = [("def", "cnt", I(0)), ("deffn", "tick", [], ("seq", [("opassign", "cnt", "+", I(1)), V("cnt")]))]
            cond = ("chain", [("bin", "%", CALL("tick"), I(r.choice([2, 3]))), I(r.choice([0, 1]))], [r.choice(["==", "!="])])
        comp = ("comp", kind, exprs, clauses, mode, cond)
        # explicit loop expansion
        accname = "acc"
        init = {"list": ("list", []), "set": ("set", []), "map": ("map", [])}[kind]
        if kind == "map":
            add = ("call", V("put"), [("pos", V(accname)), ("pos", exprs[0]), ("pos", exprs[1])])
        else:
            add = ("call", V("append"), [("pos", V(accname)), ("pos", exprs[0])])
        inner = ("if", [(cond, add)], None) if cond is not None else add
        multiset = False

        def for_over(var, what, src, body):
            return ("for", [var], what, src, ("seq", [body]))
        if mode == "single":
            v, what, src = clauses[0]
            loop = for_over(v, what, src, inner)
            pass
        elif mode == "product":
            (v0, w0, s0), (v1, w1, s1) = clauses
            loop = for_over(v0, w0, s0, for_over(v1, w1, s1, inner))
            pass
        else:
            # parallel: walk both in step to the longer length, padding with NULL -- written with indices over
            # the materialised enumerations
            (v0, w0, s0), (v1, w1, s1) = clauses
            e0 = ("comp", "list", [V("q")], [("q", w0, s0)], "single", None)
            e1 = ("comp", "list", [V("q")], [("q", w1, s1)], "single", None)
            n0, n1 = CALL("length", V("l0")), CALL("length", V("l1"))
            get0 = ("if", [(("chain", [V("k"), n0], ["<"]), ("index", V("l0"), V("k")))], NULL)
            get1 = ("if", [(("chain", [V("k"), n1], ["<"]), ("index", V("l1"), V("k")))], NULL)
            body = ("seq", [("def", v0, get0), ("def", v1, get1), inner])
            maxn = ("if", [(("chain", [n0, n1], [">"]), n0)], n1)
            loop = ("seq", [("def", "l0", e0), ("def", "l1", e1),
                            ("for", ["k"], None, CALL("range", maxn), body)])
        explicit = ("seq", prefix + [("def", accname, init), loop, V(accname)])
        return ("seq", prefix + [comp]), explicit, multiset

    # ------------------------------------------------------------------
    # C05: errors, handlers, finally
    # ------------------------------------------------------------------
    ERR_VALUES = [("str", "E1"), ("str", "E2"), ("int", 1), ("dec", 1.0), ("int", 2), ("bool", True), rv.NULL,
                  ("list", (("int", 1),)), ("list", (("dec", 1.0),)), ("set", (("int", 1), ("int", 2))), ("map", ((("str", "k"), ("int", 1)),)),
                  ("str", "ERROR"), ("str", "")]

    def hostile_argument(self):
        """values whose text form cannot be produced (or is expensive / fails): an error that passes through a call
        holding one of them must stay the error that was raised"""
        r = self.r
        return r.choice([
            ("obj", [("_str_", ("fn", [("self", None, False)], S("custom"))), ("x", I(1))]),
            ("obj", [("_str_", ("fn", [("self", None, False)], I(5)))]),
            ("obj", [("_str_", ("fn", [("self", None, False)], ("error", S("from-_str_"))))]),
            ("obj", [("_str_", ("fn", [("self", None, False), ("more", None, False)], S("x")))]),
            ("obj", [("_str_", I(7))]),
            ("list", [("obj", [("_str_", ("fn", [("self", None, False)], ("error", S("nested-_str_"))))])]),
            ("map", [(S("k"), ("obj", [("_str_", ("fn", [("self", None, False)], NULL))]))]),
        ])

    def failing_statement(self):
        r = self.r
        k = r.random()
        if k < 0.12:
            return CALL("thrower", self.hostile_argument(), ("lit", r.choice(self.ERR_VALUES)))
        if k < 0.45:
            return ("error", ("lit", r.choice(self.ERR_VALUES)))
        if k < 0.55:
            return V("undefined_name_xyz")
        if k < 0.63:
            return r.choice([("bin", "/", I(1), I(0)), ("bin", "%", I(7), I(0)), ("bin", "%", ("lit", ("dec", 2.5)), I(0)), ("bin", "/", ("lit", ("dec", 1.5)), ("lit", ("dec", 0.0))),
                             ("bin", "-", S("a"), I(1)), ("bin", "*", ("lit", ("bool", True)), I(2)), ("neg", S("a")), ("chain", [I(1), S("a")], ["<"]) if False else ("bin", "+", I(1), ("lit", ("bool", True)))])
        if k < 0.7:
            return CALL("length", I(5))
        if k < 0.76:
            return ("call", I(3), [])
        # runtime errors that begin inside an indexing / slicing / iteration form itself (not inside a call)
        return r.choice([("index", ("lit", ("list", (("int", 1), ("int", 2)))), NULL),
                         ("index", S("abc"), S("x")),
                         ("index", ("lit", ("list", (("int", 1),))), I(7)),
                         ("idxassign", ("lit", ("list", (("int", 1),))), S("k"), I(0)),
                         ("index", ("lit", ("map", ((("str", "k"), ("int", 1)),))), S("missing")),
                         ("for", [self.fresh("z")], None, I(5), ("seq", [I(1)])),
                         ("assign", "never_defined_variable", I(1)),
                         ("not", I(1)), ("if", [(I(1), I(2))], None)])

    def err_block(self, depth, in_fn, in_loop):
        r = self.r
        bid = self.fresh("B")
        stmts = [LOG(bid, S("enter"))]
        n = r.randint(1, 4)
        for i in range(n):
            k = r.random()
            if k < 0.28:
                stmts.append(self.failing_statement())
            elif k < 0.5 and depth < 4:
                stmts.append(self.err_block(depth + 1, in_fn, in_loop))
            elif k < 0.6 and in_fn:
                stmts.append(("return", LOG(bid + ".ret", I(i))))
            elif k < 0.68 and in_loop:
                stmts.append(r.choice([("break",), ("continue",)]))
            elif k < 0.76 and depth < 3:
                lv = self.fresh("j")
                stmts.append(("for", [lv], None, ("lit", ("list", (("int", 1), ("int", 2)))),
                              ("seq", [LOG(bid + ".it", V(lv)), self.err_block(depth + 1, in_fn, True)])))
            elif k < 0.84 and depth < 3:
                fname = self.fresh("g")
                stmts.append(("deffn", fname, [], ("seq", [self.err_block(depth + 1, True, False), LOG(fname + ".end", I(0))])))
                stmts.append(LOG(bid + ".call", CALL(fname)))
            else:
                stmts.append(LOG(bid + ".s", I(i)))
        catches = []
        for _ in range(r.choice([0, 1, 1, 2, 3])):
            k = r.random()
            if k < 0.3:
                errx = None
            elif k < 0.85:
                errx = ("lit", r.choice(self.ERR_VALUES))
            elif k < 0.93:
                errx = V("undefined_catch_expr")      # the catch expression itself raises
            else:
                errx = LOG(bid + ".cx", ("lit", r.choice(self.ERR_VALUES)))
            hk = r.random()
            hid = self.fresh("H")
            if hk < 0.6:
                handler = LOG(hid, S("handled"))
            elif hk < 0.75:
                handler = ("seq", [LOG(hid, S("rethrow")), ("error", ("lit", r.choice(self.ERR_VALUES)))])
            elif hk < 0.85 and in_fn:
                handler = ("seq", [("return", LOG(hid, S("return-from-handler")))])
            elif hk < 0.9 and in_loop:
                handler = ("seq", [LOG(hid, S("break-from-handler")), ("break",)])
            else:
                handler = I(r.randint(0, 9))
            catches.append((errx, handler))
        fin = []
        if r.random() < 0.7:
            fin.append(LOG("F" + bid, S("finally")))
            fk = r.random()
            if fk < 0.12:
                fin.append(("error", ("lit", ("str", "from-finally"))))
            elif fk < 0.2 and in_fn:
                fin.append(("return", I(555)))      # a control statement directly in finally is discarded
        if not catches and not fin:
            fin.append(LOG("F" + bid, S("finally")))
        if r.random() < 0.08 and fin:
            # a block whose body is empty (`do finally ... end`, `do catch all ... finally ... end`): nothing can fail in
            # it, its value is TRUE, and its finally part still runs once - and what that part raises still goes outward
            stmts = []
            # (another tag than F<bid>: the exactly-once checker pairs those with the block's 'enter' event, which an
            # empty body does not log; the log comparison with the reference run decides here)
            fin = [LOG("E" + bid, S("finally"))] + [f for f in fin if f[0] != "call"]
            if r.random() < 0.5 and not any(f[0] == "error" for f in fin):
                fin.append(("error", ("lit", r.choice(self.ERR_VALUES))))
        return ("block", stmts, catches, fin)

    def error_program(self):
        r = self.r
        k = r.random()
        stmts = [("deffn", "thrower", [("carried", None, False), ("v", None, False)], ("seq", [LOG("thrower", V("v")), ("error", V("v"))]))]
        if k < 0.15:
            # the value a catch clause compares with is an expression like any other: a parameter or a loop variable
            # has another value at every evaluation of the same block
            vals = [("lit", v) for v in r.sample(self.ERR_VALUES, min(3, len(self.ERR_VALUES)))]
            stmts.append(("deffn", "guard", [("code", None, False), ("what", None, False)],
                          ("block", [LOG("g.enter", V("code")), ("error", V("what")), LOG("g.unreached", I(0))],
                           [(V("code"), LOG("g.handled", V("code")))], [LOG("g.finally", V("what"))])))
            for _ in range(r.randint(3, 6)):
                c, w = r.choice(vals), r.choice(vals)
                stmts.append(("block", [LOG("g.result", CALL("guard", c, w))], [(None, LOG("g.escaped", w))], []))
            lv = self.fresh("k")
            stmts.append(("for", [lv], None, ("list", list(vals)),
                          ("seq", [("block", [("block", [("error", vals[1])], [(V(lv), LOG("l.handled", V(lv)))], [])],
                                    [(None, LOG("l.escaped", V(lv)))], [])])))
        elif k < 0.45:
            stmts.append(LOG("result", self.err_block(1, False, False)))
        elif k < 0.75:
            fname = self.fresh("fn")
            stmts.append(("deffn", fname, [], ("seq", [self.err_block(1, True, False), LOG(fname + ".after", I(1)), I(42)])))
            stmts.append(LOG("returned", CALL(fname)))
        else:
            lv = self.fresh("k")
            stmts.append(("for", [lv], None, ("lit", ("list", (("int", 1), ("int", 2), ("int", 3)))),
                          ("seq", [LOG("iter", V(lv)), self.err_block(1, False, True), LOG("iter-end", V(lv))])))
        stmts.append(LOG("done", I(1)))
        return ("seq", stmts)


# ----------------------------------------------------------------------
# fixed scoping templates (each discriminates specific wrong-semantics modes)
# ----------------------------------------------------------------------

def t_counter(g):
    return [("deffn", "make_counter", [("start", None, False)],
             ("seq", [("def", "n", V("start")), ("fn", [], ("seq", [("opassign", "n", "+", I(1)), V("n")]))])),
            ("def", "c1", CALL("make_counter", I(10))), ("def", "c2", CALL("make_counter", I(100))),
            LOG("c1", CALL("c1")), LOG("c1", CALL("c1")), LOG("c2", CALL("c2")), LOG("c1", CALL("c1"))]


def t_lexical_vs_dynamic(g):
    return [("def", "x", I(1)), ("deffn", "show", [], LOG("show.x", V("x"))),
            ("deffn", "caller", [], ("seq", [("def", "x", I(2)), CALL("show")])),
            LOG("r", CALL("caller")), ("deffn", "caller2", [("x", None, False)], CALL("show")), LOG("r2", CALL("caller2", I(3)))]


def t_assign_nearest(g):
    return [("def", "x", I(1)),
            ("deffn", "outer", [], ("seq", [("def", "x", I(10)),
                                           ("deffn", "inner", [], ("seq", [("assign", "x", ("bin", "+", V("x"), I(1))), V("x")])),
                                           LOG("inner", CALL("inner")), LOG("outer.x", V("x"))])),
            CALL("outer"), LOG("top.x", V("x")),
            ("block", [("assign", "never_defined", I(1))], [(None, LOG("assign-undefined", S("error")))], []),
            ("block", [LOG("leak", V("never_defined"))], [(None, LOG("no-leak", S("ok")))], [])]


def t_defaults(g):
    return [("def", "k", I(5)),
            ("deffn", "f", [("p", None, False), ("q", ("bin", "*", V("p"), I(2)), False), ("r", ("bin", "+", V("q"), V("k")), False)],
             ("list", [V("p"), V("q"), V("r")])),
            LOG("d1", CALL("f", I(1))), ("assign", "k", I(7)), LOG("d2", CALL("f", I(1))), LOG("d3", CALL("f", I(1), I(10))),
            LOG("d4", CALL("f", I(1), ("named", "r", I(0)))),
            ("deffn", "caller", [], ("seq", [("def", "k", I(1000)), ("def", "p", I(77)), CALL("f", I(2))])), LOG("d5", CALL("caller"))]


def t_default_effects(g):
    """a default is evaluated only for a parameter no argument was bound to - its effects do not happen, and it cannot
    fail, when the argument was passed (positionally, by name, through a list or a map spread)"""
    f = ("deffn", "f", [("a", None, False), ("b", LOG("default-b", I(7)), False), ("c", ("index", ("lit", ("list", ())), I(3)), False)],
         ("list", [V("a"), V("b"), V("c")]))
    h = ("deffn", "h", [("p", LOG("default-p", I(1)), False), ("q", LOG("default-q", ("bin", "+", V("p"), I(1))), False)], ("list", [V("p"), V("q")]))
    return [f, h,
            LOG("de1", CALL("f", I(1), I(2), I(3))),
            ("block", [LOG("de2", CALL("f", I(1), I(2)))], [(None, LOG("de2.err", S("default of c failed")))], []),
            LOG("de3", CALL("f", I(1), ("named", "c", I(9)))),
            LOG("de4", CALL("f", I(1), ("spread", ("list", [I(5), I(6)])))),
            LOG("de5", CALL("f", ("spread", ("map", [(S("a"), I(1)), (S("b"), I(2)), (S("c"), I(3))])))),
            LOG("de6", CALL("f", ("named", "c", I(0)), ("named", "b", NULL), ("named", "a", I(4)))),
            LOG("de7", CALL("h")), LOG("de8", CALL("h", I(5))), LOG("de9", CALL("h", I(5), I(6))), LOG("de10", CALL("h", ("named", "q", I(0)))),
            LOG("de11", ("pipe", I(8), V("h"), [("pos", I(9))]))]


def t_binding(g):
    f = ("deffn", "f", [("a", None, False), ("b", I(20), False), ("c", I(30), False), ("rest...", None, True)],
         ("list", [V("a"), V("b"), V("c"), V("rest...")]))
    calls = [CALL("f", I(1)), CALL("f", I(1), I(2), I(3), I(4), I(5)), CALL("f", I(1), I(2), I(3), I(4), I(5), I(6), I(7), I(8)),
             CALL("f", I(1), ("named", "c", I(3))),
             CALL("f", ("named", "b", I(2)), ("named", "a", I(1))), CALL("f", I(9), ("named", "a", I(1))),
             CALL("f", ("spread", ("list", [I(1), I(2)]))), CALL("f", I(1), ("spread", ("list", [I(2), I(3), I(4)])), I(5)),
             CALL("f", ("spread", ("map", [(S("a"), I(1)), (S("c"), I(3))]))), CALL("f", I(0), ("spread", ("map", [(S("b"), I(2))]))),
             ("pipe", I(1), V("f"), [("pos", I(2))]), ("pipe", I(1), V("f"), [("named", "c", I(3))])]
    bad = [CALL("f"), CALL("f", ("named", "zz", I(1))), CALL("f", ("named", "a", I(1)), I(2))]
    out = [f]
    for i, c in enumerate(calls):
        out.append(LOG("bind%d" % i, c))
    for i, c in enumerate(bad):
        out.append(("block", [LOG("bad%d" % i, c)], [(None, LOG("bad%d.err" % i, S("error")))], []))
    g2 = ("deffn", "g", [("a", None, False)], V("a"))
    out += [g2, ("block", [LOG("surplus", CALL("g", I(1), I(2)))], [(None, LOG("surplus.err", S("error")))], [])]
    return out


def t_methods(g):
    base = ("obj", [("name", S("base")), ("hello", ("fn", [("self", None, False), ("x", None, False)], ("list", [("member", V("self"), "name"), V("x")]))),
                    ("only_base", ("fn", [("self", None, False)], S("from-base")))])
    return [("def", "base", base),
            ("def", "mid", ("obj", [("_proto_", V("base")), ("name", S("mid"))])),
            ("def", "leaf", ("obj", [("_proto_", V("mid")), ("hello2", ("fn", [("self", None, False)], ("mcall", V("self"), "hello", [("pos", I(2))])))])),
            LOG("m1", ("mcall", V("base"), "hello", [("pos", I(1))])), LOG("m2", ("mcall", V("leaf"), "hello", [("pos", I(1))])),
            LOG("m3", ("mcall", V("leaf"), "hello2", [])), LOG("m4", ("mcall", V("leaf"), "only_base", [])),
            LOG("m5", ("member", V("leaf"), "name")), LOG("m6", ("member", V("leaf"), "missing")),
            ("block", [LOG("m7", ("mcall", V("leaf"), "nomethod", []))], [(None, LOG("m7.err", S("error")))], []),
            ("block", [LOG("m8", ("mcall", V("leaf"), "name", []))], [(None, LOG("m8.err", S("error")))], []),
            # the chain is consulted on every call: replace a method on the class, shadow it in between, re-point _proto_
            ("memassign", V("base"), "hello", ("fn", [("self", None, False), ("x", None, False)], ("list", [S("replaced"), V("x")]))),
            LOG("m9", ("mcall", V("leaf"), "hello", [("pos", I(3))])), LOG("m10", ("mcall", V("leaf"), "hello2", [])),
            ("memassign", V("mid"), "hello", ("fn", [("self", None, False), ("x", None, False)], ("list", [S("mid-override"), V("x")]))),
            LOG("m11", ("mcall", V("leaf"), "hello", [("pos", I(4))])), LOG("m12", ("mcall", V("base"), "hello", [("pos", I(5))])),
            ("def", "other", ("obj", [("hello", ("fn", [("self", None, False), ("x", None, False)], S("other"))), ("name", S("other-name"))])),
            ("memassign", V("leaf"), "_proto_", V("other")),
            LOG("m13", ("mcall", V("leaf"), "hello", [("pos", I(6))])), LOG("m14", ("member", V("leaf"), "name")),
            ("block", [LOG("m15", ("mcall", V("leaf"), "only_base", []))], [(None, LOG("m15.err", S("error")))], []),
            ("memassign", V("leaf"), "hello", ("fn", [("self", None, False), ("x", None, False)], S("own"))),
            LOG("m16", ("mcall", V("leaf"), "hello", [("pos", I(7))]))]


def t_fresh_frames(g):
    return [("deffn", "mk", [("v", None, False)], ("fn", [], V("v"))),
            ("def", "g1", CALL("mk", I(1))), ("def", "g2", CALL("mk", I(2))),
            LOG("g1", CALL("g1")), LOG("g2", CALL("g2")), LOG("g1b", CALL("g1")),
            ("deffn", "rec", [("n", None, False)], ("if", [(("chain", [V("n"), I(0)], ["<="]), ("list", []))],
                                                    ("bin", "+", ("list", [V("n")]), CALL("rec", ("bin", "-", V("n"), I(1)))))),
            LOG("rec", CALL("rec", I(4))),
            ("deffn", "fwd", [], CALL("later", I(3))), ("deffn", "later", [("z", None, False)], ("bin", "*", V("z"), I(2))), LOG("fwd", CALL("fwd"))]


def t_mutable_defaults(g):
    """defaults are evaluated at every call that omits the argument: a default collection changed in place by one
    call is new again in the next, for every closure made from the same definition"""
    r = g.r
    a, b, c = r.sample(range(1, 9), 3)
    out = [("deffn", "collect", [("x", None, False), ("acc", ("list", [] if r.random() < 0.6 else [I(a)]), False)],
            ("seq", [CALL("append", V("acc"), V("x")), V("acc")])),
           LOG("md1", CALL("collect", I(a))), LOG("md2", CALL("collect", I(b))),
           LOG("md3", CALL("collect", I(c), ("list", [I(9)]))), LOG("md4", CALL("collect", I(c))),
           ("deffn", "tally", [("k", None, False), ("m", ("map", [(S("a"), I(0)), (S("b"), I(0))]), False)],
            ("seq", [("idxassign", V("m"), V("k"), I(a)), V("m")])),
           LOG("mt1", CALL("tally", S("a"))), LOG("mt2", CALL("tally", S(r.choice(["b", "c"])))), LOG("mt3", CALL("tally", S("a"))),
           ("deffn", "grow", [("s", ("set", [I(1)]), False), ("e", I(2), False)], ("seq", [CALL("append", V("s"), V("e")), V("s")])),
           LOG("ms1", CALL("grow")), LOG("ms2", CALL("grow", ("named", "e", I(b + 10)))), LOG("ms3", CALL("grow")),
           ("deffn", "maker", [], ("fn", [("x", None, False), ("acc", ("list", [I(0)]), False)], ("seq", [CALL("append", V("acc"), V("x")), V("acc")]))),
           ("def", "f1", CALL("maker")), ("def", "f2", CALL("maker")),
           LOG("mc1", CALL("f1", I(a))), LOG("mc2", CALL("f2", I(b))), LOG("mc3", CALL("f1", I(c))),
           # a literal inside the body is a new value at every evaluation as well
           ("deffn", "fresh", [], ("map", [(S("n"), I(0))])),
           ("def", "r1", CALL("fresh")), ("idxassign", V("r1"), S("n"), I(a)), LOG("mf1", CALL("fresh")), LOG("mf2", V("r1")),
           ("deffn", "freshl", [], ("list", [I(1), I(2)])),
           ("def", "l1", CALL("freshl")), CALL("append", V("l1"), I(b)), LOG("mf3", CALL("freshl")), LOG("mf4", V("l1"))]
    return out


def t_receiver_once(g):
    """`e->m(args)` evaluates e once: the member is looked up on, and self is, that one value"""
    mk = ("deffn", "mkobj", [("tag", None, False)],
          ("seq", [LOG("mk", V("tag")),
                   ("obj", [("tag", V("tag")), ("who", ("fn", [("self", None, False)], ("member", V("self"), "tag"))),
                            ("plus", ("fn", [("self", None, False), ("a", None, False), ("b", I(5), False)], ("list", [("member", V("self"), "tag"), V("a"), V("b")])))])]))
    builder = ("def", "bld", ("obj", [("items", ("list", [])),
                                      ("add", ("fn", [("self", None, False), ("x", None, False)],
                                               ("seq", [CALL("append", ("member", V("self"), "items"), V("x")), V("self")]))),
                                      ("build", ("fn", [("self", None, False)], ("member", V("self"), "items")))]))
    nxt = [("def", "turn", I(0)),
           ("deffn", "nextobj", [], ("seq", [("opassign", "turn", "+", I(1)), CALL("mkobj", V("turn"))]))]
    return [mk, builder] + nxt + [
        LOG("ro1", ("mcall", CALL("mkobj", S("A")), "who", [])),
        LOG("ro2", ("mcall", CALL("nextobj"), "who", [])), LOG("ro3", ("mcall", CALL("nextobj"), "who", [])),
        LOG("ro4", ("mcall", CALL("nextobj"), "plus", [("named", "b", I(1)), ("named", "a", I(2))])),
        LOG("ro5", ("mcall", ("mcall", ("mcall", V("bld"), "add", [("pos", I(1))]), "add", [("pos", I(2))]), "build", [])),
        LOG("ro6", V("turn"))]


def t_pipe_into_member(g):
    """`x !> obj->f(a)` calls the member with x as first argument - the object itself is not passed"""
    r = g.r
    a, b = r.randint(1, 9), r.randint(1, 9)
    return [("def", "ops", ("obj", [("pair", ("fn", [("p", None, False), ("q", I(0), False), ("rest...", None, True)], ("list", [V("p"), V("q"), V("rest...")]))),
                                     ("one", ("fn", [("p", None, False)], ("list", [V("p")])))])),
            ("def", "outer", ("obj", [("inner", V("ops"))])),
            LOG("pm1", ("pipe", I(a), ("member", V("ops"), "pair"), [("pos", I(b))])),
            LOG("pm2", ("pipe", I(a), ("member", V("ops"), "one"), [])),
            LOG("pm3", ("pipe", I(a), ("member", ("member", V("outer"), "inner"), "pair"), [("named", "q", I(b))])),
            LOG("pm4", ("pipe", ("list", [I(a), I(b)]), ("member", V("ops"), "pair"), [("pos", I(1)), ("pos", I(2)), ("pos", I(3))])),
            ("block", [LOG("pm5", ("pipe", I(a), ("member", V("ops"), "one"), [("pos", I(b))]))], [(None, LOG("pm5.err", S("too many")))], [])]


def t_def_in_loop(g):
    """a def in a loop body binds in the function / top-level scope the loop stands in: visible in later iterations and
    after the loop"""
    return [("for", ["i"], None, ("lit", ("list", (("int", 1), ("int", 2), ("int", 3)))), ("seq", [("def", "lastseen", ("bin", "*", V("i"), I(10)))])),
            LOG("dl1", V("lastseen")),
            ("for", ["j"], None, ("lit", ("list", (("int", 1), ("int", 2), ("int", 3)))),
             ("seq", [("if", [(("chain", [V("j"), I(1)], ["=="]), ("def", "accum", I(100)))], ("assign", "accum", ("bin", "+", V("accum"), V("j")))), LOG("dl2", V("accum"))])),
            LOG("dl3", V("accum")),
            ("deffn", "inner_loop", [], ("seq", [("for", ["k"], None, ("lit", ("list", (("int", 4), ("int", 5)))), ("seq", [("def", "local_k", V("k"))])), V("local_k")])),
            LOG("dl4", CALL("inner_loop")),
            ("block", [LOG("dl5", V("local_k"))], [(None, LOG("dl5.err", S("not visible outside the function")))], []),
            ("def", "w", I(0)), ("while", ("chain", [V("w"), I(2)], ["<"]), ("seq", [("opassign", "w", "+", I(1)), ("def", "in_while", V("w"))])), LOG("dl6", V("in_while"))]


def t_def_in_block(g):
    return [("deffn", "f", [], ("seq", [("block", [("def", "inblock", I(5))], [], [LOG("fin", I(0))]),
                                        ("if", [(B(True), ("seq", [("def", "inbranch", I(6))]))], None),
                                        ("list", [V("inblock"), V("inbranch")])])),
            LOG("f", CALL("f")),
            ("block", [LOG("leak1", V("inblock"))], [(None, LOG("noleak1", S("ok")))], []),
            ("block", [("def", "topblock", I(9))], [], [LOG("fin2", I(0))]), LOG("topblock", V("topblock"))]


def t_destructuring(g):
    return [("def", "p", I(1)), ("def", "q", I(2)),
            ("deffn", "swap", [], ("seq", [("assigndestr", ["p", "q"], ("list", [V("q"), V("p")])), ("list", [V("p"), V("q")])])),
            LOG("swap", CALL("swap")), LOG("top.pq", ("list", [V("p"), V("q")])),
            ("deffn", "mk", [], ("seq", [("def", "n", I(0)), ("def", "m", I(10)),
                                         ("fn", [], ("seq", [("assigndestr", ["n", "m"], ("list", [("bin", "+", V("n"), I(1)), ("bin", "-", V("m"), I(1))])),
                                                             ("list", [V("n"), V("m")])]))])),
            ("def", "step", CALL("mk")), LOG("s1", CALL("step")), LOG("s2", CALL("step")), LOG("s3", CALL("step")),
            ("deffn", "local", [], ("seq", [("defdestr", ["p", "q"], ("list", [I(100), I(200)])), ("list", [V("p"), V("q")])])),
            LOG("local", CALL("local")), LOG("top.pq2", ("list", [V("p"), V("q")])),
            ("block", [("assigndestr", ["p", "undefined_target"], ("list", [I(5), I(6)]))], [(None, LOG("destr.err", S("error")))], []),
            LOG("top.p3", V("p")),
            ("block", [LOG("leak", V("undefined_target"))], [(None, LOG("no-leak", S("ok")))], [])]


def t_higher_order(g):
    """anonymous functions passed around and called where other bindings of the same names are live"""
    return [("def", "k", I(1)),
            ("deffn", "apply1", [("g", None, False), ("v", None, False)], ("seq", [("def", "k", I(1000)), ("def", "x", I(5000)), CALL("g", V("v"))])),
            LOG("h1", CALL("apply1", ("fn", [("x", None, False)], ("bin", "+", V("x"), V("k"))), I(3))),
            LOG("h2", ("call", ("fn", [("x", None, False)], ("bin", "+", V("x"), V("k"))), [("pos", I(4))])),
            ("deffn", "outer", [("k", None, False)], ("seq", [CALL("apply1", ("fn", [("y", None, False)], ("list", [V("y"), V("k")])), I(7))])),
            LOG("h3", CALL("outer", I(50))),
            ("deffn", "twice", [("f", None, False)], ("fn", [("z", None, False)], CALL("f", CALL("f", V("z"))))),
            LOG("h4", ("call", CALL("twice", ("fn", [("n", None, False)], ("bin", "*", V("n"), V("k")))), [("pos", I(3))])),
            ("assign", "k", I(2)),
            LOG("h5", ("call", CALL("twice", ("fn", [("n", None, False)], ("bin", "*", V("n"), V("k")))), [("pos", I(3))])),
            LOG("h6", ("pipe", I(9), V("apply1"), [("pos", I(1))]) if False else CALL("apply1", ("fn", [("q", None, False), ("r", I(0), False)], ("list", [V("q"), V("r"), V("k")])), I(8))),
            LOG("h7", ("comp", "list", [CALL("apply1", ("fn", [("e", None, False)], ("bin", "+", V("e"), V("k"))), V("i"))], [("i", None, ("lit", ("list", (("int", 1), ("int", 2)))))], "single", None))]


SCOPE_TEMPLATES = [t_default_effects, t_destructuring, t_higher_order, t_counter, t_lexical_vs_dynamic, t_assign_nearest, t_defaults, t_binding, t_methods, t_fresh_frames, t_def_in_block, t_mutable_defaults, t_receiver_once, t_pipe_into_member, t_def_in_loop]
