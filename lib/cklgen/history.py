"""Values reached by a history of in-place edits.

`build(r, av, var)` returns Checkerlang statements after which `var` holds a value
equal to the abstract value `av` — but reached the long way round: the variable
starts as a *different* value of the same kind, is read in several ways
("primers": rendered, iterated, hashed, compared, measured), and is then edited
in place — element assignment `v[i] = e` / `m[k] = e` / `s[i] = 'xy'`, append,
insert_at, delete_at, remove, put, and edits of a nested list through an alias —
with no read between the edits, some of them leaving the size unchanged.

Anything the interpreter remembers about a value from the time before the edits
(sorted views, hashes, compiled patterns, indexes) is stale by the time the
caller's expression runs; the caller's reference model is computed from `av`
alone, so any dependence on the history shows as a disagreement."""
from cklgen import values as gv
from cklref import refvalue as rv

FRESH_INTS = [987001, 987002, 987003, 987004]
FRESH_STRS = ["zq1", "zq2", "Zq3"]

PRIMERS = [
    "string({v})", "length({v})", "{v} == {v}", "<< {v} >>", "<<< {v} => 1 >>>", "for hx_ in {v} do hx_ end",
    "[hx_ for hx_ in {v}]", "NULL in {v}", "list({v})", "set({v})", "sorted({v})", "{v} < {v}", "0 in {v}",
    "'zq1' in {v}", "[...{v}]", "split('a,b', {v})", "matches('ab', {v})", "find('abc', {v})", "{v}[0]",
    "{v}[0 to 1]", "format_date({v})", "sum({v})", "max({v})", "<< hx_ for hx_ in {v} >>", "<<< hx_ => 1 for hx_ in {v} >>>",
    "[hx_ for hx_ in keys {v}]", "[hx_ for hx_ in values {v}]", "[hx_ for hx_ in entries {v}]", "object({v})", "map({v})",
]


def _fresh(r, avoid, kind_hint=None):
    pool = [("int", n) for n in FRESH_INTS] + [("str", s) for s in FRESH_STRS]
    r.shuffle(pool)
    for c in pool:
        if kind_hint and c[0] != kind_hint:
            continue
        if not any(rv.ref_eq(c, a) for a in avoid):
            return c
    for c in pool:
        if not any(rv.ref_eq(c, a) for a in avoid):
            return c
    return ("int", 987099)


def _primers(r, var, n, extra=()):
    out = []
    cands = list(PRIMERS)
    for _ in range(n):
        p = r.choice(cands).replace("{v}", var)
        out.append("do %s catch all NULL end" % p)
    for e in extra:
        out.append("do %s catch all NULL end" % e)
    return out


def _lit(r, av):
    return gv.to_source(av, r, r)


TOUCHED = []     # values added or removed by the edits of the last build() (elements / keys), for callers that want
                 # to ask about exactly those


def build(r, av, var, extra_primers=(), allow_alias=True):
    """-> (statements, tags); tags name the edit paths used (for coverage counters)"""
    k = av[0]
    tags = []
    stmts = []
    del TOUCHED[:]
    if k == "str":
        s = av[1]
        mode = r.choice(["shrink", "replace", "widen", "two"]) if s else "shrink"
        if mode == "shrink" or not s:
            pos = r.randrange(len(s) + 1)
            init = s[:pos] + r.choice("Z;,.a") + s[pos:]
            edits = ["%s[%d] = ''" % (var, pos)]
            tags.append("str-shrink")
        elif mode == "replace":
            pos = r.randrange(len(s))
            other = r.choice([c for c in "Z;,.ab|" if c != s[pos]])
            init = s[:pos] + other + s[pos + 1:]
            edits = ["%s[%d] = %s" % (var, r.choice([pos, pos - len(s)]), gv.str_literal(s[pos], r))]
            tags.append("str-replace")
        elif mode == "widen":
            pos = r.randrange(len(s))
            w = r.randint(1, min(3, len(s) - pos))
            init = s[:pos] + r.choice("Z;,.") + s[pos + w:]
            edits = ["%s[%d] = %s" % (var, pos, gv.str_literal(s[pos:pos + w], r))]
            tags.append("str-widen")
        else:
            pos = r.randrange(len(s))
            init = s[:pos] + "Q" + s[pos + 1:] + "W"
            edits = ["%s[%d] = ''" % (var, len(s)), "%s[%d] = %s" % (var, pos, gv.str_literal(s[pos], r))]
            tags.append("str-two-edits")
        stmts.append("def %s = %s" % (var, gv.str_literal(init, r)))
        stmts += _primers(r, var, r.randint(1, 3), extra_primers)
        stmts += edits
        return stmts, tags
    if k == "list":
        cells = [[x, None] for x in av[1]]      # [abstract value, source override]
        edits_after = []
        pre = []
        nested = [c for c in cells if c[0][0] == "list"]
        if allow_alias and nested and r.random() < 0.5:
            cell = r.choice(nested)
            inner = list(cell[0][1])
            alias = var + "_in"
            if inner and r.random() < 0.5:
                j = r.randrange(len(inner))
                old_inner = list(inner)
                old_inner[j] = _fresh(r, inner)
                edits_after.append("%s[%d] = %s" % (alias, j, _lit(r, inner[j])))
                tags.append("alias-element-assign")
            elif inner:
                old_inner = inner[:-1]
                edits_after.append("append(%s, %s)" % (alias, _lit(r, inner[-1])))
                tags.append("alias-append")
            else:
                old_inner = [_fresh(r, [])]
                edits_after.append("delete_at(%s, 0)" % alias)
                tags.append("alias-delete")
            pre.append("def %s = %s" % (alias, _lit(r, ("list", tuple(old_inner)))))
            cell[1] = alias
        back = []
        for _ in range(r.choice([1, 1, 2, 3])):
            op = r.choice(["assign", "assign", "append", "insert", "delete", "remove"])
            plain = [c[0] for c in cells]
            if op == "assign" and cells:
                i = r.randrange(len(cells))
                if cells[i][1]:
                    continue
                back.append("%s[%d] = %s" % (var, r.choice([i, i - len(cells)]), _lit(r, cells[i][0])))
                TOUCHED.append(cells[i][0])
                cells[i] = [_fresh(r, plain), None]
                TOUCHED.append(cells[i][0])
                tags.append("list-element-assign")
            elif op == "append" and cells and not cells[-1][1]:
                back.append("append(%s, %s)" % (var, _lit(r, cells[-1][0])))
                TOUCHED.append(cells[-1][0])
                cells.pop()
                tags.append("list-append")
            elif op == "insert" and cells:
                i = r.randrange(len(cells))
                if cells[i][1]:
                    continue
                back.append("insert_at(%s, %d, %s)" % (var, i, _lit(r, cells[i][0])))
                TOUCHED.append(cells[i][0])
                del cells[i]
                tags.append("list-insert")
            elif op == "delete":
                i = r.randrange(len(cells) + 1)
                cells.insert(i, [_fresh(r, plain), None])
                TOUCHED.append(cells[i][0])
                back.append("delete_at(%s, %d)" % (var, i))
                tags.append("list-delete")
            elif op == "remove":
                f = _fresh(r, plain)
                # remove() deletes the first equal element: put the stranger anywhere
                i = r.randrange(len(cells) + 1)
                cells.insert(i, [f, None])
                TOUCHED.append(f)
                back.append("remove(%s, %s)" % (var, _lit(r, f)))
                tags.append("list-remove")
        if not back and not edits_after:
            cells.append([_fresh(r, [c[0] for c in cells]), None])
            back.append("delete_at(%s, %d)" % (var, len(cells) - 1))
            tags.append("list-delete")
        init_src = "[" + ", ".join(c[1] if c[1] else _lit(r, c[0]) for c in cells) + "]"
        stmts = pre + ["def %s = %s" % (var, init_src)]
        stmts += _primers(r, var, r.randint(1, 3), extra_primers)
        stmts += list(reversed(back)) + edits_after
        return stmts, tags
    if k == "set":
        items = list(av[1])
        missing = []
        extras = []
        pool = list(items)
        r.shuffle(pool)
        nm = r.randint(0, min(2, len(pool)))
        missing = pool[:nm]
        same_size = r.random() < 0.6
        nx = nm if same_size else r.randint(0, 2)
        avoid = list(items)
        for _ in range(nx):
            f = _fresh(r, avoid)
            extras.append(f)
            avoid.append(f)
        if not missing and not extras:
            f = _fresh(r, avoid)
            extras.append(f)
        init = [x for x in items if not any(x is m for m in missing)] + extras
        r.shuffle(init)
        edits = ["remove(%s, %s)" % (var, _lit(r, x)) for x in extras] + ["append(%s, %s)" % (var, _lit(r, x)) for x in missing]
        r.shuffle(edits)
        TOUCHED.extend(extras + missing)
        tags.append("set-same-size" if len(missing) == len(extras) else "set-resize")
        stmts.append("def %s = << %s >>" % (var, ", ".join(_lit(r, x) for x in init)))
        stmts += _primers(r, var, r.randint(1, 3), extra_primers)
        stmts += edits
        return stmts, tags
    if k == "map":
        items = list(av[1])
        pool = list(items)
        r.shuffle(pool)
        nm = r.randint(0, min(2, len(pool)))
        missing = pool[:nm]
        rest = pool[nm:]
        changed = rest[:1] if (rest and r.random() < 0.4) else []
        same_size = r.random() < 0.6
        nx = nm if same_size else r.randint(0, 2)
        avoid = [kk for kk, vv in items]
        extras = []
        for _ in range(nx):
            f = _fresh(r, avoid)
            extras.append((f, ("int", 1)))
            avoid.append(f)
        if not missing and not extras and not changed:
            f = _fresh(r, avoid)
            extras.append((f, ("int", 1)))
        init = []
        for kk, vv in items:
            if any(kk is m[0] for m in missing):
                continue
            if any(kk is c[0] for c in changed):
                init.append((kk, _fresh(r, [vv])))
            else:
                init.append((kk, vv))
        init += extras
        r.shuffle(init)
        edits = ["remove(%s, %s)" % (var, _lit(r, kk)) for kk, vv in extras]
        for kk, vv in missing + changed:
            if r.random() < 0.6:
                edits.append("%s[%s] = %s" % (var, _lit(r, kk), _lit(r, vv)))
                tags.append("map-index-assign")
            else:
                edits.append("put(%s, %s, %s)" % (var, _lit(r, kk), _lit(r, vv)))
                tags.append("map-put")
        r.shuffle(edits)
        TOUCHED.extend([kk for kk, vv in extras + missing + changed])
        tags.append("map-same-size" if len(missing) == len(extras) else "map-resize")
        stmts.append("def %s = <<< %s >>>" % (var, ", ".join("%s => %s" % (gv.src_key(kk, r, r), _lit(r, vv)) for kk, vv in init)))
        stmts += _primers(r, var, r.randint(1, 3), extra_primers)
        stmts += edits
        return stmts, tags
    # atoms have no in-place edits
    return ["def %s = %s" % (var, _lit(r, av))], ["atom"]


def editable(av):
    return av[0] in ("str", "list", "set", "map")
