"""Syntax-only generator: random token lists covering every production of
ckl/parser.py (no semantics intended).  Used by C01 and C20.

A program is a list of token texts; joining with single spaces yields a
syntactically valid text (the generator only ever builds accepted forms;
C01 checks nothing about acceptance, only totality, so an occasional rejected
program is harmless)."""

KEYWORDS = ["if", "then", "elif", "else", "and", "or", "not", "is", "in", "def",
            "fn", "for", "while", "do", "end", "finally", "catch", "break",
            "continue", "return", "error", "require", "as", "also"]
OPERATORS = ["+", "-", "*", "/", "%", "==", "<>", "!=", "<", "<=", ">", ">=",
             "=", "+=", "-=", "*=", "/=", "%=", "!>", "->"]
INTERPUNCTION = ["(", ")", "[", "]", ",", ";", "<<", ">>", "<<<", ">>>", "<*",
                 "*>", "=>", "..."]
CONTEXTUAL = ["class", "all", "to", "import", "unqualified", "keys", "values",
              "entries", "empty", "zero", "negative", "numerical",
              "alphanumerical", "date", "with", "hour", "time", "string", "int",
              "decimal", "boolean", "pattern", "None", "func", "input", "output",
              "list", "set", "map", "object", "node", "starts", "ends",
              "contains", "matches", "min_len", "max_len", "exact_len"]
IDENTS = ["x", "y", "f", "checkerlang_x", "a...", "args...", "_p", "Math"]
LITERALS = ["0", "1", "12", "1.5", "0.25", "1_000", "0x1F", "0xff", "0b101",
            "0x", "0b", "0x_", "0b_", "1.", "1.5.2", "1e5", "0xG", "0b2", "08",
            "'a'", "\"b\"", "''", "'it\\'s'", "'\\x41'", "\"\\x4\"", "\"\\xZZ\"",
            "'\\xg1'", "'\\", "'unterminated", "\"unterminated", "'a\nb'",
            "//a//", "//[//", "//(//", "//*//", "//a|b//", "//unterminated",
            "// //", "TRUE", "FALSE", "NULL", "# comment\n", "#", "é", "日本",
            "\x00", "$", "@", "\\", "?", ":", ".", "..", "&", "|", "~", "{", "}",
            "!", "<*>", "<<>>", ">>>>", "<<<<", "=>=", "--", "**"]

FULL_ALPHABET = KEYWORDS + OPERATORS + INTERPUNCTION + CONTEXTUAL + IDENTS + LITERALS
REDUCED_ALPHABET = (
    ["if", "then", "else", "and", "not", "is", "in", "def", "fn", "for", "do",
     "end", "catch", "finally", "return", "error", "require", "as", "also",
     "while", "+", "-", "*", "<", "=", "+=", "!>", "->", "(", ")", "[", "]",
     ",", ";", "<<", ">>", "<<<", ">>>", "<*", "*>", "=>", "...", "class",
     "all", "to", "import", "x", "f", "checkerlang_x", "a...", "1", "1.5",
     "0x", "'a'", "\"\\x4\"", "//[//", "//a//", "TRUE", "# c\n", "numerical",
     "starts", "with", "contains"])

PRED_TYPES = ["string", "int", "decimal", "boolean", "pattern", "date", "None",
              "func", "input", "output", "list", "set", "map", "object", "node"]


class SyntaxGen:
    def __init__(self, rng, max_depth=4):
        self.r = rng
        self.max_depth = max_depth

    # -- helpers ----------------------------------------------------------
    def ident(self):
        return self.r.choice(["a", "b", "c", "x", "y", "f", "g", "acc", "it",
                              "keys", "values", "to", "all", "class", "list",
                              "empty", "import", "date", "with"])

    def plain_ident(self):
        return self.r.choice(["a", "b", "c", "x", "y", "f", "g", "acc", "it"])

    def literal(self):
        r = self.r
        k = r.randrange(12)
        if k == 0:
            return [str(r.choice([0, 1, 2, 7, 10, 255, 1000000, 2**63, 10**20]))]
        if k == 1:
            return [r.choice(["0x1F", "0xff", "0b101", "1_000", "0x_f_f", "0b1_0"])]
        if k == 2:
            return [r.choice(["1.5", "0.25", "10.0", "3.14159", "1_0.2_5", "0.0"])]
        if k == 3:
            return [r.choice(["'a'", "'abc'", "''", "\"d q\"", "'it\\'s'",
                              "'\\x41\\n'", "\"t\\tb\"", "'multi\nline'",
                              "'# no comment'", "\"//x//\""])]
        if k == 4:
            return [r.choice(["TRUE", "FALSE", "NULL"])]
        if k == 5:
            return [r.choice(["//a+//", "//^[a-z]*$//", "//x|y//", "//\\d+//"])]
        return [r.choice(["1", "2", "3", "'s'", "x", "y"])]

    def sep_list(self, fn, lo=0, hi=3, sep=",", trailing=False):
        n = self.r.randint(lo, hi)
        out = []
        for i in range(n):
            if i:
                out.append(sep)
            out += fn()
        if trailing and n and self.r.random() < 0.2:
            out.append(sep)
        return out

    # -- statements -------------------------------------------------------
    def program(self, n=None):
        n = n or self.r.randint(1, 4)
        out = []
        for i in range(n):
            if i:
                out.append(";")
            out += self.statement(0)
        if self.r.random() < 0.3:
            out.append(";")
        return out

    def statement(self, d):
        r = self.r
        if d >= self.max_depth:
            return self.expr(d)
        k = r.randrange(16)
        if k == 0:
            return self.require()
        if k == 1:
            doc = ["'doc string'"] if r.random() < 0.3 else []
            return doc + ["def", self.plain_ident(), "="] + self.expr(d + 1)
        if k == 2:
            doc = ["\"doc\""] if r.random() < 0.3 else []
            return doc + ["def", self.plain_ident()] + self.fn_tail(d + 1)
        if k == 3:
            return (["def", "["] + self.sep_list(lambda: [self.plain_ident()], 0, 3)
                    + ["]", "="] + self.expr(d + 1))
        if k == 4:
            return self.classdef(d + 1)
        if k == 5:
            what = r.choice([[], [], ["keys"], ["values"], ["entries"]])
            return (["for", self.plain_ident(), "in"] + what + self.expr(d + 1)
                    + self.block(d + 1))
        if k == 6:
            return (["for", "["] + self.sep_list(lambda: [self.plain_ident()], 1, 3)
                    + ["]", "in"] + self.expr(d + 1) + self.expr(d + 1))
        if k == 7:
            return ["while"] + self.or_expr(d + 1) + self.block(d + 1)
        if k == 8:
            return self.block(d + 1)
        return self.expr(d)

    def require(self):
        r = self.r
        spec = r.choice([["Math"], ["List"], ["'lib/mod.ckl'"], ["modname"],
                         ["String"]])
        k = r.randrange(4)
        if k == 0:
            return ["require"] + spec
        if k == 1:
            return ["require"] + spec + ["as", self.plain_ident()]
        if k == 2:
            return ["require"] + spec + ["unqualified"]

        def sym():
            s = [self.plain_ident()]
            if r.random() < 0.4:
                s += ["as", self.plain_ident()]
            return s
        return ["require"] + spec + ["import", "["] + self.sep_list(sym, 0, 3) + ["]"]

    def classdef(self, d):
        r = self.r
        out = ["def", "class", r.choice(["Cls", "Point", "K"]), "do"]
        for _ in range(r.randint(0, 3)):
            if r.random() < 0.5:
                out += ["def", self.plain_ident()] + self.fn_tail(d + 1)
            else:
                out += ["def", self.plain_ident(), "="] + self.expr(d + 1)
            if r.random() < 0.8:
                out.append(";")
        out.append("end")
        return out

    def params(self, d):
        r = self.r
        n = r.randint(0, 3)
        out = []
        for i in range(n):
            if i:
                out.append(",")
            last = i == n - 1
            if last and r.random() < 0.3:
                out.append(self.plain_ident() + "...")
            else:
                out.append(self.plain_ident())
                if r.random() < 0.3:
                    out += ["="] + self.expr(d + 2)
        return out

    def fn_tail(self, d):
        body = self.block(d) if self.r.random() < 0.5 else self.expr(d)
        return ["("] + self.params(d) + [")"] + body

    def block(self, d):
        r = self.r
        out = ["do"]
        n = r.randint(0, 3) if d < self.max_depth else 1
        for i in range(n):
            out += self.statement(d + 1)
            if i < n - 1 or r.random() < 0.6:
                out.append(";")
        for _ in range(r.choice([0, 0, 0, 1, 2])):
            out.append("catch")
            out += ["all"] if r.random() < 0.4 else self.expr(d + 2)
            out += self.block(d + 2) if r.random() < 0.4 else self.expr(d + 2)
            if r.random() < 0.5:
                out.append(";")
        if r.random() < 0.25:
            out.append("finally")
            m = r.randint(1, 2)
            for i in range(m):
                out += self.expr(d + 2)
                if i < m - 1 or r.random() < 0.5:
                    out.append(";")
        out.append("end")
        return out

    # -- expressions ------------------------------------------------------
    def expr(self, d):
        r = self.r
        if d < self.max_depth and r.random() < 0.12:
            out = ["if"] + self.or_expr(d + 1) + ["then"]
            out += self.block(d + 1) if r.random() < 0.3 else self.or_expr(d + 1)
            for _ in range(r.choice([0, 0, 1, 2])):
                out += [r.choice(["elif", "if"])] + self.or_expr(d + 1) + ["then"]
                out += self.block(d + 1) if r.random() < 0.3 else self.or_expr(d + 1)
            if r.random() < 0.6:
                out += ["else"]
                out += self.block(d + 1) if r.random() < 0.3 else self.or_expr(d + 1)
            return self.greedy(out) if d > 0 else out
        return self.or_expr(d)

    def or_expr(self, d):
        out = self.and_expr(d)
        while d < self.max_depth and self.r.random() < 0.12:
            out += ["or"] + self.and_expr(d + 1)
        return out

    def and_expr(self, d):
        out = self.not_expr(d)
        while d < self.max_depth and self.r.random() < 0.12:
            out += ["and"] + self.not_expr(d + 1)
        return out

    def not_expr(self, d):
        if self.r.random() < 0.08:
            return ["not"] + self.rel_expr(d)
        return self.rel_expr(d)

    def rel_expr(self, d):
        out = self.add_expr(d)
        n = 0
        while d < self.max_depth and self.r.random() < 0.15 and n < 3:
            op = self.r.choice(["==", "!=", "<>", "<", "<=", ">", ">=", "is",
                                "is not"])
            out += op.split() + self.add_expr(d + 1)
            n += 1
        return out

    def add_expr(self, d):
        out = self.mul_expr(d)
        while d < self.max_depth and self.r.random() < 0.2:
            out += [self.r.choice(["+", "-"])] + self.mul_expr(d + 1)
        return out

    def mul_expr(self, d):
        out = self.unary_expr(d)
        while d < self.max_depth and self.r.random() < 0.15:
            out += [self.r.choice(["*", "/", "%"])] + self.unary_expr(d + 1)
        return out

    def unary_expr(self, d):
        k = self.r.random()
        if k < 0.06:
            return ["-"] + self.pred_expr(d)
        if k < 0.09:
            return ["+"] + self.pred_expr(d)
        return self.pred_expr(d)

    def pred_expr(self, d):
        r = self.r
        out = self.primary(d)
        if d >= self.max_depth or r.random() > 0.15:
            return out
        k = r.randrange(14)
        neg = r.random() < 0.4
        if k == 0:
            return out + (["is", "not", "in"] if neg else ["is", "in"]) + self.primary(d + 1)
        if k == 1:
            return out + (["not", "in"] if neg else ["in"]) + self.primary(d + 1)
        if k == 2:
            return out + ["is"] + (["not"] if neg else []) + [r.choice(["empty", "zero", "negative"])]
        if k == 3:
            tail = []
            if r.random() < 0.3:
                tail += ["min_len"] + self.primary(d + 1)
            if r.random() < 0.3:
                tail += ["max_len"] + self.primary(d + 1)
            if r.random() < 0.3:
                tail += ["exact_len"] + self.primary(d + 1)
            return out + ["is"] + (["not"] if neg else []) + [r.choice(["numerical", "alphanumerical"])] + tail
        if k == 4:
            return out + ["is"] + (["not"] if neg else []) + r.choice([["date", "with", "hour"], ["date"], ["time"]])
        if k == 5:
            return out + ["is"] + (["not"] if neg else []) + [r.choice(PRED_TYPES)]
        if k == 6:
            return out + ["starts"] + (["not"] if neg else []) + ["with"] + self.primary(d + 1)
        if k == 7:
            return out + ["ends"] + (["not"] if neg else []) + ["with"] + self.primary(d + 1)
        if k == 8:
            return out + ["contains"] + (["not"] if neg else []) + self.primary(d + 1)
        if k == 9:
            return out + ["matches"] + (["not"] if neg else []) + self.primary(d + 1)
        return out

    def call_args(self, d):
        r = self.r

        def arg():
            k = r.random()
            if k < 0.2:
                return [self.plain_ident(), "="] + self.expr(d + 1)
            if k < 0.3:
                return ["...", self.plain_ident()]
            if k < 0.35:
                return ["...", "["] + self.sep_list(lambda: self.expr(d + 2), 0, 2) + ["]"]
            if k < 0.4:
                return ["...", "<<<", "'a'", "=>"] + self.expr(d + 2) + [">>>"]
            return self.expr(d + 1)
        return ["("] + self.sep_list(arg, 0, 3) + [")"]

    def postfix(self, base, d, allow_call=True):
        r = self.r
        out = base
        n = 0
        while d < self.max_depth and r.random() < 0.3 and n < 3:
            n += 1
            k = r.randrange(10)
            if k == 0 and allow_call:
                out = out + self.call_args(d)
            elif k == 1:
                out = out + ["["] + self.expr(d + 1) + ["]"]
            elif k == 2:
                out = out + ["["] + self.expr(d + 1) + [","] + self.expr(d + 1) + ["]"]
            elif k == 3:
                end = ["*"] if r.random() < 0.4 else self.expr(d + 1)
                out = out + ["["] + self.expr(d + 1) + ["to"] + end + ["]"]
            elif k == 4:
                out = out + ["->", self.plain_ident()]
            elif k == 5:
                out = out + ["->", self.plain_ident()] + self.call_args(d)
            elif k == 6:
                if r.random() < 0.3:
                    out = out + ["!>", "(", "fn"] + self.fn_tail(d + 1) + [")"] + self.call_args(d)
                else:
                    tgt = [self.plain_ident()]
                    while r.random() < 0.2:
                        tgt += ["->", self.plain_ident()]
                    out = out + ["!>"] + tgt + self.call_args(d)
            elif k == 7:
                op = r.choice(["=", "+=", "-=", "*=", "/=", "%="])
                if r.random() < 0.5:
                    out = out + ["["] + self.expr(d + 1) + ["]", op] + self.expr(d + 1)
                else:
                    out = out + ["->", self.plain_ident(), op] + self.expr(d + 1)
                return self.greedy(out)
        return out

    def greedy(self, toks):
        """Constructs whose trailing expression swallows everything to its right:
        usually parenthesised when used as an operand."""
        if self.r.random() < 0.8:
            return ["("] + toks + [")"]
        return toks

    def comprehension_tail(self, d):
        r = self.r

        def one():
            what = r.choice([[], [], ["keys"], ["values"], ["entries"]])
            return ["for", self.plain_ident(), "in"] + what + self.or_expr(d + 1)
        out = one()
        k = r.random()
        if k < 0.2:
            out += one()
        elif k < 0.4:
            out += ["also"] + one()
        if r.random() < 0.4:
            out += ["if"] + self.or_expr(d + 1)
        return out

    def primary(self, d):
        r = self.r
        if d >= self.max_depth:
            return self.literal()
        k = r.randrange(22)
        if k == 0:
            inner = self.sep_list(lambda: self.statement(d + 1), 1, 2, sep=";")
            return self.postfix(["("] + inner + [")"], d)
        if k == 1:
            op = r.choice(["=", "=", "+=", "-=", "*=", "/=", "%="])
            return self.greedy([self.plain_ident(), op] + self.expr(d + 1))
        if k == 2:
            return self.postfix([self.ident()], d)
        if k == 3:
            return self.greedy(["fn"] + self.fn_tail(d + 1))
        if k == 4:
            return [r.choice(["break", "continue"])]
        if k == 5:
            return self.greedy(["return"] + self.expr(d + 1))
        if k == 6:
            return self.greedy(["error"] + self.expr(d + 1))
        if k == 7:
            return self.block(d + 1)
        if k == 8:
            def item():
                if r.random() < 0.15:
                    return ["...", self.plain_ident()]
                return self.expr(d + 1)
            return self.postfix(["["] + self.sep_list(item, 0, 3, trailing=True) + ["]"], d, False)
        if k == 9:
            return self.postfix(["["] + self.expr(d + 1) + self.comprehension_tail(d) + ["]"], d, False)
        if k == 10:
            return self.greedy(["["] + self.sep_list(lambda: [self.plain_ident()], 1, 3)
                               + ["]", "="] + self.expr(d + 1))
        if k == 11:
            return self.postfix(["<<"] + self.sep_list(lambda: self.expr(d + 1), 0, 3, trailing=True) + [">>"], d, False)
        if k == 12:
            tail = self.comprehension_tail(d)
            return ["<<"] + self.expr(d + 1) + tail + [">>"]
        if k == 13:
            def kv():
                key = [self.plain_ident()] if r.random() < 0.3 else self.expr(d + 1)
                return key + ["=>"] + self.expr(d + 1)
            return self.postfix(["<<<"] + self.sep_list(kv, 0, 3, trailing=True) + [">>>"], d, False)
        if k == 14:
            what = r.choice([[], ["keys"], ["values"], ["entries"]])
            out = (["<<<"] + self.expr(d + 1) + ["=>"] + self.expr(d + 1)
                   + ["for", self.plain_ident(), "in"] + what + self.or_expr(d + 1))
            if r.random() < 0.4:
                out += ["if"] + self.or_expr(d + 1)
            return out + [">>>"]
        if k == 15:
            def member():
                if r.random() < 0.4:
                    return [self.plain_ident()] + self.fn_tail(d + 1)
                return [self.plain_ident(), "="] + self.expr(d + 1)
            return self.postfix(["<*"] + self.sep_list(member, 0, 3) + ["*>"], d, False)
        if k == 16:
            lit = self.literal()
            if r.random() < 0.3:
                lit = lit + ["!>", self.plain_ident()] + self.call_args(d)
            return lit
        return self.postfix(self.literal(), d, False) if r.random() < 0.2 else self.literal()


def join_tokens(tokens):
    return " ".join(tokens)
