"""Typed random operator-expression trees for C02 (and as leaves of C14 programs)."""
from cklref import refvalue as rv

INTS = [0, 1, 2, 3, 5, 7, -1, -2, -7, 10, 12, 100, 2**31, 2**53 + 1, 2**63, 10**20, 10**30 + 7, -(10**18) - 3]
DECS = [0.0, 0.5, 1.5, 2.0, -2.5, 0.25, 3.0, 10.0, 1e6]
STRS = ["", "a", "ab", "b", "a b", "x'y", "é"]
RELOPS = ["==", "!=", "<>", "<", "<=", ">", ">=", "is", "is not"]


class ExprGen:
    def __init__(self, rng, max_depth=4, ill_typed=0.06, ticks=False):
        self.r = rng
        self.max_depth = max_depth
        self.ill = ill_typed
        self.ticks = ticks
        self.tick_id = 0

    def lit_int(self):
        r = self.r
        return ("lit", ("int", r.choice(INTS) if r.random() < 0.7 else r.randint(-30, 30)))

    def lit_dec(self):
        return ("lit", ("dec", self.r.choice(DECS)))

    def conv_num(self):
        """numbers produced by conversion / rounding built-ins (kind is what matters: decimal(3) is a decimal)"""
        r = self.r
        n = r.randint(-9, 9)
        d = r.choice([0.5, 1.5, 2.25, 7.5, -2.5, 3.0])
        import math
        return r.choice([
            ("src", ["decimal", "(", str(abs(n)), ")"], ("dec", float(abs(n)))),
            ("src", ["floor", "(", repr(abs(d)), ")"], ("dec", float(math.floor(abs(d))))),
            ("src", ["ceiling", "(", repr(abs(d)), ")"], ("dec", float(math.ceil(abs(d))))),
            ("src", ["round", "(", "3", ",", "1", ")"], ("dec", 3.0)),
            ("src", ["round", "(", "2.0", ")"], ("dec", 2.0)),
            ("src", ["int", "(", repr(abs(d)), ")"], ("int", int(abs(d)))),
            ("src", ["int", "(", "'%d'" % abs(n), ")"], ("int", abs(n))),
            ("src", ["decimal", "(", "'%d'" % abs(n), ")"], ("dec", float(abs(n)))),
            ("src", ["length", "(", "[", "1", ",", "2", "]", ")"], ("int", 2)),
            ("src", ["abs", "(", "-", "4", ")"], ("int", 4)),
            ("src", ["sum", "(", "[", "1.0", ",", "2", "]", ")"], ("dec", 3.0)),
        ])

    def lit_num(self):
        k = self.r.random()
        if k < 0.5:
            return self.lit_int()
        if k < 0.8:
            return self.lit_dec()
        if k < 0.95:
            return self.conv_num()
        return ("lit", rv.NULL)

    def lit_bool(self):
        return ("lit", ("bool", self.r.random() < 0.5))

    def lit_str(self):
        return ("lit", ("str", self.r.choice(STRS)))

    def lit_list(self):
        r = self.r
        n = r.randint(0, 3)
        kind = r.choice(["int", "str", "mixed"])
        items = []
        for _ in range(n):
            if kind == "int" or (kind == "mixed" and r.random() < 0.5):
                items.append(("int", r.randint(0, 4)))
            else:
                items.append(("str", r.choice(["a", "b", ""])))
        return ("lit", ("list", tuple(items)))

    def wrong(self, want):
        """an operand of a different type than wanted"""
        r = self.r
        # (no strings/lists in numeric position: 'a' * 2^31 is a multi-gigabyte allocation, not a semantics question;
        #  string/list operands of arithmetic are covered by the exhaustive operator pairs with small ints)
        cands = {"num": [self.lit_bool, self.lit_bool], "bool": [self.lit_int, self.lit_str, lambda: ("lit", rv.NULL)],
                 "str": [self.lit_bool], "list": [self.lit_bool]}[want]
        return r.choice(cands)()

    def num(self, d=0):
        r = self.r
        if r.random() < self.ill:
            return self.wrong("num")
        if d >= self.max_depth or r.random() < 0.3:
            return self.lit_num()
        k = r.random()
        if k < 0.75:
            op = r.choice(["+", "-", "*", "/", "%", "+", "-", "*"])
            return ("bin", op, self.num(d + 1), self.num(d + 1))
        if k < 0.9:
            return ("neg", self.num(d + 1))
        return ("pos", self.num(d + 1))

    def same_kind_pair_gen(self):
        return self.r.choice([self.num, self.num, self.str_, self.bool_leaf, self.list_])

    def bool_leaf(self, d=0):
        return self.lit_bool()

    def bool_(self, d=0):
        r = self.r
        if r.random() < self.ill:
            return self.wrong("bool")
        if d >= self.max_depth or r.random() < 0.15:
            return self.lit_bool()
        k = r.random()
        if k < 0.4:
            g = self.same_kind_pair_gen()
            n = r.choice([1, 1, 1, 2, 3, 4, 5, 6])
            operands = [g(d + 1) for _ in range(n + 1)]
            ops = [r.choice(RELOPS) for _ in range(n)]
            return ("chain", operands, ops)
        if k < 0.55:
            return ("not", self.bool_(d + 1))
        if k < 0.72:
            return ("and", [self.clause(d + 1) for _ in range(r.randint(2, 3))])
        if k < 0.89:
            return ("or", [self.clause(d + 1) for _ in range(r.randint(2, 3))])
        e = r.choice([self.lit_int, self.lit_str])()
        c = r.choice([self.lit_list, self.lit_str]) ()
        if c[1][0] == "str" and e[1][0] != "str":
            e = self.lit_str()
        return (r.choice(["in", "notin"]), e, c)

    def clause(self, d):
        e = self.bool_(d)
        if self.ticks and self.r.random() < 0.6:
            self.tick_id += 1
            return ("tick", self.tick_id, e)
        return e

    def str_(self, d=0):
        r = self.r
        if r.random() < self.ill:
            return self.wrong("str")
        if d >= self.max_depth or r.random() < 0.4:
            return self.lit_str()
        k = r.random()
        if k < 0.5:
            return ("bin", "+", self.str_(d + 1), self._atomic(d + 1))
        if k < 0.7:
            return ("bin", "+", self._atomic(d + 1), self.str_(d + 1))
        return ("bin", "*", self.str_(d + 1), ("lit", ("int", r.randint(-1, 3))))

    def _atomic(self, d):
        r = self.r
        k = r.random()
        if k < 0.5:
            return self.str_(d)
        if k < 0.75:
            return ("lit", ("int", r.randint(-5, 50)))
        if k < 0.9:
            return self.lit_bool()
        return ("lit", ("dec", r.choice([0.5, 1.5, -2.5, 10.0])))

    def list_(self, d=0):
        r = self.r
        if r.random() < self.ill:
            return self.wrong("list")
        if d >= self.max_depth or r.random() < 0.4:
            return self.lit_list()
        k = r.random()
        if k < 0.3:
            return ("bin", "+", self.list_(d + 1), self.list_(d + 1))
        if k < 0.5:
            return ("bin", "+", self.list_(d + 1), r.choice([self.lit_int, self.lit_str])())
        if k < 0.6:
            return ("bin", "+", r.choice([self.lit_int, self.lit_str])(), self.list_(d + 1))
        if k < 0.85:
            return ("bin", "-", self.list_(d + 1), r.choice([self.lit_int(), self.lit_str(), self.list_(d + 1)]))
        return ("bin", "*", self.list_(d + 1), ("lit", ("int", r.randint(-1, 3))))

    def any(self, d=0):
        return self.r.choice([self.num, self.num, self.bool_, self.bool_, self.str_, self.list_])(d)


def size(t):
    k = t[0]
    if k in ("lit", "var", "src"):
        return 1
    if k == "tick":
        return size(t[2])
    if k == "bin":
        return 1 + size(t[2]) + size(t[3])
    if k in ("neg", "pos", "not"):
        return 1 + size(t[1])
    if k == "chain":
        return len(t[2]) + sum(size(e) for e in t[1])
    if k in ("and", "or"):
        return 1 + sum(size(e) for e in t[1])
    if k in ("in", "notin"):
        return 1 + size(t[1]) + size(t[2])
    return 1


def operators(t, out=None):
    """multiset of operator names used (for non-triviality / coverage counters)"""
    if out is None:
        out = []
    k = t[0]
    if k == "bin":
        out.append(t[1])
        operators(t[2], out)
        operators(t[3], out)
    elif k in ("neg", "pos", "not"):
        out.append(k)
        operators(t[1], out)
    elif k == "chain":
        out.extend(t[2])
        if len(t[2]) > 1:
            out.append("chain")
        for e in t[1]:
            operators(e, out)
    elif k in ("and", "or"):
        out.append(k)
        for e in t[1]:
            operators(e, out)
    elif k in ("in", "notin"):
        out.append(k)
        operators(t[1], out)
        operators(t[2], out)
    elif k == "tick":
        operators(t[2], out)
    return out
